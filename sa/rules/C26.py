"""C26 Garbage collection deletes exactly the expired shares.

C26.1 is the dimension analysis (DESIGN.md E8 / R8): an abstract
interpretation of LeaseCheckingCrawler.process_share over the domain
{Timestamp, Duration, scalar, unknown}.  C26.2 is a path-sensitive symbolic
decision table of the per-lease expiry decision; C26.3-C26.5 are the guarded
effects, the unlink conditions and the configuration plumbing.  C26.6 re-derives
the decision table of C26.2 from the loop-head invariant state, so that state
carried over from an earlier lease (a flag initialised once before the loop, an
attribute, the queue itself) cannot steer the verdict on a later lease.
C26.7 is the liveness side of the two cancel_lease implementations: explored
under the scenario "every lease found carries the cancelled secret", with the
constant-stepped counters and flags followed exactly, the unlink must remain
reachable.  C26.8 is the safety side of the same counters: the unlink is
reached only after the lease enumeration was run to exhaustion, and the
enumerators hand out every slot.  C26.9 / C26.10 adopt the crawler-coverage
rules of C27 and the lease-enumeration rules of C25; C26.11 requires the
ShareCrawler hooks the expirer replaces without an upcall to be free of
traversal bookkeeping.  C26.12 / C26.13 close the chain from the text of
[storage]expire.cutoff_date to the number the leases are compared with:
the keyword receives exactly the value of util.time_format.parse_date, and
(adopted from C48.5/.6/.8) that value is midnight UTC of the given day."""
from fractions import Fraction

from sa.h import *

EXPLANATION = (
    "Decided (structural, all paths): (1) R8 dimension analysis of LeaseCheckingCrawler.process_share and of the "
    "LeaseInfo accessors that seed it - abstract domain {Timestamp, Duration, scalar, unknown}, T-T=D, T+-D=T, "
    "D+-D=D, k*D=D; every comparison / min / max / phi-join relates like dimensions; (2) the per-lease decision "
    "table, by symbolic execution of every path through one iteration of the lease loop with the LeaseInfo "
    "accessors inlined: a lease reaches the cancel list only under 'share type enabled' and the documented "
    "predicate of the configured mode (age+override: renew+override < now; age without override: the lease's own "
    "expiration time < now; cutoff-date: renew < cutoff), and is kept only under the negation; (3) cancel_lease is "
    "called only from process_share, only under self.expiration_enabled, on the share the leases were read from, "
    "for members of that list; the crawler has no other deleting effect; (4) both containers unlink the share file "
    "only when no lease remains after the cancellation; (5) tahoe.cfg expire.* keys reach the matching constructor "
    "parameters through parse_duration / parse_date, expiration is off by default, and the crawler's policy "
    "attributes are bound only in __init__; (6) the decision table of (2) holds in every iteration of the lease loop, "
    "not only the first: it is re-derived from the loop-head state of a constant-propagation fixpoint in which every "
    "local, self attribute or container written by the loop body is an opaque value left by the previous lease unless "
    "each pass provably re-establishes its pre-loop constant - so no lease's verdict depends on an earlier lease's; "
    "(7) deletion within the cycle, structurally: the documented predicates are strict (a lease exactly on the "
    "boundary is kept); the lease loop is left early (break/return) only on a path that establishes the lease as "
    "unexpired, never after queuing one; after one cancel_lease the loop over the expired list always continues; in "
    "both containers, under the scenario 'every lease found carries the cancelled secret' - match / remaining "
    "counters and flags followed with their exact values, every other test free - the unlink is reachable; a "
    "fallback expire.mode is read only when expire.enabled is false; (8) 'no lease remains' is a statement about every "
    "lease of the share: MutableShareFile.cancel_lease reaches its unlink only after the lease enumeration loop was run "
    "to exhaustion (not from inside it, not after a break / return - explored with the match / remaining counters at "
    "their exact values, so a break taken after a lease was counted as remaining is admitted), that loop runs over the "
    "complete _enumerate_leases(), _enumerate_leases / MutableShareFile.get_leases leave their slot loop early only "
    "through an exception handler, and ShareFile.cancel_lease filters its remaining list from the complete "
    "get_leases(); (9, adopted from C27.1/.2/.3/.5) the crawler the expirer inherits reaches every bucket in every "
    "cycle: progress markers, resume predicate, state saved and timer re-armed, traversal not overridden, cycle counter "
    "and the end-of-cycle reset of last-complete-bucket / last_complete_prefix_index / current-cycle; (10, adopted from "
    "C25.8/.9) the lease enumerations pair every lease with its own slot and a slot reads as empty only for owner_num 0; "
    "(11) every ShareCrawler method the expirer replaces without an upcall (started_cycle, finished_cycle, "
    "add_initial_state, process_bucket) does no traversal bookkeeping in the base class, directly or through "
    "self.<m>() calls - a resume marker or cycle counter maintained in a replaced hook is lost for the lease crawler; "
    "(12) every value that can reach StorageServer(expiration_cutoff_date=) / (expiration_override_lease_duration=) - "
    "followed through all reaching definitions of the locals - is None, the raw text with a None default (C26.5 decides "
    "that only None gets through) or exactly parse_date(..) / parse_duration(..) (an int(..) around it admitted) of the "
    "text of its own key, the callee resolving through client.py's imports to allmydata.util.time_format; (13, adopted "
    "from C48.5/.6/.8) parse_date returns int(iso_utc_time_to_seconds(day + 'T00:00:00')), whose fields feed "
    "calendar.timegm - midnight UTC of the configured day, not local-time midnight - the date grammar consumes the whole "
    "value, and a rejected value stops the node. "
    "Undecided: clock values, the arithmetic of parse_duration (C48.1/.2), lease record (de)serialisation and "
    "the slot offsets of _read_lease_record (C25.4/C25.6), the atomicity of the crawler state file and run-time "
    "exceptions that abort a slice (C27.4/C27.6), the "
    "space-recovered / would_keep_share statistics and histograms, what happens to a share that already has no "
    "lease at all (it is never cancelled, hence never deleted), crashes (unbound locals, IndexError out of "
    "cancel_lease) that stop the crawler instead of deleting.")
TECHNIQUE = ("static analysis: dimension abstract interpretation over the CFG, symbolic path enumeration of the "
             "expiry decision, guarded-effect path rules, exact-counter scenario exploration of cancel_lease, "
             "keyword/def-use plumbing")

EXPIRER = "storage.expirer:LeaseCheckingCrawler"
LEASE = "storage.lease:LeaseInfo"

# =====================================================================
# E8: dimension domain
# =====================================================================
T, D, K, U = "T", "D", "K", "?"
DIM_NAME = {T: "Timestamp", D: "Duration", K: "scalar", U: "unknown"}

# seeds (DESIGN.md E8) - by callee tail / dotted callee / attribute tail / free name
CALL_TAIL_SEEDS = {"get_expiration_time": T, "get_grant_renew_time_time": T, "get_age": D, "seconds": T}
CALL_NAME_SEEDS = {"time.time": T}
ATTR_SEEDS = {"cutoff_date": T, "override_lease_duration": D, "_expiration_time": T}
NAME_SEEDS = {"cutoff_date": T, "override_lease_duration": D, "DEFAULT_RENEWAL_TIME": D}
PASS_THROUGH = {"int", "float", "round", "abs", "ceil", "floor"}
ACCESSOR_DIMS = {"get_expiration_time": T, "get_grant_renew_time_time": T, "get_age": D}

_ERR = "!"
_ADD = {(T, T): _ERR, (T, D): T, (D, T): T, (T, K): T, (K, T): T, (D, D): D, (D, K): D, (K, D): D, (K, K): K}
_SUB = {(T, T): D, (T, D): T, (T, K): T, (D, D): D, (D, K): D, (K, D): D, (K, K): K, (D, T): _ERR, (K, T): _ERR}
_MUL = {(K, K): K, (K, D): D, (D, K): D}
_DIV = {(D, D): K, (D, K): D, (K, K): K}
_MOD = {(D, K): D, (K, K): K, (D, D): D}


def _dimset(s):
    return "|".join(DIM_NAME[x] for x in sorted(s)) or "none"


class DimProblem:
    def __init__(self, node, kind, msg, var=None):
        self.node, self.kind, self.msg, self.var = node, kind, msg, var


class DimFlow:
    """Flow-sensitive forward analysis: IN[node] maps each local to the set of
    dimensions it may hold there (union at joins - a set holding both T and D
    is a phi conflict)."""

    def __init__(self, fn):
        self.fn = fn
        self.cfg = fn.cfg()
        self.problems = {}
        self.sites = []
        self.IN = self._solve()

    # -- expression evaluation
    def ev(self, e, env, rec=True):
        if isinstance(e, ast.Constant):
            if isinstance(e.value, (int, float)) and not isinstance(e.value, bool):
                return frozenset([K])
            return frozenset()
        if isinstance(e, ast.Name):
            if e.id in env:
                return env[e.id]
            if e.id in NAME_SEEDS:
                return frozenset([NAME_SEEDS[e.id]])
            return frozenset([U])
        if isinstance(e, ast.Attribute):
            if e.attr in ATTR_SEEDS:
                return frozenset([ATTR_SEEDS[e.attr]])
            return frozenset([U])
        if isinstance(e, ast.Call):
            nm, tl = call_name(e), call_tail(e)
            if nm in CALL_NAME_SEEDS:
                return frozenset([CALL_NAME_SEEDS[nm]])
            if nm == "time" and self.fn.module.imports.get("time") == "time.time":
                return frozenset([T])
            if tl in CALL_TAIL_SEEDS and isinstance(e.func, ast.Attribute):
                return frozenset([CALL_TAIL_SEEDS[tl]])
            if tl in PASS_THROUGH and len(e.args) >= 1:
                return self.ev(e.args[0], env, rec)
            if nm in ("min", "max") and len(e.args) >= 2 and not e.keywords:
                out = set()
                for a in e.args:
                    out |= self.ev(a, env, rec)
                return frozenset(out)
            return frozenset([U])
        if isinstance(e, ast.IfExp):
            return self.ev(e.body, env, rec) | self.ev(e.orelse, env, rec)
        if isinstance(e, ast.UnaryOp) and isinstance(e.op, (ast.USub, ast.UAdd)):
            return self.ev(e.operand, env, rec)
        if isinstance(e, ast.NamedExpr):
            return self.ev(e.value, env, rec)
        if isinstance(e, ast.BinOp):
            tab = {ast.Add: _ADD, ast.Sub: _SUB, ast.Mult: _MUL, ast.Div: _DIV, ast.FloorDiv: _DIV,
                   ast.Mod: _MOD}.get(type(e.op))
            l, r = self.ev(e.left, env, rec), self.ev(e.right, env, rec)
            if tab is None:
                return frozenset([U])
            out = set()
            for a in l:
                for b in r:
                    if U in (a, b):
                        out.add(U)
                        continue
                    v = tab.get((a, b), U)
                    if v == _ERR:
                        if rec:
                            self._problem(e, "arith", "%s: %s %s %s is not a meaningful quantity" % (
                                src(self.fn, e), DIM_NAME[a], "+" if isinstance(e.op, ast.Add) else "-", DIM_NAME[b]))
                        v = U
                    out.add(v)
            return frozenset(out)
        return frozenset([U])

    def _problem(self, node, kind, msg, var=None):
        self.problems.setdefault((id(node), kind), DimProblem(node, kind, msg, var))

    # -- transfer
    def _bind(self, env, target, dims):
        if isinstance(target, ast.Name):
            env[target.id] = dims
        elif isinstance(target, (ast.Tuple, ast.List)):
            for t in target.elts:
                self._bind(env, t.value if isinstance(t, ast.Starred) else t, frozenset([U]))

    def _transfer(self, n, env, rec=False):
        a = n.ast
        out = env
        if n.kind == "stmt":
            if isinstance(a, ast.Assign):
                out = dict(env)
                for t in a.targets:
                    if isinstance(t, (ast.Tuple, ast.List)) and isinstance(a.value, (ast.Tuple, ast.List)) \
                            and len(t.elts) == len(a.value.elts):
                        for tt, vv in zip(t.elts, a.value.elts):
                            self._bind(out, tt, self.ev(vv, env, rec))
                    else:
                        self._bind(out, t, self.ev(a.value, env, rec))
            elif isinstance(a, ast.AnnAssign) and a.value is not None:
                out = dict(env)
                self._bind(out, a.target, self.ev(a.value, env, rec))
            elif isinstance(a, ast.AugAssign) and isinstance(a.target, ast.Name):
                out = dict(env)
                be = ast.BinOp(left=ast.Name(id=a.target.id, ctx=ast.Load()), op=a.op, right=a.value)
                ast.copy_location(be, a)
                out[a.target.id] = self.ev(be, env, rec)
            elif isinstance(a, (ast.FunctionDef, ast.AsyncFunctionDef, ast.ClassDef)):
                out = dict(env)
                out[a.name] = frozenset([U])
        elif n.kind == "iter":
            out = dict(env)
            self._bind(out, a.target, frozenset([U]))
        elif n.kind == "with":
            out = dict(env)
            for it in a.items:
                if it.optional_vars is not None:
                    self._bind(out, it.optional_vars, frozenset([U]))
        elif n.kind == "except" and a.name:
            out = dict(env)
            out[a.name] = frozenset([U])
        return out

    def _solve(self):
        cfg = self.cfg
        init = {}
        for p in self.fn.params:
            init[p] = frozenset([NAME_SEEDS[p]]) if p in NAME_SEEDS else frozenset([U])
        IN = {cfg.entry.id: init}
        work = [cfg.entry.id]
        steps = 0
        while work:
            nid = work.pop()
            steps += 1
            if steps > 200000:
                raise AnalysisError("dimension analysis did not converge in %s" % self.fn.qual)
            out = self._transfer(cfg.nodes[nid], IN[nid])
            for (d, _lab) in cfg.succ[nid]:
                old = IN.get(d)
                if old is None:
                    IN[d] = dict(out)
                    work.append(d)
                    continue
                changed = False
                for k, v in out.items():
                    ov = old.get(k)
                    if ov is None:
                        old[k] = v
                        changed = True
                    elif not v <= ov:
                        old[k] = ov | v
                        changed = True
                if changed:
                    work.append(d)
        self.steps = steps
        return IN

    # -- checks
    def _describe(self, n, e, env):
        """Text for one operand; for a local with several reaching definitions
        say which definition gives which dimension."""
        dims = self.ev(e, env, False)
        txt = "%s [%s]" % (src(self.fn, e), _dimset(dims))
        if isinstance(e, ast.Name):
            rd = self._rd().get(n.id, {}).get(e.id, frozenset())
            parts = []
            for d in sorted(x for x in rd if x >= 0):
                dn = self.cfg.nodes[d]
                val = assign_value(dn, e.id)
                if val is not None:
                    parts.append("L%d %s = %s [%s]" % (dn.lineno, e.id, src(self.fn, val),
                                                      _dimset(self.ev(val, self.IN.get(d, {}), False))))
            if len(parts) > 1:
                txt += " (reaching definitions: " + "; ".join(parts) + ")"
        return txt

    def _rd(self):
        if not hasattr(self, "_rdc"):
            self._rdc = C.reaching_defs(self.cfg)
        return self._rdc

    def _like(self, n, whole, operands, env, what):
        dl = [self.ev(x, env, False) for x in operands]
        if any(d & {T, D} for d in dl):
            self.sites.append((n, whole))
        for i in range(len(operands)):
            for j in range(i + 1, len(operands)):
                a, b = dl[i] & {T, D}, dl[j] & {T, D}
                if not a or not b:
                    continue
                if len(a | b) > 1:
                    var = None
                    for (x, dx) in ((operands[i], a), (operands[j], b)):
                        if isinstance(x, ast.Name) and len(dx) > 1:
                            var = x.id        # the phi conflict is the root cause
                    if var is None:
                        for x in (operands[j], operands[i]):
                            if isinstance(x, ast.Name):
                                var = x.id
                                break
                    self._problem(whole, what, "%s relates unlike dimensions: %s vs %s" % (
                        what, self._describe(n, operands[i], env), self._describe(n, operands[j], env)), var)

    def check(self):
        for n in self.cfg.nodes:
            env = self.IN.get(n.id)
            if env is None:
                continue   # unreachable
            for e in node_exprs(n):
                for x in own_nodes(e):
                    if isinstance(x, ast.Compare):
                        ops = [x.left] + list(x.comparators)
                        for k, op in enumerate(x.ops):
                            if isinstance(op, (ast.Lt, ast.LtE, ast.Gt, ast.GtE, ast.Eq, ast.NotEq)):
                                self._like(n, x, [ops[k], ops[k + 1]], env, "comparison")
                    elif isinstance(x, ast.Call) and call_name(x) in ("min", "max") and len(x.args) >= 2:
                        self._like(n, x, list(x.args), env, call_name(x) + "()")
                    elif isinstance(x, ast.BinOp):
                        self.ev(x, env, True)
            # stores into seeded attributes keep their dimension
            if n.kind == "stmt" and isinstance(n.ast, ast.Assign):
                for t in n.ast.targets:
                    if isinstance(t, ast.Attribute) and t.attr in ATTR_SEEDS:
                        got = self.ev(n.ast.value, env, False) & {T, D}
                        self.sites.append((n, n.ast))
                        if got and got != {ATTR_SEEDS[t.attr]}:
                            self._problem(n.ast, "store", "%s (a %s) is assigned %s" % (
                                attr_path(t), DIM_NAME[ATTR_SEEDS[t.attr]], self._describe(n, n.ast.value, env)), t.attr)
            self.ev_transfer_problems(n, env)
        return list(self.problems.values())

    def ev_transfer_problems(self, n, env):
        self._transfer(n, env, rec=True)

    def return_dims(self):
        out = []
        for n in self.cfg.nodes:
            if is_return(n) and n.id in self.IN:
                v = n.ast.value
                out.append((n, self.ev(v, self.IN[n.id], False) if v is not None else frozenset()))
        return out


# =====================================================================
# symbolic execution of one pass through the lease loop
# =====================================================================
def _neg(f):
    op = f[0]
    if op == "<":
        return ("<=", -f[1])
    if op == "<=":
        return ("<", -f[1])
    flip = {"==": "!=", "!=": "==", "is": "is not", "is not": "is", "in": "not in", "not in": "in",
            "truth": "false", "false": "truth"}
    return (flip[op],) + tuple(f[1:])


def _single_atom(p):
    if isinstance(p, Poly) and len(p.t) == 1:
        (k, c), = p.t.items()
        if len(k) == 1 and c == 1:
            return k[0]
    return None


def _s(v):
    if isinstance(v, Poly):
        return _single_atom(v) or str(v)
    if isinstance(v, tuple) and v[0] == "c":
        return repr(v[1])
    if isinstance(v, tuple) and v[0] == "b":
        return _fact_str(v[1])
    return str(v)


def _fact_str(f):
    if f[0] in ("<", "<="):
        return "0 %s %s" % (f[0], f[1])
    if len(f) == 2:
        return "%s(%s)" % (f[0], f[1])
    return "%s %s %s" % (f[1], f[0], f[2])


class SymExec:
    ACCESSORS = ("get_age", "get_expiration_time", "get_grant_renew_time_time")

    def __init__(self, idx, fn):
        self.idx = idx
        self.fn = fn
        self.cfg = fn.cfg()
        self._inl = {}

    def _is_clock(self, e, module):
        nm = call_name(e)
        if e.args or e.keywords:
            return False
        if nm == "time.time" and module.imports.get("time", "time") == "time":
            return True
        return nm == "time" and module.imports.get("time") == "time.time"

    def inline(self, meth, recv, depth=0):
        """Symbolic value of <recv>.<meth>() from the body of LeaseInfo.<meth>
        (a single return statement)."""
        key = (meth, recv)
        if key in self._inl:
            return self._inl[key]
        if depth > 4:
            raise AnalysisError("LeaseInfo accessors are mutually recursive")
        f = self.idx.func(LEASE + "." + meth)
        body = [st for st in f.body if not (isinstance(st, ast.Expr) and isinstance(st.value, ast.Constant))]
        if len(body) != 1 or not isinstance(body[0], ast.Return) or body[0].value is None:
            raise AnalysisError("LeaseInfo.%s is no longer a single return expression; the decision table "
                                "cannot inline it" % meth)
        params = first_positional_params(f)
        if params:
            raise AnalysisError("LeaseInfo.%s takes parameters %s" % (meth, params))
        v = self.ev(body[0].value, {"self": Poly.atom(recv)}, f.module, depth + 1)
        self._inl[key] = v
        return v

    def ev(self, e, env, module=None, depth=0):
        module = module or self.fn.module
        rec = lambda x: self.ev(x, env, module, depth)
        if isinstance(e, ast.Constant):
            v = e.value
            if isinstance(v, bool) or v is None or isinstance(v, (str, bytes)):
                return ("c", v)
            if isinstance(v, int):
                return Poly.const(v)
            if isinstance(v, float):
                return Poly.const(Fraction(v))
            return ("c", v)
        if isinstance(e, ast.Name):
            return env.get(e.id, Poly.atom(e.id))
        if isinstance(e, ast.Attribute):
            key = _s(rec(e.value)) + "." + e.attr
            if key in env:          # an attribute stored earlier on this path / carried over the loop head
                return env[key]
            return Poly.atom(key)
        if isinstance(e, ast.Subscript):
            return Poly.atom("%s[%s]" % (_s(rec(e.value)), _s(rec(e.slice))))
        if isinstance(e, ast.Call):
            tl = call_tail(e)
            if self._is_clock(e, module):
                return Poly.atom("now")
            if tl in self.ACCESSORS and isinstance(e.func, ast.Attribute) and not e.args and not e.keywords:
                return self.inline(tl, _s(rec(e.func.value)), depth)
            if isinstance(e.func, ast.Name) and e.func.id in ("int", "float") and len(e.args) == 1 and not e.keywords:
                return rec(e.args[0])
            fn = (_s(rec(e.func.value)) + "." + e.func.attr) if isinstance(e.func, ast.Attribute) else _s(rec(e.func))
            args = [_s(rec(a)) for a in e.args] + sorted("%s=%s" % (k.arg, _s(rec(k.value))) for k in e.keywords)
            return Poly.atom("%s(%s)" % (fn, ", ".join(args)))
        if isinstance(e, ast.UnaryOp):
            if isinstance(e.op, ast.Not):
                return ("b", _neg(self.as_fact(rec(e.operand))))
            v = rec(e.operand)
            if isinstance(v, Poly) and isinstance(e.op, ast.USub):
                return -v
            if isinstance(v, Poly) and isinstance(e.op, ast.UAdd):
                return v
        if isinstance(e, ast.BinOp):
            l, r = rec(e.left), rec(e.right)
            if isinstance(l, Poly) and isinstance(r, Poly):
                if isinstance(e.op, ast.Add):
                    return l + r
                if isinstance(e.op, ast.Sub):
                    return l - r
                if isinstance(e.op, ast.Mult):
                    return l * r
                if isinstance(e.op, ast.Div):
                    c = r.const_value()
                    if c is not None and c != 0:
                        return l * Poly.const(1 / c)
            return Poly.atom("(%s %s %s)" % (_s(l), type(e.op).__name__, _s(r)))
        if isinstance(e, ast.Compare) and len(e.ops) == 1:
            l, r = rec(e.left), rec(e.comparators[0])
            op = type(e.ops[0])
            if op in (ast.Lt, ast.LtE, ast.Gt, ast.GtE) and isinstance(l, Poly) and isinstance(r, Poly):
                if op in (ast.Gt, ast.GtE):
                    l, r = r, l
                return ("b", ("<" if op in (ast.Lt, ast.Gt) else "<=", r - l))
            sym = {ast.Eq: "==", ast.NotEq: "!=", ast.Is: "is", ast.IsNot: "is not", ast.In: "in",
                   ast.NotIn: "not in", ast.Lt: "lt", ast.LtE: "le", ast.Gt: "gt", ast.GtE: "ge"}[op]
            ls, rs = _s(l), _s(r)
            if sym in ("==", "!=", "is", "is not"):
                if rs < ls:
                    ls, rs = rs, ls
                if sym in ("==", "!=") and "None" in (ls, rs):
                    sym = "is" if sym == "==" else "is not"
                if isinstance(l, tuple) and isinstance(r, tuple) and l[0] == "c" and r[0] == "c":
                    res = (l[1] == r[1]) if sym in ("==", "is") else (l[1] != r[1])
                    return ("c", res)
            if sym in ("lt", "le", "gt", "ge"):
                return ("b", ("truth", "%s %s %s" % (ls, sym, rs)))
            return ("b", (sym, ls, rs))
        return Poly.atom("<%s>" % norm_plain(e))

    def as_fact(self, v):
        if isinstance(v, tuple) and v[0] == "b":
            return v[1]
        if isinstance(v, tuple) and v[0] == "c":
            return ("const", bool(v[1]))
        return ("truth", _s(v))

    def paths(self, head, list_name, limit=20000, head_env=None):
        """Every acyclic path entry -> (second arrival at `head` | normal exit).
        Returns [(pc, events, final_env, path_nodes, end, tests)]; `tests` pairs each
        fact of `pc` with the test node it came from.  `head_env`, when given,
        overrides the environment on entering an iteration (the state the loop
        head may see in *any* iteration); the environments of the first arrival
        at the head are kept in self.pre_envs."""
        cfg = self.cfg
        out = []
        self.pre_envs = []
        in_body = {id(x) for st in head.ast.body for x in ast.walk(st)}
        stack = [(cfg.entry, {}, (), (), False, frozenset(), (), ())]
        n_steps = 0
        while stack:
            node, env, pc, events, seen, visited, trail, tests = stack.pop()
            n_steps += 1
            if n_steps > 400000 or len(out) > limit:
                raise AnalysisError("path explosion in %s" % self.fn.qual)
            if node.kind == "raise":
                continue
            if node.kind == "exit":
                out.append((pc, events, env, trail, "exit", tests))
                continue
            if node is head and seen:
                out.append((pc, events, env, trail, "next-lease", tests))
                continue
            if seen and id(node.ast) not in in_body:
                out.append((pc, events, env, trail, "exit", tests))      # the loop was left (break): stop here
                continue
            if node.id in visited:
                raise AnalysisError("%s: a cycle that does not pass the lease loop head (L%d); the decision "
                                    "table cannot be enumerated" % (self.fn.qual, node.lineno))
            visited = visited | {node.id}
            trail = trail + (node,)
            succ = [(cfg.nodes[d], lab) for (d, lab) in cfg.succ[node.id] if lab != "exc"]
            if node.kind == "test":
                f = self.as_fact(self.ev(node.ast, env))
                for (nx, lab) in succ:
                    if not isinstance(lab, tuple):
                        continue
                    pol = lab[0] == "T"
                    if f[0] == "const":
                        if f[1] == pol:
                            stack.append((nx, env, pc, events, seen, visited, trail, tests))
                        continue
                    g = f if pol else _neg(f)
                    stack.append((nx, env, pc + (g,), events, seen, visited, trail, tests + ((node, g),)))
                continue
            if node.kind == "iter":
                for (nx, lab) in succ:
                    if lab == "iter":
                        e2 = dict(env)
                        for t in own_nodes(node.ast.target):
                            if isinstance(t, ast.Name):
                                e2[t.id] = Poly.atom(t.id)
                        if node is head:
                            if not seen:
                                self.pre_envs.append(env)
                            if head_env:
                                e2.update(head_env)
                        stack.append((nx, e2, pc, events, True if node is head else seen, visited, trail, tests))
                    elif node is not head:
                        stack.append((nx, env, pc, events, seen, visited, trail, tests))
                continue
            e2 = env
            ev2 = events
            a = node.ast
            if node.kind == "stmt":
                if isinstance(a, ast.Assign):
                    e2 = dict(env)
                    for t in a.targets:
                        if isinstance(t, ast.Name):
                            if t.id == list_name:
                                ev2 = ev2 + (("bind", node, None),)
                            e2[t.id] = self.ev(a.value, env)
                        elif isinstance(t, ast.Attribute):
                            e2[_s(self.ev(t.value, env)) + "." + t.attr] = self.ev(a.value, env)
                        elif isinstance(t, (ast.Tuple, ast.List)):
                            vals = a.value.elts if isinstance(a.value, (ast.Tuple, ast.List)) and \
                                len(a.value.elts) == len(t.elts) else None
                            for i, tt in enumerate(t.elts):
                                if isinstance(tt, ast.Name):
                                    e2[tt.id] = self.ev(vals[i], env) if vals else Poly.atom("%s@L%d" % (tt.id, node.lineno))
                elif isinstance(a, ast.AnnAssign) and isinstance(a.target, ast.Name) and a.value is not None:
                    e2 = dict(env)
                    e2[a.target.id] = self.ev(a.value, env)
                elif isinstance(a, ast.AugAssign) and isinstance(a.target, ast.Name):
                    e2 = dict(env)
                    be = ast.BinOp(left=ast.Name(id=a.target.id, ctx=ast.Load()), op=a.op, right=a.value)
                    e2[a.target.id] = self.ev(be, env)
                    if a.target.id == list_name:
                        ev2 = ev2 + (("bind", node, None),)
                elif isinstance(a, ast.AugAssign) and isinstance(a.target, ast.Attribute):
                    e2 = dict(env)
                    be = ast.BinOp(left=a.target, op=a.op, right=a.value)
                    e2[_s(self.ev(a.target.value, env)) + "." + a.target.attr] = self.ev(be, env)
                elif isinstance(a, ast.Expr) and isinstance(a.value, ast.Call):
                    c = a.value
                    if isinstance(c.func, ast.Attribute) and attr_path(c.func.value) == list_name:
                        if c.func.attr == "append" and len(c.args) == 1:
                            ev2 = ev2 + (("append", node, self.ev(c.args[0], env)),)
                        else:
                            ev2 = ev2 + (("mutate", node, None),)
            for (nx, lab) in succ:
                stack.append((nx, e2, pc, ev2, seen, visited, trail, tests))
        self.steps = n_steps
        return out


# =====================================================================
# helpers
# =====================================================================
def _enclosing_for(fn, inner):
    """Innermost ast.For of fn whose body contains `inner`."""
    best = None
    for n in func_own_nodes(fn):
        if isinstance(n, ast.For):
            if any(x is inner for st in n.body for x in own_nodes(st)):
                if best is None or any(x is n for st in best.body for x in own_nodes(st)):
                    best = n
    return best


def _lease_loop(fn):
    loops = [n for n in fn.cfg().nodes if n.kind == "iter" and isinstance(n.ast.iter, ast.Call)
             and call_tail(n.ast.iter) == "get_leases" and isinstance(n.ast.target, ast.Name)]
    if len(loops) != 1:
        raise AnchorVanished("%s: expected exactly one 'for <lease> in <share>.get_leases()' loop, found %d" % (
            fn.qual, len(loops)))
    return loops[0]


def _cancel_site(fn):
    """The cancel_lease call that sits in a loop over a local list (the list of
    expired leases).  Other cancel_lease calls are judged by C26.3."""
    cs = calls_in_func(fn, "cancel_lease")
    if not cs:
        raise AnchorVanished("%s no longer calls cancel_lease" % fn.qual)
    cands = []
    for call in cs:
        loop = _enclosing_for(fn, call)
        if loop is not None and isinstance(loop.iter, ast.Name) and isinstance(loop.target, ast.Name):
            cands.append((call, loop))
    if len(cands) != 1:
        raise AnchorVanished("%s: expected one cancel_lease call in a loop over a local list of expired leases, "
                             "found %d" % (fn.qual, len(cands)))
    return cands[0]


def _consistent_avoiding(cfg, fnorm, targets, gate_node):
    """find_path_avoiding(gate_node=..) restricted to paths that do not take
    both outcomes of the same truth test on a local that is not re-bound in
    between (`if not n: raise` followed by `if n:`), and that do not contradict
    the exact value of a constant-stepped counter / flag (`found = False ..
    found = True`, `n = 0 .. n += 1`)."""
    tracked = _const_counters(cfg.fn, cfg) if cfg.fn is not None else set()

    def transfer(n, lab, nxt, st):
        held, facts, envt = st
        if n.kind in ("entry", "exit", "raise"):
            return st
        stored = node_stores(n)
        if stored:
            facts = frozenset((e, v) for (e, v) in facts if not (leaves_of(e) & stored))
        if n.kind == "test" and isinstance(lab, tuple) and isinstance(n.ast, ast.Name):
            e, v = n.ast.id, lab[0] == "T"
            if (e, not v) in facts:
                return None
            facts = facts | {(e, v)}
        env, _v = _exact_step(n, lab, dict(envt), tracked)
        if env is None:
            return None
        if lab != "exc" and gate_node(n):
            held = True
        return (held, facts, frozenset(env.items()))

    def leaves_of(e):
        return {e}
    visited, parent = explore(cfg, (False, frozenset(), frozenset()), transfer)
    out, seen = [], set()
    for (nid, st) in sorted(visited, key=lambda x: (x[0], x[1][0], sorted(x[1][1]), repr(sorted(x[1][2], key=repr)))):
        n = cfg.nodes[nid]
        if not st[0] and targets(n) and nid not in seen:
            seen.add(nid)
            out.append((n, witness(cfg, parent, (nid, st))))
    return out


_COUNTER_CAP = 6


def _const_counters(f, cfg):
    """Locals of f that are only ever bound to int/bool constants or stepped by
    `+= k` / `-= k`: their value is known exactly along a path."""
    shared = {nm for x in ast.walk(f.node) if isinstance(x, (ast.Nonlocal, ast.Global)) for nm in x.names}
    shared |= {x.target.id for x in ast.walk(f.node) if isinstance(x, ast.NamedExpr) and isinstance(x.target, ast.Name)}
    ok, bad = set(), set(shared)
    for n in cfg.nodes:
        st = {s for s in node_stores(n) if "." not in s and not s.endswith("[]")}
        if not st:
            continue
        a = n.ast
        simple = None
        if n.kind == "stmt" and isinstance(a, ast.Assign) and len(a.targets) == 1 and isinstance(a.targets[0], ast.Name) \
                and isinstance(a.value, ast.Constant) and isinstance(a.value.value, (int, bool)):
            simple = a.targets[0].id
        elif n.kind == "stmt" and isinstance(a, ast.AugAssign) and isinstance(a.target, ast.Name) \
                and isinstance(a.op, (ast.Add, ast.Sub)) and isinstance(a.value, ast.Constant) \
                and isinstance(a.value.value, int) and not isinstance(a.value.value, bool):
            simple = a.target.id
        for s in st:
            (ok if s == simple else bad).add(s)
    return ok - bad


_BIG, _SMALL = float("inf"), float("-inf")


def _known_int(e, env):
    if isinstance(e, ast.Constant) and isinstance(e.value, (int, bool)):
        return e.value
    if isinstance(e, ast.Name):
        return env.get(e.id)
    return None


def _known_truth(e, env):
    """Truth value of an atomic condition when it only involves counters whose
    value is known on this path; None otherwise.  A saturated counter (beyond
    +-_COUNTER_CAP) is only compared with constants inside the cap."""
    if isinstance(e, ast.UnaryOp) and isinstance(e.op, ast.Not):
        v = _known_truth(e.operand, env)
        return None if v is None else not v
    if isinstance(e, (ast.Name, ast.Constant)):
        v = _known_int(e, env)
        return None if v is None else bool(v)
    if isinstance(e, ast.Compare) and len(e.ops) == 1:
        l, r = _known_int(e.left, env), _known_int(e.comparators[0], env)
        if l is None or r is None:
            return None
        sat = [x in (_BIG, _SMALL) for x in (l, r)]
        if all(sat) or (sat[0] and abs(r) > _COUNTER_CAP) or (sat[1] and abs(l) > _COUNTER_CAP):
            return None
        op = type(e.ops[0])
        table = {ast.Eq: l == r, ast.NotEq: l != r, ast.Lt: l < r, ast.LtE: l <= r, ast.Gt: l > r, ast.GtE: l >= r}
        return table.get(op)
    return None


def _exact_step(n, lab, env, tracked):
    """One CFG edge over the exact values of the constant-stepped counters /
    flags `tracked`: (new env, None) or (None, decided truth value) when the edge
    contradicts a value known on the path."""
    a = n.ast
    if n.kind == "stmt" and isinstance(a, ast.Assign) and len(a.targets) == 1 \
            and isinstance(a.targets[0], ast.Name) and a.targets[0].id in tracked:
        env = dict(env)
        env[a.targets[0].id] = a.value.value
    elif n.kind == "stmt" and isinstance(a, ast.AugAssign) and isinstance(a.target, ast.Name) and a.target.id in tracked:
        env = dict(env)
        v = env.get(a.target.id)
        if v is not None:
            k = a.value.value if isinstance(a.op, ast.Add) else -a.value.value
            if v in (_BIG, _SMALL):
                v = v if (k >= 0) == (v == _BIG) else None      # stepping back from saturation: unknown
            else:
                v = v + k
                if abs(v) > _COUNTER_CAP:
                    v = _BIG if v > 0 else _SMALL
        env[a.target.id] = v
    if n.kind == "test" and isinstance(lab, tuple):
        v = _known_truth(a, env)
        if v is not None and v != (lab[0] == "T"):
            return None, v
    return env, None


def _all_match_scenario(f):
    """Explore f under the scenario 'every lease enumerated carries the cancel
    secret, and there is at least one' (what the crawler's last cancel_lease call
    on a fully expired share sees): the F edge of the is_cancel_secret test is
    never taken, tests on constant-stepped counters are decided from their exact
    value on the path, every other test may go either way.
    Returns (match test, unlink nodes, unlink nodes reached after a match with a
    witness, tests that closed the way, number of product states)."""
    cfg = f.cfg()
    mt = [n for n in cfg.nodes if n.kind == "test" and any(call_tail(c) == "is_cancel_secret" for c in node_calls(n))]
    if len(mt) != 1:
        raise AnchorVanished("%s: expected one is_cancel_secret test, found %d" % (f.qual, len(mt)))
    un = cfg.find(has_call("unlink"))
    if not un:
        raise AnchorVanished("%s no longer unlinks" % f.qual)
    tracked = _const_counters(f, cfg)
    closed = {}

    def transfer(n, lab, nxt, st):
        if lab == "exc":
            return None
        matched, envt = st
        if n is mt[0] and isinstance(lab, tuple):
            if lab[0] != "T":
                return None
            return (True, envt)
        env, _v = _exact_step(n, lab, dict(envt), tracked)
        if env is None:
            if matched:
                closed.setdefault((n.id, lab[0]), (n, lab[0] == "T", {k: x for k, x in envt if any(
                    isinstance(y, ast.Name) and y.id == k for y in own_nodes(n.ast))}))
            return None
        return (matched, frozenset(env.items()))

    visited, parent = explore(cfg, (False, frozenset()), transfer)
    reached = []
    for (nid, st) in sorted(visited, key=lambda x: (x[0], x[1][0], repr(sorted(x[1][1], key=repr)))):
        if st[0] and any(cfg.nodes[nid] is u for u in un):
            reached.append((cfg.nodes[nid], witness(cfg, parent, (nid, st))))
    return mt[0], un, reached, list(closed.values()), len(visited)


def _get_config_key(e):
    if isinstance(e, ast.Call) and call_tail(e) == "get_config" and len(e.args) >= 2 \
            and isinstance(e.args[1], ast.Constant) and isinstance(e.args[0], ast.Constant):
        return "%s.%s" % (e.args[0].value, e.args[1].value)
    return None


CARRIED = "@carried"


def _is_carried(v):
    return isinstance(v, Poly) and any(CARRIED in str(a) for a in v.atoms())


def _carried_names(text):
    return sorted(set(re.findall(r"([A-Za-z_][\w.]*)" + re.escape(CARRIED), text)))


def _loop_head_state(sx, fn, head, list_name):
    """The environment an iteration of the loop at `head` may start from, as a
    constant-propagation fixpoint at the loop head: everything the loop body
    writes (locals, attributes of self, containers it stores into or calls for
    effect) is an opaque carried value, unless its value before the loop is a
    constant that every path through the body re-establishes.
    Returns (head_env, paths through one iteration enumerated under it, paths
    that leave the loop from inside an iteration)."""
    first = sx.paths(head, list_name)
    sx.total_steps = sx.steps
    pre = list(sx.pre_envs)
    if not pre:
        raise AnchorVanished("%s: the lease loop is not reachable" % fn.qual)
    me = fn.params[0] if fn.params else None
    target = {t.id for t in own_nodes(head.ast.target) if isinstance(t, ast.Name)}
    written = set()
    for p in first:
        trail = p[3]
        for n in trail[trail.index(head) + 1:] if head in trail else ():
            for st in node_stores(n):
                st = st[:-2] if st.endswith("[]") else st
                root = st.split(".")[0]
                if "." in st and root == me:
                    written.add(st)          # self.x: tracked as an attribute
                else:
                    written.add(root)        # a local, or an object / container held in a local
            if n.kind == "stmt" and isinstance(n.ast, ast.Expr) and isinstance(n.ast.value, ast.Call) \
                    and isinstance(n.ast.value.func, ast.Attribute) and isinstance(n.ast.value.func.value, ast.Name) \
                    and n.ast.value.func.value.id != me:
                written.add(n.ast.value.func.value.id)    # called for effect: may keep state
    written -= target
    written.discard(me)

    def const(v):
        return (isinstance(v, tuple) and v[0] == "c") or (isinstance(v, Poly) and v.const_value() is not None)
    cand = {}
    for w in written:
        vals = [e.get(w) for e in pre]
        if vals[0] is not None and const(vals[0]) and all(v == vals[0] for v in vals[1:]):
            cand[w] = vals[0]
    for _round in range(len(cand) + 2):
        head_env = {w: cand[w] if w in cand else Poly.atom(w + CARRIED) for w in written}
        paths = sx.paths(head, list_name, head_env=head_env)
        sx.total_steps += sx.steps
        broken = {w for w in cand for p in paths if p[4] == "next-lease" and not p[2].get(w) == cand[w]}
        if not broken:
            return head_env, [p for p in paths if p[4] == "next-lease"], \
                [p for p in paths if p[4] == "exit" and any(x is head for x in p[3])]
        for w in broken:
            del cand[w]
    raise AnalysisError("%s: loop-head state did not stabilise" % fn.qual)


def _decision_table(ps, paths, head, L, lease, want, report, select=None, list_events=True, all_cases=False):
    """Judge every enumerated path through one iteration of the lease loop
    against the documented table.  report(case, node, msg, trail, tests);
    returns the set of (case, outcome) seen.  `select(pc, events)` restricts the
    paths that may be reported (all paths still count as cases when all_cases)."""
    cases = set()
    for (pc, events, env, trail, _end, tests) in paths:
        quiet = select is not None and not select(pc, events)
        if quiet and not all_cases:
            continue
        rep = (lambda *a: None) if quiet else report
        appended = [e for e in events if e[0] == "append"]
        other = [e for e in events if e[0] != "append" and e[1].id in {n.id for n in trail[trail.index(head):]}]
        if list_events:
            for e in other:
                rep("list", e[1], "the list of leases to cancel (%s) is re-bound or mutated inside the lease loop: %s" % (
                    L, src(ps, e[1].ast)), trail, tests)
        for e in appended:
            if _s(e[2]) != lease:
                rep("list", e[1], "%s.append(%s): queued for cancellation is not the lease that was examined (%s)" % (
                    L, src(ps, e[1].ast.value.args[0]), lease), trail, tests)
        cancel = bool(appended)
        facts = set(pc)
        modes = {"age", "cutoff-date"}
        consulted = False
        for f in facts:
            if f[0] in ("==", "!=") and "self.mode" in f[1:]:
                c = [x for x in f[1:] if x != "self.mode"][0]
                consulted = True
                if f[0] == "==":
                    modes &= {c.strip("'\"")}
                else:
                    modes.discard(c.strip("'\""))
        type_in = [f for f in facts if f[0] == "in" and f[1].endswith(".sharetype") and f[2] == "self.sharetypes_to_expire"]
        type_out = [f for f in facts if f[0] == "not in" and f[1].endswith(".sharetype") and f[2] == "self.sharetypes_to_expire"]
        anchor = appended[0][1] if appended else head
        if len(modes) != 1 or not consulted:
            if cancel:
                rep("mode", anchor, "a lease is queued for cancellation on a path that does not establish "
                       "self.mode (facts: %s)" % "; ".join(sorted(_fact_str(f) for f in facts)), trail, tests)
            elif not type_out:
                rep("mode", anchor, "a lease is kept on a path that neither establishes self.mode nor excludes "
                       "its share type", trail, tests)
            continue
        mode = next(iter(modes))
        if mode == "age":
            has = ("is not", "None", "self.override_lease_duration") in facts
            hasnt = ("is", "None", "self.override_lease_duration") in facts
            if has and not hasnt:
                case = "age-override"
            elif hasnt and not has:
                case = "age-own-duration"
            else:
                case = None
        else:
            case = "cutoff-date"
        if case is None:
            if cancel or not type_out:
                rep("age-override", anchor, "age mode: a lease is %s on a path that does not test "
                       "self.override_lease_duration against None" % ("queued for cancellation" if cancel else "kept"),
                trail, tests)
            continue
        P, text = want[case]
        # the documented predicates are strict ("older than", "< now", "greater than its duration"): a lease
        # whose renewal time equals the cutoff (both are whole seconds) is not expired
        pos = ("<", P) in facts
        negd = ("<", -P) in facts or ("<=", -P) in facts
        if cancel:
            cases.add((case, "cancel"))
            if not type_in:
                rep("sharetype", anchor, "a lease is queued for cancellation on a path that never established "
                       "sharetype in self.sharetypes_to_expire", trail, tests)
            if not pos and ("<=", P) in facts:
                rep(case, anchor, "mode %s: a lease exactly on the boundary (0 == %s) is queued for cancellation; the "
                       "documented predicate '%s' is strict, the path only establishes 0 <= %s" % (case, P, text, P),
                    trail, tests)
            elif not pos:
                cmpf = sorted(_fact_str(f) for f in facts if f[0] in ("<", "<="))
                rep(case, anchor, "mode %s: a lease is queued for cancellation without the documented predicate "
                       "'%s' (0 < %s); the path only establishes: %s" % (case, text, P, "; ".join(cmpf) or "nothing"), trail, tests)
        else:
            if type_out:
                cases.add(("sharetype", "keep"))
                continue
            cases.add((case, "keep"))
            if not negd:
                cmpf = sorted(_fact_str(f) for f in facts if f[0] in ("<", "<="))
                rep(case, anchor, "mode %s: a lease of an enabled share type is kept although nothing on the path "
                       "contradicts '%s' (0 < %s); the path only establishes: %s" % (
                           case, text, P, "; ".join(cmpf) or "nothing"), trail, tests)
    return cases


_WRAPPERS = ("list", "tuple", "enumerate", "sorted", "reversed", "iter")
_ENUMERATORS = ("_enumerate_leases", "get_leases")


def _enumeration_source(fnorm, node, expr, depth=6):
    """What a loop / comprehension iterates over, with local copies followed and the order-/shape-only wrappers
    (list, enumerate, sorted ..) removed: ("full", call) for <x>._enumerate_leases(..) / <x>.get_leases(),
    ("partial", expr) for a slice / islice / takewhile .. of anything, ("other", expr) otherwise."""
    e = expr
    while depth > 0:
        depth -= 1
        if isinstance(e, ast.Name):
            e2 = fnorm.resolve(node, e)
            if e2 is e:
                break
            e = e2
            continue
        if isinstance(e, ast.Call) and call_name(e) in _WRAPPERS and len(e.args) >= 1:
            e = e.args[0]
            continue
        break
    if isinstance(e, ast.Call) and call_tail(e) in _ENUMERATORS and isinstance(e.func, ast.Attribute):
        return "full", e
    if isinstance(e, ast.Subscript) or (isinstance(e, ast.Call) and call_tail(e) in (
            "islice", "takewhile", "dropwhile", "filter", "filterfalse", "zip", "compress")):
        return "partial", e
    return "other", e


def _unlink_outside_exhausted_loop(f, cfg, head, targets):
    """[(target node, phase, Witness)]: ways to reach a `targets` node (the unlink) that have not run the loop at
    `head` to exhaustion - before the loop, from inside its body, or after leaving it by break / return / an
    exception - with the constant-stepped counters and flags of f followed exactly (a break taken after the
    remaining-counter was stepped cannot pass a later 'counter == 0' test)."""
    tracked = _const_counters(f, cfg)
    body = {id(x) for st in head.ast.body for x in ast.walk(st)}

    def transfer(n, lab, nxt, st):
        phase, envt = st
        if lab == "exc":
            env = dict(envt)
        else:
            env, _v = _exact_step(n, lab, dict(envt), tracked)
            if env is None:
                return None
        if n is head:
            if lab == "iter":
                phase = "inside"
            elif lab == "done":
                phase = "done"
            else:
                phase = "early"
        elif phase == "inside" and nxt is not head and id(nxt.ast) not in body:
            phase = "early"
        return (phase, frozenset(env.items()))

    visited, parent = explore(cfg, ("before", frozenset()), transfer)
    out, seen = [], set()
    for (nid, st) in sorted(visited, key=lambda x: (x[0], x[1][0], repr(sorted(x[1][1], key=repr)))):
        n = cfg.nodes[nid]
        if st[0] != "done" and targets(n) and (nid, st[0]) not in seen:
            seen.add((nid, st[0]))
            out.append((n, st[0], witness(cfg, parent, (nid, st))))
    return out, len(visited)


_BOOKKEEPING_KEYS = ("last-complete-bucket", "last-complete-prefix", "current-cycle", "last-cycle-finished")
_BOOKKEEPING_ATTRS = ("self.last_complete_prefix_index", "self.bucket_cache", "self.state", "self.prefixes")


def _bookkeeping_writes(base_cls, fn, seen=None, depth=3):
    """[(function, ast node, what)]: writes of the crawler's traversal bookkeeping (resume markers, cycle counter)
    in fn or in the methods of `base_cls` it reaches through self.<m>() calls."""
    seen = set() if seen is None else seen
    if fn.qual in seen or depth < 0:
        return []
    seen.add(fn.qual)
    me = fn.params[0] if fn.params else "self"
    out = []
    fnorm = FlowNorm(fn)
    for n in fn.cfg().nodes:
        a = n.ast
        if n.kind != "stmt":
            continue
        tgts = []
        if isinstance(a, ast.Assign):
            tgts = list(a.targets)
        elif isinstance(a, (ast.AugAssign, ast.AnnAssign)):
            tgts = [a.target]
        elif isinstance(a, ast.Delete):
            tgts = list(a.targets)
        for t in tgts:
            for x in (t.elts if isinstance(t, (ast.Tuple, ast.List)) else [t]):
                if isinstance(x, ast.Subscript) and isinstance(x.slice, ast.Constant) and x.slice.value in _BOOKKEEPING_KEYS \
                        and fnorm.norm(n, x.value) == "%s.state" % me:
                    out.append((fn, a, "state[%r]" % x.slice.value))
                elif isinstance(x, ast.Attribute) and attr_path(x) in [p.replace("self", me, 1) for p in _BOOKKEEPING_ATTRS]:
                    out.append((fn, a, attr_path(x)))
        for c in node_calls(n):
            if isinstance(c.func, ast.Attribute) and c.func.attr in ("update", "pop", "clear", "setdefault") \
                    and fnorm.norm(n, c.func.value) == "%s.state" % me:
                keys = [k.value for k0 in c.args for k in (k0.keys if isinstance(k0, ast.Dict) else [k0])
                        if isinstance(k, ast.Constant)]
                for k in keys:
                    if k in _BOOKKEEPING_KEYS:
                        out.append((fn, a, "state[%r]" % k))
                if c.func.attr == "clear":
                    out.append((fn, a, "state"))
    for c in calls_in_func(fn):
        if isinstance(c.func, ast.Attribute) and attr_path(c.func.value) == me:
            m = base_cls.lookup(c.func.attr)
            if m is not None:
                out += _bookkeeping_writes(base_cls, m, seen, depth - 1)
    return out


# =====================================================================
def run(ctx: Context):
    idx = ctx.idx
    ps = idx.func(EXPIRER + ".process_share")

    # -- 1. dimension analysis -------------------------------------------
    with ctx.rule("C26.1", "R8", "dimension analysis of LeaseCheckingCrawler.process_share and the LeaseInfo "
                  "accessors: every comparison / min / max / phi-join / seeded attribute store relates like "
                  "dimensions (Timestamp vs Duration)", expected=11) as r:
        df = DimFlow(ps)
        probs = df.check()
        r.count(df.steps)
        for (n, e) in df.sites:
            r.site(ps, e, "%s" % src(ps, e))
        seen = set()
        for p in probs:
            construct = ps.qual + ("." + p.var if p.var else "[%s]" % norm_plain(p.node))
            if (construct, p.kind) in seen:
                continue
            seen.add((construct, p.kind))
            r.violation(construct, ps.loc(p.node), p.msg)
        # the seeds are what lease.py really returns
        for meth, want in sorted(ACCESSOR_DIMS.items()):
            f = idx.func(LEASE + "." + meth)
            fl = DimFlow(f)
            r.count(fl.steps)
            rets = fl.return_dims()
            if not rets:
                raise AnchorVanished("LeaseInfo.%s has no return statement" % meth)
            for p in fl.check():
                r.violation(f, f.loc(p.node), p.msg)
            for (n, dims) in rets:
                r.site(f, n.ast, "seed %s" % DIM_NAME[want])
                if dims == {want}:
                    continue
                if dims & {T, D}:
                    r.violation(f, f.loc(n.ast), "LeaseInfo.%s() is used by the expirer as a %s but returns %s [%s]" % (
                        meth, DIM_NAME[want], src(f, n.ast.value), _dimset(dims)))
                else:
                    raise AnalysisError("dimension of LeaseInfo.%s() cannot be derived from %s" % (meth, src(f, n.ast.value)))
        # the "renewal time" hack in lease.py subtracts exactly the duration the server grants
        sx0 = SymExec(idx, ps)
        dur = sx0.inline("get_expiration_time", "L") - sx0.inline("get_grant_renew_time_time", "L")
        granted = get_folder(idx).module_const("storage.server", "DEFAULT_RENEWAL_TIME")
        lf = idx.func(LEASE + ".get_grant_renew_time_time")
        r.site(lf, None, "lease duration %s" % granted)
        r.require(isinstance(dur, Poly) and dur.const_value() is not None and dur.const_value() == granted, lf, lf.loc(),
                  "get_grant_renew_time_time() assumes a lease duration of %s s but the server grants "
                  "DEFAULT_RENEWAL_TIME = %s s: every renewal time (age, cutoff comparison) is off by the difference" % (
                      dur, granted))
        n_grant = 0
        for m in idx.cls("storage.server:StorageServer").methods.values():
            uses = [x for x in func_own_nodes(m) if isinstance(x, ast.Name) and x.id == "DEFAULT_RENEWAL_TIME"]
            if not uses:
                continue
            fl = DimFlow(m)
            r.count(fl.steps)
            for p in fl.check():
                r.violation(m, m.loc(p.node), p.msg)
            for n in fl.cfg.nodes:
                if n.id not in fl.IN:
                    continue
                for e in node_exprs(n):
                    here = [u for u in uses if any(y is u for y in own_nodes(e))]
                    for u in here:
                        n_grant += 1
                        par = [x for x in own_nodes(e) if isinstance(x, ast.BinOp) and (u is x.left or u is x.right)]
                        x = par[0] if par else u
                        dims = fl.ev(x, fl.IN[n.id], False)
                        r.site(m, x, "lease expiry granted")
                        r.require(isinstance(x, ast.BinOp) and isinstance(x.op, ast.Add) and dims == {T}, m, m.loc(x),
                                  "a lease expiration time is computed as %s [%s], not clock + DEFAULT_RENEWAL_TIME" % (
                                      src(m, x), _dimset(dims)))
        if n_grant < 4:
            raise AnchorVanished("StorageServer no longer computes lease expiry as clock + DEFAULT_RENEWAL_TIME at 4 sites "
                                 "(found %d)" % n_grant)
        # the other crawler methods must be free of dimension conflicts too
        for m in idx.cls(EXPIRER).methods.values():
            if m is ps:
                continue
            fl = DimFlow(m)
            r.count(fl.steps)
            for p in fl.check():
                r.violation(m.qual + ("." + p.var if p.var else ""), m.loc(p.node), p.msg)

    # -- 2. decision table -------------------------------------------------
    call, cancel_loop = _cancel_site(ps)
    L = cancel_loop.iter.id
    head = _lease_loop(ps)
    lease = head.ast.target.id
    with ctx.rule("C26.2", "R3/E2", "per-lease decision table of process_share (symbolic, all paths through one "
                  "iteration): the lease is queued for cancellation iff its share type is enabled and the predicate "
                  "of the configured mode holds", expected=7) as r:
        sx = SymExec(idx, ps)
        all_paths = sx.paths(head, L)
        # a pass through the loop body that leaves the loop (break / return) is judged like a pass that keeps
        # the lease: admissible only when the lease is established as not expired (the share stays anyway);
        # after an expired lease the remaining leases of the share must still be examined in this cycle
        early = [p for p in all_paths if p[4] == "exit" and any(x is head for x in p[3])]
        paths = [p for p in all_paths if p[4] == "next-lease"]
        r.count(sx.steps)
        if not paths:
            raise AnchorVanished("no path through the lease loop of process_share")
        AGE = sx.inline("get_age", lease)
        EXP = sx.inline("get_expiration_time", lease)
        REN = sx.inline("get_grant_renew_time_time", lease)
        if not all(isinstance(x, Poly) for x in (AGE, EXP, REN)):
            raise AnalysisError("LeaseInfo accessors do not evaluate to arithmetic expressions")
        NOW, OVR, CUT = Poly.atom("now"), Poly.atom("self.override_lease_duration"), Poly.atom("self.cutoff_date")
        want = {
            "age-override": (AGE - OVR, "renewal time + override_lease_duration < now"),
            "age-own-duration": (NOW - EXP, "the lease's own expiration time < now"),
            "cutoff-date": (CUT - REN, "renewal time < cutoff_date"),
        }
        r.sample({"age": str(AGE), "expiration": str(EXP), "renewal": str(REN)})
        reported = set()

        def report(case, node, msg, trail, tests):
            if (case, msg) in reported:
                return
            reported.add((case, msg))
            w = ["L%d %r" % (x.lineno, x) for x in trail if x.kind in ("test",)]
            r.violation("%s[%s]" % (ps.qual, case), ps.loc(node.ast if node is not None else None), msg, w)

        cases = _decision_table(ps, paths, head, L, lease, want, report)
        for p in early:
            if any(e[0] == "append" for e in p[1]):
                last = p[3][-1]
                r.violation("%s[early-exit]" % ps.qual, ps.loc(last.ast), "the lease loop is left (L%d) after a lease was "
                            "queued for cancellation: the remaining leases of the share are not examined, so a share whose "
                            "leases have all expired is not deleted within the cycle" % last.lineno,
                            ["L%d %r" % (x.lineno, x) for x in p[3] if x.kind == "test"])

        def report_early(case, node, msg, trail, tests):
            report("early-exit", trail[-1] if trail else node, "the lease loop is left early (L%d) on a path that does not "
                   "establish the lease as unexpired: %s" % (trail[-1].lineno if trail else 0, msg), trail, tests)
        cases |= _decision_table(ps, [p for p in early if not any(e[0] == "append" for e in p[1])], head, L, lease, want,
                                 report_early, list_events=False)
        for c in sorted(cases):
            r.site(ps, head.ast, "case %s/%s" % c)

    # -- 6. the same table in every iteration (nothing carried over from the previous lease) ----
    with ctx.rule("C26.6", "R3/E2", "the per-lease decision table holds in every iteration of the lease loop, not "
                  "only the first: with every local / attribute / container the loop body writes taken at the loop "
                  "head as whatever an earlier lease may have left there (unless inductively constant), a lease is "
                  "still queued iff its own predicate holds", expected=7) as r:
        sx6 = SymExec(idx, ps)
        head_env, carried_paths, carried_early = _loop_head_state(sx6, ps, head, L)
        r.count(sx6.total_steps)
        r.sample({"carried": sorted(k for k, v in head_env.items() if _is_carried(v)),
                  "inductively constant": sorted("%s=%s" % (k, _s(v)) for k, v in head_env.items() if not _is_carried(v))})
        reported6 = set()

        def report6(case, node, msg, trail, tests):
            inv = [(n, _carried_names(_fact_str(f))) for (n, f) in tests if _carried_names(_fact_str(f))]
            names = sorted({x for (_n, ns) in inv for x in ns}) or ["?"]
            if (names[0], case) in reported6:
                return
            reported6.add((names[0], case))
            at = inv[0][0] if inv else node
            w = ["L%d %r" % (x.lineno, x) for x in trail if x.kind in ("test",)]
            r.violation("%s.%s" % (ps.qual, names[0]), ps.loc(at.ast if at is not None else None),
                        "from the second lease of a share on, %s still holds what the previous lease left there (it is "
                        "not re-established for each lease before L%d reads it), so the verdict on one lease leaks "
                        "into the next: %s" % (" and ".join(names), at.lineno if at is not None else 0,
                                               msg.replace(CARRIED, "<from previous lease>")), w)

        def involves_carried(pc, events):
            return any(_carried_names(_fact_str(f)) for f in pc) or any(
                e[0] == "append" and _carried_names(_s(e[2])) for e in events)

        cases6 = _decision_table(ps, carried_paths, head, L, lease, want, report6, select=involves_carried,
                                 list_events=False, all_cases=True)
        # leaving the loop from a later iteration: like keeping the lease (see C26.2), never after queuing one
        for p in carried_early:
            if any(e[0] == "append" for e in p[1]) and involves_carried(p[0], p[1]):
                report6("early-exit", p[3][-1], "the lease loop is left (L%d) after a lease was queued for cancellation, the "
                        "remaining leases of the share are not examined" % p[3][-1].lineno, p[3], p[5])
        cases6 |= _decision_table(ps, [p for p in carried_early if not any(e[0] == "append" for e in p[1])], head, L,
                                  lease, want, report6, select=involves_carried, list_events=False, all_cases=True)
        for c in sorted(cases6):
            r.site(ps, head.ast, "case %s/%s (any iteration)" % c)

    # -- 3. cancel_lease is a guarded effect ---------------------------------
    with ctx.rule("C26.3", "R3/R4", "cancel_lease is called only by process_share, only under "
                  "self.expiration_enabled, on the share whose leases were examined, for members of the expired "
                  "list; that list is filled only inside the lease loop; the crawler has no other deleting call",
                  expected=3) as r:
        bad, badrefs, total = callers_outside(idx, "cancel_lease", [EXPIRER + ".process_share"])
        r.site("callers of cancel_lease: %d" % total)
        for cs in bad:
            r.violation(cs.fn, cs.loc, "%s calls cancel_lease: leases are cancelled outside the expiry decision" % short(cs.fn))
        for (f, nd) in badrefs:
            r.violation(f, f.loc(nd), "%s takes cancel_lease as a value" % short(f))
        cfg = ps.cfg()
        fnorm = FlowNorm(ps)
        tn = cfg.find(has_call("cancel_lease"))
        enabled = lambda n, lab: fnorm.edge_fact(n, lab) == ("truth", "self.expiration_enabled", None)
        for n in tn:
            r.site(ps, n.ast)
        for (n, w) in find_path_avoiding(cfg, has_call("cancel_lease"), gate_edge=enabled):
            r.violation(ps, ps.loc(n.ast), "cancel_lease is reachable without self.expiration_enabled being true "
                        "(path: %s)" % w.brief(), w)
            r.count(len(cfg.nodes))
        # every queued lease is cancelled: after one cancel_lease the only way on is back to the head of the loop
        # over the expired list (no break / return), otherwise a fully expired share keeps a lease for another cycle
        chead = [n for n in cfg.nodes if n.kind == "iter" and n.ast is cancel_loop]
        if len(chead) != 1:
            raise AnchorVanished("%s: the loop over %s" % (ps.qual, L))
        for (s0, w) in find_path_from_to_avoiding(cfg, lambda x: any(c is call for c in node_calls(x)),
                                                  gate_node=lambda x: x is chead[0]):
            r.violation(ps, ps.loc(s0.ast), "after cancelling one expired lease the loop over %s can be left without "
                        "cancelling the others (path: %s)" % (L, w.brief()), w)
        for c in calls_in_func(ps, "cancel_lease"):
            if c is not call:
                r.violation(ps, ps.loc(c), "cancel_lease is also called outside the loop over %s: %s" % (L, src(ps, c)))
        # receiver = the share file the leases came from; argument = cancel secret of the loop variable
        node = [n for n in tn if any(c is call for c in node_calls(n))][0]
        recv = call.func.value if isinstance(call.func, ast.Attribute) else None
        src_share = head.ast.iter.func.value if isinstance(head.ast.iter.func, ast.Attribute) else None
        r.require(recv is not None and src_share is not None and
                  fnorm.norm(node, recv) == fnorm.norm(head, src_share), ps, ps.loc(call),
                  "cancel_lease is applied to %s but the leases were read from %s" % (
                      src(ps, recv), src(ps, src_share)))
        a0 = arg(call, 0, "cancel_secret")
        r.require(isinstance(a0, ast.Attribute) and a0.attr == "cancel_secret" and isinstance(a0.value, ast.Name)
                  and a0.value.id == cancel_loop.target.id, ps, ps.loc(call),
                  "cancel_lease(%s): not the cancel secret of a lease from %s" % (src(ps, a0), L))
        # the list: one empty-list binding, appends only inside the lease loop
        binds = [n for n in func_own_nodes(ps) if isinstance(n, ast.Assign)
                 and any(isinstance(t, ast.Name) and t.id == L for t in n.targets)]
        r.require(len(binds) == 1 and isinstance(binds[0].value, ast.List) and not binds[0].value.elts, ps,
                  ps.loc(binds[0] if binds else None), "%s is not bound exactly once to an empty list" % L)
        for c in calls_in_func(ps):
            if isinstance(c.func, ast.Attribute) and attr_path(c.func.value) == L:
                r.site(ps, c, "%s.%s" % (L, c.func.attr))
                inside = any(x is c for st in head.ast.body for x in own_nodes(st))
                r.require(c.func.attr == "append" and inside, ps, ps.loc(c),
                          "%s is modified outside the per-lease decision: %s" % (L, src(ps, c)))
        for n in func_own_nodes(ps):
            if isinstance(n, ast.Name) and n.id == L and isinstance(n.ctx, ast.Load):
                par_ok = (n is cancel_loop.iter) or any(
                    (isinstance(c.func, ast.Attribute) and c.func.value is n) or
                    (call_name(c) in ("len", "bool") and len(c.args) == 1 and c.args[0] is n) for c in calls_in_func(ps))
                r.require(par_ok, ps, ps.loc(n), "%s escapes (aliased or passed on): %s" % (L, L))
        # no other deleting effect in the crawler
        deleting = {"unlink", "remove", "rmtree", "rm_dir", "rmdir", "rename", "truncate", "remove_share",
                    "move_into_place", "renames", "replace"}
        for m in idx.cls(EXPIRER).methods.values():
            for c in calls_in_func(m, into_lambda=True):
                if call_tail(c) in deleting and not (call_tail(c) in ("remove", "replace") and not
                                                     call_name(c).startswith(("os.", "shutil.", "fileutil."))):
                    r.violation(m, m.loc(c), "%s has a deleting effect other than cancel_lease: %s" % (short(m), src(m, c)))

    # -- 4. unlink only when no lease remains -----------------------------------
    with ctx.rule("C26.4", "R3", "ShareFile.cancel_lease / MutableShareFile.cancel_lease unlink the share only when "
                  "no lease remains after the cancellation", expected=4) as r:
        # immutable: the list written back is the list tested
        f = idx.func("storage.immutable:ShareFile.cancel_lease")
        cfg = f.cfg()
        un = cfg.find(has_call("unlink"))
        if not un:
            raise AnchorVanished("ShareFile.cancel_lease no longer unlinks")
        wn = calls_in_func(f, "_write_num_leases")
        if len(wn) != 1:
            raise AnchorVanished("ShareFile.cancel_lease: _write_num_leases call")
        cnt = arg(wn[0], 1)
        if not (isinstance(cnt, ast.Call) and call_name(cnt) == "len" and isinstance(cnt.args[0], ast.Name)):
            raise AnchorVanished("ShareFile.cancel_lease: lease count written is not len(<list>)")
        V = cnt.args[0].id
        r.site(f, wn[0], "remaining list %s" % V)
        fnorm = FlowNorm(f)
        empty = {("false", "len(%s)" % V, None), ("false", V, None), ("==", "0", "len(%s)" % V),
                 ("<", "len(%s)" % V, "1"), ("<=", "len(%s)" % V, "0"), ("==", V, "[]")}
        gate = lambda n, lab: fnorm.edge_fact(n, lab) in empty
        # the remaining list: built by dropping exactly the cancelled entries
        filt = [n for n in cfg.nodes if n.kind == "stmt" and isinstance(assign_value(n, V), ast.ListComp)]
        r.require(len(filt) == 1, f, f.loc(), "the remaining-lease list %s is not built by one filtering comprehension" % V)
        for n in un:
            r.site(f, n.ast)
        r.count(len(cfg.nodes))
        for (n, w) in find_path_avoiding(cfg, has_call("unlink"), gate_edge=gate,
                                         kill=lambda n: V in node_stores(n)):
            r.violation(f, f.loc(n.ast), "immutable share is unlinked on a path that did not establish that no lease "
                        "remains (len(%s) == 0) (path: %s)" % (V, w.brief()), w)
        if filt:
            comp = assign_value(filt[0], V)
            # the emptiness test looks at the rebuilt list: a share whose leases were all cancelled is removed now
            for (n, w) in _consistent_avoiding(cfg, fnorm, has_call("unlink"), lambda x: x is filt[0]):
                r.violation(f, f.loc(n.ast), "the unlink decision can be reached without rebuilding the list of remaining "
                            "leases: a share whose last lease was cancelled is never removed (path: %s)" % w.brief(), w)
            # entries are dropped (set to None) only when is_cancel_secret matched
            drop = [n for n in cfg.nodes if n.kind == "stmt" and isinstance(n.ast, ast.Assign)
                    and isinstance(n.ast.value, ast.Constant) and n.ast.value.value is None
                    and any(isinstance(t, ast.Subscript) for t in n.ast.targets)]
            r.require(bool(drop), f, f.loc(), "no 'leases[i] = None' drop site")
            fn2 = FlowNorm(f)
            match = lambda n, lab: (lambda ft: bool(ft) and ft[0] == "truth" and re.match(
                r"^\w+\.is_cancel_secret\(cancel_secret\)$", ft[1]) is not None)(fn2.edge_fact(n, lab))
            for (n, w) in find_path_avoiding(cfg, lambda x: any(x is d for d in drop), gate_edge=match,
                                             kill=lambda x: x.kind == "iter"):
                r.violation(f, f.loc(n.ast), "a lease is dropped without matching the cancel secret", w)
            mt = [n for n in cfg.nodes if n.kind == "test" and any(call_tail(c) == "is_cancel_secret" for c in node_calls(n))]
            for t0 in mt:
                for (s0, w) in find_path_from_to_avoiding(
                        cfg, lambda x, _t=t0: x is _t, gate_node=lambda x: any(x is d for d in drop),
                        ends=lambda x: x.kind in ("iter", "exit"), start_label=lambda lab: isinstance(lab, tuple) and lab[0] == "T"):
                    r.violation(f, f.loc(t0.ast), "a lease whose cancel secret matches is not dropped", w)
            ok = len(comp.generators) == 1 and len(comp.generators[0].ifs) == 1 \
                and isinstance(comp.generators[0].target, ast.Name) and isinstance(comp.elt, ast.Name) \
                and comp.elt.id == comp.generators[0].target.id
            if ok:
                tname = comp.generators[0].target.id
                ok = N().cmp(comp.generators[0].ifs[0]) in (("truth", tname, None), ("is not", "None", tname))
            r.require(ok, f, f.loc(comp), "the remaining-lease list does not keep exactly the entries that were not "
                      "dropped: %s" % src(f, comp))
            # the surviving leases are written back (records, then the count) before the decision;
            # otherwise the count is taken over stale records and a valid lease is replaced by a cancelled one
            heads = [n for n in cfg.nodes if n.kind == "iter" and V in {x.id for x in own_nodes(n.ast.iter) if isinstance(x, ast.Name)}
                     and any(call_tail(c) == "_write_lease_record" for st in n.ast.body for c in own_nodes(st) if isinstance(c, ast.Call))]
            wnn = [n for n in cfg.nodes if any(c is wn[0] for c in node_calls(n))]
            if len(heads) != 1:
                r.violation(f, f.loc(filt[0].ast), "the remaining leases are not written back record by record after a cancellation")
            else:
                tn = {t.id for t in own_nodes(heads[0].ast.target) if isinstance(t, ast.Name)}
                wc = [c for st in heads[0].ast.body for c in own_nodes(st) if isinstance(c, ast.Call) and call_tail(c) == "_write_lease_record"][0]
                r.require(len(wc.args) == 3 and all(isinstance(a, ast.Name) for a in wc.args[1:]) and
                          {a.id for a in wc.args[1:]} == tn and len(tn) == 2, f, f.loc(wc),
                          "remaining leases are written back as %s" % src(f, wc))
                for (n, w) in _consistent_avoiding(cfg, fnorm, lambda x: any(x is y for y in wnn), lambda x: x is heads[0]):
                    r.violation(f, f.loc(n.ast), "the lease count is written without rewriting the lease records", w)
            for (n, w) in _consistent_avoiding(cfg, fnorm, has_call("unlink"), lambda x: any(x is y for y in wnn)):
                r.violation(f, f.loc(n.ast), "the new lease count is not written before the unlink decision", w)
            for (n, w) in find_path_avoiding(cfg, lambda x: any(x is y for y in wnn), gate_node=lambda x: x is filt[0]):
                r.violation(f, f.loc(n.ast), "the lease count is written from the unfiltered list", w)
        # mutable: counter of non-matching leases
        g = idx.func("storage.mutable:MutableShareFile.cancel_lease")
        cfg = g.cfg()
        un = cfg.find(has_call("unlink"))
        if not un:
            raise AnchorVanished("MutableShareFile.cancel_lease no longer unlinks")
        gn = FlowNorm(g)
        incs = [n for n in cfg.nodes if n.kind == "stmt" and isinstance(n.ast, ast.AugAssign)
                and isinstance(n.ast.op, ast.Add) and isinstance(n.ast.target, ast.Name)]
        tests = [n for n in cfg.nodes if n.kind == "test" and any(call_tail(c) == "is_cancel_secret" for c in node_calls(n))]
        if len(tests) != 1:
            raise AnchorVanished("MutableShareFile.cancel_lease: is_cancel_secret test")
        # the 'remaining' counter = the one incremented on the F edge of the secret test
        rem = None
        for n in incs:
            w = find_path_avoiding(cfg, lambda x, _n=n: x is _n,
                                   gate_edge=lambda x, lab: x is tests[0] and isinstance(lab, tuple) and lab[0] == "F",
                                   kill=lambda x: x.kind == "iter")
            if not w:
                rem = n.ast.target.id
        if rem is None:
            raise AnchorVanished("MutableShareFile.cancel_lease: no counter of the leases that stay")
        r.site(g, tests[0].ast, "remaining counter %s" % rem)
        zero = {("false", rem, None), ("==", "0", rem), ("<", rem, "1"), ("<=", rem, "0")}
        for n in un:
            r.site(g, n.ast)
        r.count(len(cfg.nodes))
        for (n, w) in find_path_avoiding(cfg, has_call("unlink"), gate_edge=lambda x, lab: gn.edge_fact(x, lab) in zero):
            r.violation(g, g.loc(n.ast), "mutable share is unlinked on a path that did not establish that no lease "
                        "remains (%s == 0) (path: %s)" % (rem, w.brief()), w)
        # every lease that does not match is counted
        for (s, w) in find_path_from_to_avoiding(
                cfg, lambda x: x is tests[0],
                gate_node=lambda x: x.kind == "stmt" and isinstance(x.ast, ast.AugAssign) and attr_path(x.ast.target) == rem,
                ends=lambda x: x.kind in ("iter", "exit"), start_label=lambda lab: isinstance(lab, tuple) and lab[0] == "F"):
            r.violation(g, g.loc(s.ast), "a lease that does not match the cancel secret is not counted as remaining", w)
        # a matching lease is blanked on disk (otherwise it is counted as remaining by the next cancellation)
        for (s0, w) in find_path_from_to_avoiding(
                cfg, lambda x: x is tests[0], gate_node=has_call("_write_lease_record"),
                ends=lambda x: x.kind in ("iter", "exit"), start_label=lambda lab: isinstance(lab, tuple) and lab[0] == "T"):
            r.violation(g, g.loc(s0.ast), "a lease whose cancel secret matches is not overwritten with the blank lease: with "
                        "several expired leases the share is never removed", w)
        # the blank lease written over a cancelled one is what _read_lease_record treats as "no lease"
        wl = [c for n in cfg.nodes for c in calls_at(n, "_write_lease_record")]
        blank_ok = False
        marker = None
        for c in wl:
            b = gn.resolve([n for n in cfg.nodes if any(x is c for x in node_calls(n))][0], arg(c, 2))
            if isinstance(b, ast.Call) and call_tail(b) == "LeaseInfo":
                on = kwarg(b, "owner_num") or arg(b, 0)
                if isinstance(on, ast.Constant):
                    marker = on.value
                    blank_ok = True
        rl = idx.func("storage.mutable:MutableShareFile._read_lease_record")
        rn = FlowNorm(rl)
        skip_ok = False
        for n in rl.cfg().find(returns_const(None)):
            bad = find_path_avoiding(rl.cfg(), lambda x, _n=n: x is _n, gate_edge=lambda x, lab: (
                lambda ft: bool(ft) and ft[0] == "==" and repr(marker) in ft[1:] and any(
                    str(y).endswith(".owner_num") for y in ft[1:]))(rn.edge_fact(x, lab)))
            if not bad:
                skip_ok = True
        r.require(blank_ok and skip_ok, g, g.loc(), "the record written over a cancelled lease (owner_num=%r) is not the one "
                  "_read_lease_record skips: cancelled leases keep counting as remaining" % (marker,))
        # the counter starts at 0 and is only incremented
        for n in cfg.nodes:
            if rem in node_stores(n) and n.kind == "stmt":
                if isinstance(n.ast, ast.Assign):
                    r.require(isinstance(n.ast.value, ast.Constant) and n.ast.value.value == 0, g, g.loc(n.ast),
                              "%s is initialised to %s" % (rem, src(g, n.ast.value)))
                    in_loop = any(isinstance(lp, (ast.For, ast.While)) and any(x is n.ast for st in lp.body for x in own_nodes(st))
                                  for lp in func_own_nodes(g))
                    r.require(not in_loop, g, g.loc(n.ast), "the count of remaining leases %s is reset while the "
                              "leases are being enumerated" % rem)
                elif isinstance(n.ast, ast.AugAssign):
                    r.require(isinstance(n.ast.op, ast.Add) and isinstance(n.ast.value, ast.Constant)
                              and n.ast.value.value == 1, g, g.loc(n.ast), "%s is updated by %s" % (rem, src(g, n.ast)))

    # -- 7. cancelling the last lease does reach the unlink ------------------------
    with ctx.rule("C26.7", "R3/E3", "ShareFile.cancel_lease / MutableShareFile.cancel_lease: when every lease found "
                  "carries the cancelled secret (the crawler's cancel of the last expired lease) the unlink is reachable - "
                  "no test on a match / remaining counter, decided from the counter's exact value on the path, closes "
                  "the way (a fully expired share is deleted within the cycle)", expected=2) as r:
        for q in ("storage.immutable:ShareFile.cancel_lease", "storage.mutable:MutableShareFile.cancel_lease"):
            f = idx.func(q)
            mt, un, reached, closed, nstates = _all_match_scenario(f)
            r.site(f, mt.ast, "all leases match -> unlink")
            r.count(nstates)
            if not reached:
                why = "; ".join("L%d '%s' cannot be %s with %s" % (
                    n.lineno, src(f, n.ast), "true" if pol else "false",
                    ", ".join("%s == %r" % kv for kv in sorted(env.items())) or "these values")
                    for (n, pol, env) in sorted(closed, key=lambda c: c[0].lineno))
                r.violation(f, f.loc(un[0].ast), "after a cancellation that matched every lease of the share the unlink "
                            "cannot be reached: a share whose leases have all expired is never deleted (%s)" % (
                                why or "no path from the matching branch"))

    # -- 8. 'no lease remains' is a statement about ALL leases of the share ----------
    # MutableShareFile.cancel_lease decides the unlink from a counter stepped while the lease slots are enumerated:
    # the counter says "no lease remains" only once the enumeration has been run to its end.  Leaving the loop at the
    # matched lease (break / return / unlink from inside the loop) makes 'remaining == 0' a statement about the slots
    # seen so far - a share with an expired lease in a low slot and a valid one in a later slot is deleted.
    # ShareFile.cancel_lease decides from the length of the filtered list: that list must be filtered from the
    # complete enumeration.
    with ctx.rule("C26.8", "R3/E3", "the 'no lease remains' test that admits the unlink covers every lease of the share: "
                  "MutableShareFile.cancel_lease reaches the unlink only after its lease enumeration loop is exhausted "
                  "(never from inside it or after a break / return; counters followed exactly), the loop runs over the "
                  "complete enumeration; MutableShareFile._enumerate_leases / get_leases leave their slot loop early only through an "
                  "exception handler; ShareFile.cancel_lease filters the complete lease list", expected=6) as r:
        g = idx.func("storage.mutable:MutableShareFile.cancel_lease")
        gcfg = g.cfg()
        gnorm = FlowNorm(g)
        mts = [n for n in gcfg.nodes if n.kind == "test" and any(call_tail(c) == "is_cancel_secret" for c in node_calls(n))]
        if len(mts) != 1:
            raise AnchorVanished("MutableShareFile.cancel_lease: is_cancel_secret test")
        mcall = [c for c in node_calls(mts[0]) if call_tail(c) == "is_cancel_secret"][0]
        loop = _enclosing_for(g, mcall)
        if loop is None:
            raise AnchorVanished("MutableShareFile.cancel_lease: the is_cancel_secret test is no longer inside a for loop "
                                 "over the leases")
        # the innermost for loop around the secret test is the enumeration of the share's leases
        ghead = [n for n in gcfg.nodes if n.kind == "iter" and n.ast is loop]
        if len(ghead) != 1:
            raise AnchorVanished("MutableShareFile.cancel_lease: lease loop head")
        ghead = ghead[0]
        r.site(g, loop, "lease enumeration loop")
        kind, what = _enumeration_source(gnorm, ghead, loop.iter)
        if kind == "other":
            raise AnchorVanished("MutableShareFile.cancel_lease: the loop around the is_cancel_secret test iterates over %s, "
                                 "not over _enumerate_leases()/get_leases()" % src(g, what))
        r.site(g, what, "enumeration source")
        r.require(kind == "full", g, g.loc(what), "cancel_lease looks at a part of the share's leases only (%s): the "
                  "leases left out are neither cancelled nor counted as remaining, the share can be deleted while one of "
                  "them is valid" % src(g, what))
        un = gcfg.find(has_call("unlink"))
        if not un:
            raise AnchorVanished("MutableShareFile.cancel_lease no longer unlinks")
        for n in un:
            r.site(g, n.ast, "unlink after exhausted enumeration")
        bad, nstates = _unlink_outside_exhausted_loop(g, gcfg, ghead, has_call("unlink"))
        r.count(nstates)
        how = {"before": "before the lease slots were enumerated", "inside": "from inside the lease enumeration loop",
               "early": "after leaving the lease enumeration loop early (break / return / exception)"}
        for (n, phase, w) in bad:
            r.violation(g, g.loc(n.ast), "the mutable share can be unlinked %s: 'no lease remains' then only covers the "
                        "slots enumerated so far, a share with a still-valid lease in a later slot is deleted "
                        "(path: %s)" % (how[phase], w.brief()), w)
        # the mutable enumerators themselves go through every slot: their slot loop is left before exhaustion only
        # through an exception handler (IndexError from a slot that does not exist) - stopping at an empty slot hides
        # the leases behind a cancelled one, from process_share as well as from the remaining-counter above.
        # (ShareFile.get_leases reads sequentially: stopping at an empty read is the end of the file, so it is not bound.)
        for q in ("storage.mutable:MutableShareFile._enumerate_leases", "storage.mutable:MutableShareFile.get_leases"):
            en = idx.func(q)
            ecfg = en.cfg()
            enorm = FlowNorm(en)
            loops = [n for n in ecfg.nodes if n.kind == "iter" and any(
                isinstance(y, (ast.Yield, ast.YieldFrom)) or (isinstance(y, ast.Call) and call_tail(y) == "append")
                for st in n.ast.body for y in ast.walk(st))]
            if len(loops) != 1:
                raise AnchorVanished("%s: expected one loop that hands out the leases, found %d" % (en.qual, len(loops)))
            eh = loops[0]
            r.site(en, eh.ast, "slot loop runs to exhaustion")
            if q.endswith(".get_leases"):
                kind, what = _enumeration_source(enorm, eh, eh.ast.iter)
                r.require(kind == "full", en, en.loc(eh.ast.iter), "MutableShareFile.get_leases hands out %s, not the complete "
                          "enumeration of the lease slots: process_share does not see every lease of the share" % src(en, what))
            for (t, w) in find_path_avoiding(ecfg, lambda x: x.kind == "exit", gate_node=lambda x: x.kind == "except",
                                             gate_edge=lambda x, lab, _h=eh: x is _h and lab == "done"):
                r.violation(en, en.loc(eh.ast), "%s can stop handing out leases before every slot was looked at, outside an "
                            "exception handler: leases in the slots behind are neither examined by the expirer nor counted as "
                            "remaining by cancel_lease, so the share is deleted while one of them is valid "
                            "(path: %s)" % (short(en), w.brief()), w)
                break
            r.count(len(ecfg.nodes))
        # immutable: the remaining list is filtered from the complete list of leases
        f = idx.func("storage.immutable:ShareFile.cancel_lease")
        fcfg = f.cfg()
        fnorm2 = FlowNorm(f)
        comps = [(n, assign_value(n, t.id)) for n in fcfg.nodes if n.kind == "stmt" and isinstance(n.ast, ast.Assign)
                 for t in n.ast.targets if isinstance(t, ast.Name) and isinstance(assign_value(n, t.id), ast.ListComp)]
        if not comps:
            raise AnchorVanished("ShareFile.cancel_lease: no filtered list of remaining leases")
        for (n, comp) in comps:
            kind, what = _enumeration_source(fnorm2, n, comp.generators[0].iter)
            if kind == "other":
                continue
            r.site(f, comp, "remaining leases filtered from %s" % src(f, what))
            r.require(kind == "full" and len(comp.generators) == 1, f, f.loc(comp), "the list of remaining leases is "
                      "filtered from a part of the share's leases only (%s): the leases left out are dropped from the "
                      "share, and the share is deleted when nothing else remains" % src(f, what))
        if not any(_enumeration_source(fnorm2, n, c.generators[0].iter)[0] != "other" for (n, c) in comps):
            raise AnchorVanished("ShareFile.cancel_lease: the list of remaining leases is not filtered from get_leases()")

    # -- 5. configuration plumbing -----------------------------------------------
    with ctx.rule("C26.5", "R5", "tahoe.cfg [storage]expire.* -> StorageServer(expiration_*) -> "
                  "LeaseCheckingCrawler.__init__ -> self.{expiration_enabled, mode, override_lease_duration, "
                  "cutoff_date, sharetypes_to_expire}", expected=19) as r:
        cl = idx.func("client:_Client.get_anonymous_storage_server")
        cs = [c for c in calls_in_func(cl, "StorageServer")]
        if len(cs) != 1:
            raise AnchorVanished("get_anonymous_storage_server: StorageServer(...) call")
        sc = cs[0]

        def feeding(e):
            keys, parsers = set(), set()
            for c in calls_feeding(cl, e) + [x for x in own_nodes(e) if isinstance(x, ast.Call)]:
                k = _get_config_key(c)
                if k:
                    keys.add(k)
                if call_tail(c) in ("parse_duration", "parse_date", "parse_abbreviated_size"):
                    parsers.add(call_tail(c))
            return keys, parsers
        table = {
            "expiration_enabled": ({"storage.expire.enabled"}, set()),
            "expiration_mode": ({"storage.expire.mode"}, set()),
            "expiration_override_lease_duration": ({"storage.expire.override_lease_duration"}, {"parse_duration"}),
            "expiration_cutoff_date": ({"storage.expire.cutoff_date"}, {"parse_date"}),
        }
        for kw, (wk, wp) in sorted(table.items()):
            v = kwarg(sc, kw)
            if v is None:
                raise AnchorVanished("StorageServer(...) in client.py no longer passes %s=" % kw)
            r.site(cl, v, kw)
            keys, parsers = feeding(v)
            r.require(keys == wk and parsers == wp, cl, cl.loc(v),
                      "%s= is fed by config keys %s through %s (expected %s through %s)" % (
                          kw, sorted(keys), sorted(parsers) or "no parser", sorted(wk), sorted(wp) or "no parser"))
        # a parsed value replaces the raw string on every path on which the key is set
        cfg = cl.cfg()
        cnorm = FlowNorm(cl)
        for kw, parser in (("expiration_override_lease_duration", "parse_duration"), ("expiration_cutoff_date", "parse_date")):
            v = kwarg(sc, kw)
            if isinstance(v, ast.Name):
                raw = [n for n in cfg.nodes if n.kind == "stmt" and _get_config_key(assign_value(n, v.id) or ast.Pass())]
                for n0 in raw:
                    optional = len(n0.ast.value.args) >= 3
                    for (s, w) in find_path_from_to_avoiding(
                            cfg, lambda x, _n=n0: x is _n,
                            gate_node=lambda x, _v=v.id, _p=parser: x.kind == "stmt" and isinstance(
                                assign_value(x, _v), ast.Call) and call_tail(assign_value(x, _v)) == _p,
                            ends=has_call("StorageServer")):
                        # the only admissible bypass: the value is None (key absent)
                        facts = [cnorm.edge_fact(a, lab) for (a, lab) in w.path if a.kind == "test"]
                        none_path = any(ft and ft[0] == "is" and "None" in ft[1:] for ft in facts)
                        if not (optional and none_path):
                            r.violation(cl, cl.loc(n0.ast), "the raw %s string can reach StorageServer(%s=) without %s "
                                        "(path: %s)" % (v.id, kw, parser, w.brief()), w)
        # defaults: expiration is off unless configured
        en = kwarg(sc, "expiration_enabled")
        for c in calls_feeding(cl, en):
            if _get_config_key(c) == "storage.expire.enabled":
                d = arg(c, 2, "default")
                r.site(cl, c, "default of expire.enabled")
                r.require(isinstance(d, ast.Constant) and d.value is False and
                          isinstance(kwarg(c, "boolean"), ast.Constant) and kwarg(c, "boolean").value is True,
                          cl, cl.loc(c), "expire.enabled does not default to boolean False: %s" % src(cl, c))
        # "expire.mode ... required if expiration enabled" (docs/garbage-collection.rst: deemed safer): a read of
        # expire.mode that falls back to a valid mode is only reachable with expire.enabled false - otherwise
        # enabling expiry without choosing a policy silently deletes by age
        mv = kwarg(sc, "expiration_mode")
        if isinstance(mv, ast.Name):
            def disabled(x, lab):
                if x.kind != "test" or not (isinstance(lab, tuple) and lab[0] == "F"):
                    return False
                e = cnorm.resolve(x, x.ast)
                return _get_config_key(e) == "storage.expire.enabled"
            n_mode = 0
            for n in cfg.nodes:
                v = assign_value(n, mv.id) if n.kind == "stmt" else None
                if v is None or _get_config_key(v) != "storage.expire.mode":
                    continue
                n_mode += 1
                d = arg(v, 2, "default")
                if d is None:
                    continue
                r.site(cl, v, "expire.mode default")
                try:
                    dv = get_folder(idx).fold(d, cl.module, cl.cls)
                except NotConstant:
                    dv = "age"      # not a constant: judged like a valid mode
                if dv not in ("age", "cutoff-date"):
                    continue        # an invalid mode is rejected by LeaseCheckingCrawler.__init__
                for (t, w) in find_path_avoiding(cfg, lambda x, _n=n: x is _n, gate_edge=disabled):
                    r.violation(cl, cl.loc(v), "with [storage]expire.enabled true and no expire.mode the node starts "
                                "expiring by %r instead of refusing to start (path: %s)" % (dv, w.brief()), w)
            if not n_mode:
                raise AnchorVanished("get_anonymous_storage_server: no read of [storage]expire.mode")
        # share types: "immutable"/"mutable" appended under their own flag
        st = kwarg(sc, "expiration_sharetypes")
        if st is None:
            raise AnchorVanished("StorageServer(...) no longer passes expiration_sharetypes=")
        dep = depends_on(cl, st)
        lists = [n for n in cfg.nodes if n.kind == "stmt" and isinstance(n.ast, ast.Expr) and isinstance(n.ast.value, ast.Call)
                 and call_tail(n.ast.value) == "append" and attr_path(n.ast.value.func.value) in dep]
        seen_types = set()
        for n in lists:
            c = n.ast.value
            tv = c.args[0].value if c.args and isinstance(c.args[0], ast.Constant) else None
            r.site(cl, c, "sharetype %r" % (tv,))
            if tv not in ("immutable", "mutable"):
                r.violation(cl, cl.loc(c), "share type list gets %s" % src(cl, c))
                continue
            seen_types.add(tv)
            key = "storage.expire." + tv

            def flag(x, lab, _key=key):
                if x.kind != "test" or not (isinstance(lab, tuple) and lab[0] == "T"):
                    return False
                e = cnorm.resolve(x, x.ast)
                return _get_config_key(e) == _key and isinstance(kwarg(e, "boolean"), ast.Constant) \
                    and kwarg(e, "boolean").value is True
            for (t, w) in find_path_avoiding(cfg, lambda x, _n=n: x is _n, gate_edge=flag):
                r.violation(cl, cl.loc(c), "%r becomes an expirable share type without [storage]expire.%s being true "
                            "(path: %s)" % (tv, tv, w.brief()), w)
        r.require(seen_types == {"immutable", "mutable"}, cl, cl.loc(st), "share types configured: %s" % sorted(seen_types))
        # StorageServer.__init__ -> LeaseCheckerClass(...)
        si = idx.func("storage.server:StorageServer.__init__")
        ci = idx.func(EXPIRER + ".__init__")
        cparams = first_positional_params(ci)
        mk = [c for c in calls_in_func(si) if len(c.args) + len(c.keywords) >= len(cparams) - 1 and any(
            isinstance(a, ast.Name) and a.id == "expiration_enabled" for a in list(c.args) + [k.value for k in c.keywords])]
        if len(mk) != 1:
            raise AnchorVanished("StorageServer.__init__: construction of the lease checker")
        mkc = mk[0]
        callee = FlowNorm(si).norm([n for n in si.cfg().nodes if any(c is mkc for c in node_calls(n))][0], mkc.func)
        r.require(callee in ("self.LeaseCheckerClass", "LeaseCheckingCrawler"), si, si.loc(mkc),
                  "lease checker constructed through %s" % callee)
        lcc = idx.cls("storage.server:StorageServer").lookup_attr("LeaseCheckerClass")
        r.require(isinstance(lcc, ast.Name) and lcc.id == "LeaseCheckingCrawler", si, si.loc(mkc),
                  "StorageServer.LeaseCheckerClass is %s" % (src(si, lcc) if lcc is not None else None))
        pmap = {"expiration_enabled": "expiration_enabled", "mode": "expiration_mode",
                "override_lease_duration": "expiration_override_lease_duration",
                "cutoff_date": "expiration_cutoff_date", "sharetypes": "expiration_sharetypes"}
        rebound = {t for n in si.cfg().nodes for t in node_stores(n)}
        for p, outer in sorted(pmap.items()):
            if p not in cparams:
                raise AnchorVanished("LeaseCheckingCrawler.__init__ has no parameter %s" % p)
            a = arg(mkc, cparams.index(p), p)
            r.site(si, a if a is not None else mkc, "%s <- %s" % (p, outer))
            r.require(isinstance(a, ast.Name) and a.id == outer and outer in si.params and outer not in rebound,
                      si, si.loc(mkc), "LeaseCheckingCrawler(%s=...) receives %s, expected StorageServer's %s" % (
                          p, src(si, a) if a is not None else None, outer))
        dflt = dict(zip(reversed([x.arg for x in si.node.args.args]), reversed(si.node.args.defaults)))
        d = dflt.get("expiration_enabled")
        r.site(si, d if d is not None else si.node, "default expiration_enabled")
        r.require(isinstance(d, ast.Constant) and d.value is False, si, si.loc(),
                  "StorageServer(expiration_enabled=) defaults to %s" % (src(si, d) if d is not None else "nothing"))
        # LeaseCheckingCrawler.__init__: attribute <- parameter, nothing else binds them
        amap = {"expiration_enabled": "expiration_enabled", "mode": "mode", "override_lease_duration":
                "override_lease_duration", "cutoff_date": "cutoff_date", "sharetypes_to_expire": "sharetypes"}
        cg = get_callgraph(idx)
        icfg = ci.cfg()
        inorm = FlowNorm(ci)
        irebound = {t for n in icfg.nodes for t in node_stores(n) if "." not in t}
        for attr, p in sorted(amap.items()):
            st_nodes = icfg.find(stores("self." + attr))
            vals = [assign_value(n, "self." + attr) for n in st_nodes]
            from_param = [n for n, v in zip(st_nodes, vals) if isinstance(v, ast.Name) and v.id == p]
            r.site(ci, from_param[0].ast if from_param else ci.node, "self.%s <- %s" % (attr, p))
            r.require(bool(from_param) and p not in irebound, ci, ci.loc(), "self.%s is not bound to the constructor "
                      "parameter %s" % (attr, p))
            for n, v in zip(st_nodes, vals):
                if n in from_param:
                    continue
                r.require(isinstance(v, ast.Constant) and v.value is None, ci, ci.loc(n.ast),
                          "self.%s is bound to %s" % (attr, src(ci, v) if v is not None else "?"))
            for (f, nd) in cg.attr_stores(attr):
                if f.cls is not None and f.cls.is_subclass_of("ShareCrawler") and f is not ci \
                        and not f.module.name.startswith("allmydata.test"):
                    r.violation(f, f.loc(nd), "%s re-binds the expiry policy attribute %s" % (short(f), attr))
        # the policy value is stored under the mode that uses it
        for attr, modeval in (("override_lease_duration", "age"), ("cutoff_date", "cutoff-date")):
            tgt = [n for n in icfg.find(stores("self." + attr))
                   if isinstance(assign_value(n, "self." + attr), ast.Name)]
            for n in tgt:
                def under(x, lab, _m=modeval):
                    ft = inorm.edge_fact(x, lab)
                    return bool(ft) and ft[0] == "==" and set(ft[1:]) == {repr(_m), "self.mode"}
                for (t, w) in find_path_avoiding(icfg, lambda x, _n=n: x is _n, gate_edge=under):
                    r.violation(ci, ci.loc(n.ast), "self.%s is set outside mode %r" % (attr, modeval), w)

    # -- 11. the hooks the expirer replaces are pure notifications ------------------------
    # LeaseCheckingCrawler overrides started_cycle / finished_cycle / add_initial_state / process_bucket without an
    # upcall ("No upcall is necessary").  That is only sound while the replaced ShareCrawler method does none of the
    # traversal bookkeeping: a resume marker or cycle counter maintained in a base-class hook is maintained for the
    # bucket counter but silently not for the lease crawler, which then carries the old resume position into every
    # later cycle and never examines the shares in front of it.
    with ctx.rule("C26.11", "R4", "every ShareCrawler method that LeaseCheckingCrawler overrides without an upcall does none of "
                  "the traversal bookkeeping (resume markers, cycle counter, prefix index) in the base class - directly or in "
                  "the self.<m>() methods it calls - so the lease crawler loses none of it", expected=6) as r:
        lc = idx.cls(EXPIRER)
        base = idx.cls("storage.crawler:ShareCrawler")
        if base not in lc.mro():
            raise AnchorVanished("LeaseCheckingCrawler no longer derives from ShareCrawler")
        for name, m in sorted(lc.methods.items()):
            bm = base.methods.get(name)
            if bm is None:
                continue
            upcalls = [c for c in calls_in_func(m, into_lambda=True) if call_tail(c) == name and isinstance(c.func, ast.Attribute)
                       and attr_path(c.func.value) != (m.params[0] if m.params else "self")]
            if upcalls:
                # the upcall happens on every normal path through the override
                un_ = [n for n in m.cfg().nodes if any(c is u for u in upcalls for c in node_calls(n))]
                if not find_path_avoiding(m.cfg(), lambda x: x.kind == "exit", gate_node=lambda x: any(x is y for y in un_)):
                    r.site(m, None, "extends ShareCrawler.%s (upcall on every path)" % name)
                    continue
            r.site(m, None, "replaces ShareCrawler.%s" % name)
            r.count(len(bm.cfg().nodes))
            seen_what = set()
            for (wf, wa, what) in _bookkeeping_writes(base, bm):
                if what in seen_what:
                    continue
                seen_what.add(what)
                r.violation(m, wf.loc(wa), "LeaseCheckingCrawler.%s replaces ShareCrawler.%s %s, but the base method "
                            "maintains the crawler's traversal bookkeeping (%s written in %s): the lease crawler never "
                            "performs it, so its resume position / cycle counter goes stale and later cycles skip shares" % (
                                name, name, "without an upcall" if not upcalls else "and can return without its upcall",
                                what, short(wf)))

    # -- 12. the policy values are the parsers' values, unchanged -------------------------------
    # C26.5 decides which config key and which parser feed each StorageServer(expiration_*=) keyword; it does not say
    # that the keyword receives the parser's value *itself* (not the value shifted / scaled / combined with something
    # else), nor which function the name `parse_date` / `parse_duration` stands for in client.py.  Both are needed for
    # "the crawler's cutoff is midnight UTC of the configured day" (decided on util.time_format.parse_date by C48.5,
    # adopted below as C26.13) to be a statement about the value LeaseCheckingCrawler compares the leases with.
    with ctx.rule("C26.12", "R5", "on every path StorageServer(expiration_cutoff_date= / expiration_override_lease_duration=) "
                  "receives None or exactly the value of util.time_format.parse_date / parse_duration applied to the text of "
                  "its own [storage]expire.* key", expected=2) as r:
        cl = idx.func("client:_Client.get_anonymous_storage_server")
        cs = [c for c in calls_in_func(cl, "StorageServer")]
        if len(cs) != 1:
            raise AnchorVanished("get_anonymous_storage_server: StorageServer(...) call")
        sc = cs[0]
        ccfg = cl.cfg()
        rd = C.reaching_defs(ccfg)
        at = [n for n in ccfg.nodes if any(c is sc for c in node_calls(n))]
        if len(at) != 1:
            raise AnchorVanished("get_anonymous_storage_server: the StorageServer(...) call is not one statement")
        n_steps = [0]

        def origins(node, e, depth=10):
            """[(node, expr)]: the expressions the value of `e`, evaluated at `node`, is a plain copy of - local names
            followed through all their reaching definitions, conditional expressions through both arms.  An
            expression of None stands for a binding that is not a plain assignment (loop target, augmented
            assignment, parameter)."""
            n_steps[0] += 1
            if isinstance(e, ast.IfExp):
                return origins(node, e.body, depth) + origins(node, e.orelse, depth)
            if isinstance(e, ast.Name) and depth > 0:
                ds = rd.get(node.id, {}).get(e.id)
                if ds:
                    out = []
                    for d in sorted(ds, key=lambda x: (isinstance(x, str), x)):
                        dn = ccfg.nodes[d] if isinstance(d, int) and 0 <= d < len(ccfg.nodes) else None
                        v = assign_value(dn, e.id) if dn is not None and dn.kind == "stmt" else None
                        if v is None:
                            out.append((dn if dn is not None else node, None))
                        else:
                            out += origins(dn, v, depth - 1)
                    return out
            return [(node, e)]

        for kw, parser, key in (("expiration_cutoff_date", "parse_date", "storage.expire.cutoff_date"),
                                ("expiration_override_lease_duration", "parse_duration", "storage.expire.override_lease_duration")):
            v = kwarg(sc, kw)
            if v is None:
                raise AnchorVanished("StorageServer(...) in client.py no longer passes %s=" % kw)
            want_fn = idx.func("util.time_format:" + parser)
            n_parsed = 0
            for (on, oe) in origins(at[0], v):
                what = src(cl, oe) if oe is not None else "a value that is not a plain assignment"
                where = cl.loc(oe if oe is not None else (on.ast if on is not None and getattr(on, "ast", None) is not None else v))
                if isinstance(oe, ast.Constant) and oe.value is None:
                    continue                # policy value absent
                if _get_config_key(oe) == key and isinstance(arg(oe, 2, "default"), ast.Constant) \
                        and arg(oe, 2, "default").value is None:
                    continue                # the raw text, None when the key is absent; C26.5 decides that only None gets through
                inner = oe
                # int(x) of an int is x (LeaseCheckingCrawler.__init__ asserts the cutoff is an int)
                while isinstance(inner, ast.Call) and isinstance(inner.func, ast.Name) and inner.func.id == "int" \
                        and len(inner.args) == 1 and not inner.keywords and idx.resolve_expr(cl.module, inner.func) is None:
                    inner = inner.args[0]
                if not (isinstance(inner, ast.Call) and call_tail(inner) == parser):
                    r.site(cl, v, "%s <- %s" % (kw, what))
                    r.violation(cl, where, "StorageServer(%s=) can receive %s: not None and not the value of %s([storage]%s) "
                                "itself, so the lease crawler's %s is not the configured one" % (
                                    kw, what, parser, key.split(".", 1)[1],
                                    "cutoff" if parser == "parse_date" else "lease duration"))
                    continue
                n_parsed += 1
                r.site(cl, inner, "%s <- %s" % (kw, what))
                target = idx.resolve_expr(cl.module, inner.func)
                r.require(target is want_fn and parser not in {t for n in ccfg.nodes for t in node_stores(n)}
                          and parser not in cl.params,
                          cl, cl.loc(inner), "%s in client.py is %s, not allmydata.util.time_format.%s (whose result is decided by "
                          "C48)" % (src(cl, inner.func), target.qual if isinstance(target, FuncInfo) else "not resolvable", parser))
                if len(inner.args) != 1 or inner.keywords:
                    r.violation(cl, cl.loc(inner), "%s is called as %s" % (parser, src(cl, inner)))
                    continue
                for (an, ae) in origins(on, inner.args[0]):
                    r.require(_get_config_key(ae) == key, cl, cl.loc(inner),
                              "%s is applied to %s, not to the text of [storage]%s" % (
                                  parser, src(cl, ae) if ae is not None else "a value that is not a plain assignment",
                                  key.split(".", 1)[1]))
            if not n_parsed and not r.violations:
                raise AnchorVanished("get_anonymous_storage_server: no %s(...) value reaches StorageServer(%s=)" % (parser, kw))
        r.count(n_steps[0])

    # -- 14. the cutoff does not depend on the node's time zone ---------------------------------
    # Lease renewal times are time.time() values; the cutoff they are compared with must be the same instant on every
    # node, whatever its TZ.  C26.13.5 (C48.5) demands the positive form (calendar.timegm of the fields) and answers
    # with an analysis error when that construct is gone; the edit that removes it is typically the one that puts a
    # local-time conversion in its place, which is reported here as what it is.
    with ctx.rule("C26.14", "R8", "no value that depends on the node's local time zone (time.mktime / time.localtime / "
                  "naive datetime.timestamp() / datetime.fromtimestamp(x) / time.timezone / time.altzone) feeds the value "
                  "parse_date returns, in parse_date or in the package functions whose result it returns", expected=2) as r:
        pd = idx.func("util.time_format:parse_date")
        TZ_MARK = {"tzinfo", "utc", "UTC", "tz"}

        def tz_aware(e):
            """The expression mentions an explicit time zone (tzinfo= / timezone.utc / a %z format)."""
            for x in ast.walk(e):
                if isinstance(x, ast.keyword) and x.arg in TZ_MARK:
                    return True
                if isinstance(x, ast.Attribute) and x.attr in TZ_MARK:
                    return True
                if isinstance(x, ast.Name) and x.id in TZ_MARK:
                    return True
                if isinstance(x, ast.Constant) and isinstance(x.value, str) and "%z" in x.value:
                    return True
            return False

        def local_time_uses(f, e):
            out = []
            for c in calls_feeding(f, e):
                t = call_tail(c)
                if t in ("mktime", "localtime"):
                    out.append((c, "%s (local time)" % src(f, c.func)))
                elif t == "fromtimestamp" and len(c.args) + len(c.keywords) < 2:
                    out.append((c, "%s without a time zone (local time)" % src(f, c.func)))
                elif t == "timestamp" and isinstance(c.func, ast.Attribute) and not c.args:
                    recv = c.func.value
                    full = [recv] + [v for l in leaves(recv) for v in def_exprs(f).get(l, [])]
                    if not any(tz_aware(x) for x in full):
                        out.append((c, ".timestamp() of a naive datetime (read as local time)"))
            for l in depends_on(f, e):
                if l in ("time.timezone", "time.altzone", "time.daylight", "time.tzname"):
                    out.append((e, l))
            return out

        seen_fns, work = set(), [(pd, 0)]
        while work:
            f, depth = work.pop()
            if f.qual in seen_fns:
                continue
            seen_fns.add(f.qual)
            rets = [n for n in f.cfg().find(is_return) if n.ast.value is not None]
            if not rets:
                raise AnchorVanished("%s returns nothing" % short(f))
            r.site(f, rets[0].ast, "%d return(s)" % len(rets))
            r.count(len(f.cfg().nodes))
            for n in rets:
                for (at_, what) in local_time_uses(f, n.ast.value):
                    r.violation(f, f.loc(at_), "the cutoff %s returns is computed with %s: on a node whose time zone is not UTC "
                                "[storage]expire.cutoff_date no longer means midnight UTC of that day, so leases renewed "
                                "within the UTC offset of the boundary are judged wrongly (share deleted although not "
                                "expired, or kept although expired)" % (short(f), what))
                if depth < 3:
                    for c in calls_feeding(f, n.ast.value):
                        g = idx.resolve_expr(f.module, c.func)
                        if isinstance(g, FuncInfo):
                            work.append((g, depth + 1))

    # -- 9./10. adopted necessary conditions ----------------------------------------------
    # "such a share is deleted within one crawl cycle" and "only if every lease on it is expired" rest on two things
    # this file does not look at itself: the crawler the expirer inherits reaches every bucket in every cycle (C27:
    # progress markers, resume predicate, saved state / re-armed timer / inherited traversal, cycle counter and the
    # end-of-cycle reset of the resume position - a marker carried into the next cycle makes it skip every bucket that
    # sorts before it, so shares expiring after the first cycle are never examined), and the lease enumerations that
    # process_share and cancel_lease loop over hand out every lease of the share (C25: a slot skipped by
    # _enumerate_leases / read as empty is a lease that is neither examined nor counted as remaining).
    ctx.include("C27", ["C27.1", "C27.2", "C27.3", "C27.5"], "C26.9")
    ctx.include("C25", ["C25.8", "C25.9"], "C26.10")
    # "expired" in cutoff-date mode means: last renewed before midnight UTC of the configured day.  The lease crawler
    # compares renewal times (time.time() values, UTC-based) with the number parse_date made of the text, so the
    # deleted set is the documented one only if that number is midnight *UTC* of exactly that day - a local-time
    # midnight (strptime().timestamp(), time.mktime) shifts the boundary by the node's UTC offset: shares renewed
    # inside that window are deleted although not expired, or kept although expired.  C48.5 decides the arithmetic of
    # parse_date / iso_utc_time_to_seconds (calendar.timegm of the regex fields, nothing added), C48.6 that no other
    # text than the day is read as a time, C48.8 the path-sensitive plumbing (a rejected value stops the node instead of
    # being replaced).  (C48, C27 and C25 include no other property: no include cycle.)
    ctx.include("C48", ["C48.5", "C48.6", "C48.8"], "C26.13")
