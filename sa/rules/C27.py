"""C27 Share crawler covers every bucket each cycle.

Path rules over ShareCrawler.{process_prefixdir, start_current_prefix,
start_slice, stopService, save_state, load_state, __init__} and
_LeaseStateSerializer.save (DESIGN.md section 5, C27); C27.6 adds a
definite-assignment check of the same functions (locals and the instance
attributes the traversal reads); C27.7 decides which part of the bucket list
the bucket loop walks."""
import builtins
import copy

from sa.h import *
from sa import cfg as C

EXPLANATION = (
    "Decided (structural, all paths): (1) progress markers: state['last-complete-bucket'] = bucket is written after "
    "process_bucket(.., bucket) and before the time-slice test of the same iteration, last_complete_prefix_index = i "
    "after process_prefixdir(.., prefixes[i], ..) and before its time-slice test; both loops are left only by "
    "exhaustion or TimeSliceExceeded; (2) resume predicate: a bucket is processed iff last-complete-bucket is None or "
    "last-complete-bucket < bucket and skipped only under bucket <= last-complete-bucket; bucket lists are sorted "
    "(or come from the cache entry of the same prefix index), prefixes are sorted and the prefix loop starts at "
    "last_complete_prefix_index+1; load_state/save_state map the prefix index to the prefix name and back; (3) "
    "one time slice - start_slice followed through every ShareCrawler method it hands part of the slice to (self.<m>(..) "
    "calls, summarised per entry state; a True/False flag a helper returns or a local holds is tracked, so a test on it "
    "is paired only with the paths that produce that value; any other value is not) - cannot end, after the crawl step self.start_current_prefix(..) stopped by return or by "
    "TimeSliceExceeded, without passing self.save_state(): no path from the crawl call to the return of start_slice "
    "avoids the save, TimeSliceExceeded is caught somewhere on the way out, no explicit raise lies between the crawl step "
    "and the return, and every return re-arms the timer (callLater(.., self.start_slice), in start_slice or a helper) "
    "unless 'not self.running' was established; stopService saves, the end of a cycle saves; start_current_prefix (and "
    "any helper that can return with the crawl step unsaved) is entered only from the slice; the lease crawler does not "
    "override the traversal or the helpers of the slice; (4) the state file is written to a sibling "
    "temporary file and moved into place (os.rename) - never written in place; (5) cycle counter: current-cycle = "
    "last-cycle-finished + 1 (0 the first time) only when no cycle is in progress - the number 0 is chosen only where "
    "'last-cycle-finished is None' is established and last-cycle-finished + 1 only where it is not None, whether the "
    "decision is a statement if/else, a conditional expression or a temporary bound on two branches (a truthiness "
    "test does not establish 'is None': a finished cycle 0 is falsy); the index<->prefix-name decisions of "
    "load_state/save_state are read the same shape-independent way; last-cycle-finished = that cycle "
    "and the reset of current-cycle / last-complete-bucket / last_complete_prefix_index only after the prefix loop "
    "is exhausted and before the final save; (6) a slice cannot abort on an unbound name (an exception other than "
    "TimeSliceExceeded leaves start_slice without re-arming the timer, so the cycle is never completed): every local "
    "of start_slice / start_current_prefix / process_prefixdir / save_state / load_state / __init__ / the serializer "
    "and its helpers is bound on every CFG path (exception edges included) to each of its reads, and every instance "
    "attribute the traversal reads is a class attribute, a twisted Service attribute, or is set on every path through "
    "ShareCrawler.__init__ (directly or in a method it calls, e.g. load_state); (7) the bucket loop - known by its role, "
    "the innermost for loop around the process_bucket call, whether it iterates the list, a slice of it, enumerate() or "
    "an index range - walks the bucket list to its end and from its beginning; a start index other than 0 may come only "
    "from instance state that is back at its constructor value on every normal return of process_prefixdir or of "
    "start_current_prefix or before the prefix loop of every new cycle (or whose use is tied to the cycle number by an equality test): an in-memory resume position "
    "that is never cleared makes later cycles skip the buckets before it. "
    "Undecided: 'exactly once' under SIGKILL between process_bucket and save_state (documented duplicate work), "
    "buckets added or removed while a prefix is cached, clock values (the time-slice tests 'time.time() >= start_slice + "
    "cpu_slice' may be negated, weakened or lose their raise without any rule firing: that changes only how often the "
    "crawler yields, every bucket is still covered; likewise the sleep-time arithmetic of start_slice), the subclass "
    "hooks (started_cycle / finished_prefix / finished_cycle / add_initial_state / yielding calls are not required), "
    "other run-time exceptions inside a slice (KeyError on a missing state key, exceptions raised by process_bucket), "
    "a slice written with try/finally, a recursive slice, two slice steps in one statement, or a slice handed to something "
    "other than a method of the class called on self (all reported as ANALYSIS-ERROR), a save or re-arm that depends on a value "
    "other than a True/False flag (the walk then takes both branches: it over-approximates, such code is reported, never passed), "
    "stopService called from inside a slice (one-shot crawlers) relying on start_slice having cleared self.timer; "
    "whether a non-zero start index that passes (7) is the right number (e.g. an off-by-one in a recorded resume offset), "
    "a start computed from the persisted state (reported as ANALYSIS-ERROR), while loops.")
TECHNIQUE = "static analysis: CFG path rules (must-precede / must-follow / guarded effect) with flow-normalised edge facts"

SC = "storage.crawler:ShareCrawler"
SER = "storage.crawler:_LeaseStateSerializer"


# --------------------------------------------------------------------------
def _sub_store(fnorm, n):
    """(normalised base, constant key, value expr) of ``base['key'] = value``."""
    a = n.ast
    if n.kind == "stmt" and isinstance(a, ast.Assign) and len(a.targets) == 1:
        t = a.targets[0]
        if isinstance(t, ast.Subscript) and isinstance(t.slice, ast.Constant):
            return (fnorm.norm(n, t.value), t.slice.value, a.value)
    return None


def _state_store(fnorm, key, value_pred=None):
    def p(n):
        s = _sub_store(fnorm, n)
        return s is not None and s[0] == "self.state" and s[1] == key and (value_pred is None or value_pred(n, s[2]))
    return p


def _is_none(e):
    return isinstance(e, ast.Constant) and e.value is None


def _one(nodes, what):
    if len(nodes) != 1:
        raise AnchorVanished("expected exactly one %s, found %d" % (what, len(nodes)))
    return nodes[0]


def _loop_rules(r, fn, cfg, head, work, marker, what_work, what_marker):
    """Common shape of both traversal loops.
    work: the node doing the per-item work; marker: the progress-marker store."""
    is_head = lambda n: n is head
    ts = raises("TimeSliceExceeded")
    # marker only after the work of this iteration
    for (n, w) in find_path_avoiding(cfg, lambda n: n is marker, gate_node=lambda n: n is work, kill=is_head):
        r.violation(fn, fn.loc(n.ast), "%s is recorded on a path that did not run %s in this iteration (path: %s)" % (
            what_marker, what_work, w.brief()), w)
    # after the work, the marker is written before the next iteration / the time-slice raise / the return
    for (s, w) in find_path_from_to_avoiding(cfg, lambda n: n is work, gate_node=lambda n: n is marker,
                                             ends=lambda n: n.kind in ("iter", "exit") or is_raise(n)):
        r.violation(fn, fn.loc(s.ast), "after %s the crawler can go on (next item, time-slice exit or return) without "
                    "recording %s (path: %s)" % (what_work, what_marker, w.brief()), w)
    # the loop is left only by exhaustion (or by the raise)
    for (n, w) in find_path_avoiding(cfg, lambda n: n.kind == "exit",
                                     gate_edge=lambda n, lab: n is head and lab == "done"):
        r.violation(fn, fn.loc(head.ast), "%s can return normally without exhausting its loop: the remaining items are "
                    "reported as covered (path: %s)" % (short(fn), w.brief()), w)
    # the time-slice exit of an iteration comes after its marker
    tsn = [n for n in cfg.find(ts) if _inside(head.ast, n.ast)]
    for (n, w) in find_path_avoiding(cfg, lambda n: any(n is t for t in tsn), gate_node=lambda n: n is marker, kill=is_head):
        r.violation(fn, fn.loc(n.ast), "the time slice can end between %s and %s: the item is repeated or lost on "
                    "resume (path: %s)" % (what_work, what_marker, w.brief()), w)
    r.count(4 * len(cfg.nodes))


def _inside(loop_ast, node_ast):
    return any(x is node_ast for st in loop_ast.body for x in own_nodes(st))


def _bucket_loop(pp, pcfg, pn, pwork, buckets):
    """The bucket loop of process_prefixdir, found by its role - the innermost for loop around the process_bucket call -
    and the way it walks the bucket-list parameter.  Returns (head, B, bind, start, stop):
    B      the local that holds the bucket of the iteration,
    bind   the statement node `B = <buckets>[<index>]` of an indexed loop (None when B is the loop target itself),
    start  the expression of the index of the first bucket visited (None: the beginning of the list),
    stop   the expression of the index the walk stops before (None: the end of the list).
    Recognised: for B in L / L[a:] / L[a:b], for i in range(b) / range(a, b) with B = L[i], for i, B in enumerate(L),
    where L is the parameter, possibly through sorted()/list()/tuple() or a local copy."""
    heads = [n for n in pcfg.nodes if n.kind == "iter" and _inside(n.ast, pwork.ast)]
    head = _one([h for h in heads if not any(o is not h and _inside(h.ast, o.ast) for o in heads)],
                "for loop around the process_bucket call in process_prefixdir")

    def is_list(e, at=None, depth=6):
        at = at or head
        if isinstance(e, ast.Name):
            ds = pn.rd.get(at.id, {}).get(e.id)
            if not ds or len(ds) != 1 or depth <= 0:
                return False
            (d,) = tuple(ds)
            if d == C.PARAM_DEF:
                return e.id == buckets
            v = pn._def_value(pcfg.nodes[d], e.id)
            return v is not None and is_list(v, pcfg.nodes[d], depth - 1)
        if depth > 0 and isinstance(e, ast.Call) and call_name(e) in ("sorted", "list", "tuple") and len(e.args) == 1 \
                and not e.keywords:
            return is_list(e.args[0], at, depth - 1)
        return False

    unknown = AnchorVanished("the loop around process_bucket (for %s in %s) does not walk the bucket list %s in a recognised way"
                             % (src(pp, head.ast.target), src(pp, head.ast.iter), buckets))
    tgt, it = head.ast.target, pn.resolve(head, head.ast.iter)
    if isinstance(tgt, ast.Name) and is_list(it):
        return head, tgt.id, None, None, None
    if isinstance(tgt, ast.Name) and isinstance(it, ast.Subscript) and isinstance(it.slice, ast.Slice) and is_list(it.value) \
            and (it.slice.step is None or pn.norm(head, it.slice.step) == "1"):
        return head, tgt.id, None, it.slice.lower, it.slice.upper
    if isinstance(tgt, ast.Tuple) and len(tgt.elts) == 2 and all(isinstance(t, ast.Name) for t in tgt.elts) \
            and isinstance(it, ast.Call) and call_name(it) == "enumerate" and len(it.args) == 1 and not it.keywords \
            and is_list(it.args[0]):
        return head, tgt.elts[1].id, None, None, None
    if isinstance(tgt, ast.Name) and isinstance(it, ast.Call) and call_name(it) == "range" and not it.keywords \
            and len(it.args) in (1, 2):
        binds = []
        for n in pcfg.nodes:
            if n.kind == "stmt" and isinstance(n.ast, ast.Assign) and len(n.ast.targets) == 1 \
                    and isinstance(n.ast.targets[0], ast.Name) and _inside(head.ast, n.ast):
                v = n.ast.value
                if isinstance(v, ast.Subscript) and isinstance(v.slice, ast.Name) and v.slice.id == tgt.id and is_list(v.value, n):
                    binds.append(n)
        bind = _one(binds, "statement <bucket> = %s[%s] in the indexed bucket loop" % (buckets, tgt.id))
        stop = it.args[-1]
        if isinstance(stop, ast.Call) and call_name(stop) == "len" and len(stop.args) == 1 and is_list(stop.args[0]):
            stop = None
        return head, bind.ast.targets[0].id, bind, (it.args[0] if len(it.args) == 2 else None), stop
    raise unknown


def _may_unsettle(ci, fn, attr, want, depth):
    """fn may store self.<attr> with a value other than `want` (directly or in a method of the class it calls)."""
    path = "self." + attr
    fnorm = FlowNorm(fn)
    for n in fn.cfg().nodes:
        if path in node_stores(n):
            v = assign_value(n, path)
            if v is None or fnorm.norm(n, v) != want:
                return True
        if depth > 0:
            for c in node_calls(n):
                nm = call_name(c)
                if nm.startswith("self.") and nm.count(".") == 1:
                    m = ci.lookup(nm.split(".", 1)[1])
                    if m is not None and m is not fn and _may_unsettle(ci, m, attr, want, depth - 1):
                        return True
    return False


def _overridden(idx, ci, name):
    return any(name in sub.methods for sub in idx.subclasses(ci) if not sub.module.name.startswith("allmydata.test"))


def _attr_effects(idx, ci, fn, attr, want, depth=2):
    """node id -> True (the node leaves self.<attr> holding a value whose normal form is `want`: it stores it, or calls a
    method of the class that ends that way on every normal path and that no subclass overrides) / False (it stores
    something else, or calls a method that may)."""
    path = "self." + attr
    fnorm = FlowNorm(fn)
    effect = {}
    for n in fn.cfg().nodes:
        if n.kind in ("entry", "exit", "raise"):
            continue
        eff = None
        if depth > 0:
            for c in node_calls(n):
                nm = call_name(c)
                if nm.startswith("self.") and nm.count(".") == 1:
                    m = ci.lookup(nm.split(".", 1)[1])
                    if m is None or m is fn:
                        continue
                    settles = not _overridden(idx, ci, m.name) and not _left_unsettled(idx, ci, m, attr, want, depth - 1)
                    if settles:
                        eff = True
                    elif _may_unsettle(ci, m, attr, want, depth - 1):
                        eff = False
        if path in node_stores(n):
            v = assign_value(n, path)
            eff = v is not None and fnorm.norm(n, v) == want
        if eff is not None:
            effect[n.id] = eff
    return effect


def _left_unsettled(idx, ci, fn, attr, want, depth=2):
    """[] when on every normal path through fn the last thing that happens to self.<attr> is a store of a value whose
    normal form is `want`; else [(exit node, Witness)] of a path that returns with the attribute untouched or holding
    something else."""
    cfg = fn.cfg()
    effect = _attr_effects(idx, ci, fn, attr, want, depth)

    def tr(n, lab, nxt, st):
        if lab == "exc":
            return None
        return effect.get(n.id, st)
    visited, parent = explore(cfg, False, tr)
    return [(cfg.nodes[nid], witness(cfg, parent, (nid, st))) for (nid, st) in sorted(visited)
            if cfg.nodes[nid].kind == "exit" and not st]


# --------------------------------------------------------------------------
# A decision "which value is stored" can be written as a statement if/else with one store per branch, as ONE store
# of a conditional expression, or through a temporary bound on several branches.  _leaves() reduces all three to
# the same thing: a list of (site node, facts established inside the expression, IfExp-free value expression).
def _subst_node(e, target, repl):
    if e is target:
        return repl
    if not isinstance(e, ast.AST):
        return e
    new = copy.copy(e)
    for f, v in ast.iter_fields(e):
        if isinstance(v, list):
            setattr(new, f, [_subst_node(x, target, repl) for x in v])
        elif isinstance(v, ast.AST):
            setattr(new, f, _subst_node(v, target, repl))
    return new


def _inline_locals(fnorm, node, e, depth=8):
    """`e` as evaluated at `node`, with every plain local replaced by the expression it holds there: its single
    reaching definition, itself inlined at the defining node (so `x = f(p); x = x.g(); use(x)` reads use(f(p).g())).
    A parameter stays as its name; a local with several / no followable definitions gets a name no expected form has."""
    if isinstance(e, ast.Name) and isinstance(e.ctx, ast.Load):
        ds = fnorm.rd.get(node.id, {}).get(e.id)
        if not ds:
            return e                            # not a local of this function (module-level name, builtin)
        if ds == frozenset([C.PARAM_DEF]) or set(ds) == {C.PARAM_DEF}:
            return e
        if depth > 0 and len(ds) == 1:
            (d,) = tuple(ds)
            dn = fnorm.cfg.nodes[d]
            v = fnorm._def_value(dn, e.id)
            if v is not None:
                return _inline_locals(fnorm, dn, v, depth - 1)
        return ast.Name(id=e.id + "__unresolved", ctx=ast.Load())
    if not isinstance(e, ast.AST):
        return e
    new = copy.copy(e)
    for f, v in ast.iter_fields(e):
        if isinstance(v, list):
            setattr(new, f, [_inline_locals(fnorm, node, x, depth) for x in v])
        elif isinstance(v, ast.AST):
            setattr(new, f, _inline_locals(fnorm, node, v, depth))
    return new


def _has_ifexp(e):
    return any(isinstance(x, ast.IfExp) for x in own_nodes(e))


def _sure_facts(at, test, pol):
    """Canonical comparisons that certainly hold when `test` evaluates to `pol` (conjunctions are split,
    disjunctions give nothing)."""
    while isinstance(test, ast.UnaryOp) and isinstance(test.op, ast.Not):
        test, pol = test.operand, not pol
    if isinstance(test, ast.BoolOp):
        if isinstance(test.op, ast.And) == pol:
            out = []
            for v in test.values:
                out += _sure_facts(at, v, pol)
            return out
        return []
    ft = at.cmp(test, pol)
    return [ft] if ft else []


def _leaves(fnorm, node, expr, conds=(), depth=6):
    """[(site node, facts, leaf expr)] - every way the value of `expr` at `node` can be chosen."""
    env = fnorm.env_at(node)
    if depth > 0 and isinstance(expr, ast.Name):
        ds = fnorm.rd.get(node.id, {}).get(expr.id)
        if ds and C.PARAM_DEF not in ds and (len(ds) > 1 or expr.id in env.defs):
            vals = [(fnorm.cfg.nodes[d], fnorm._def_value(fnorm.cfg.nodes[d], expr.id)) for d in sorted(ds)]
            if all(v is not None for (_d, v) in vals):
                out = []
                for (dn, v) in vals:
                    out += _leaves(fnorm, dn, v, conds, depth - 1)
                return out
    if depth > 0:
        # a temporary that holds a conditional expression, used inside a larger expression
        for x in own_nodes(expr):
            if isinstance(x, ast.Name) and isinstance(x.ctx, ast.Load) and x is not expr \
                    and x.id in env.defs and _has_ifexp(env.defs[x.id]):
                return _leaves(fnorm, node, _subst_node(expr, x, env.defs[x.id]), conds, depth - 1)
        for x in own_nodes(expr):
            if isinstance(x, ast.IfExp):
                at = fnorm.at(node)
                out = []
                for (pol, branch) in ((True, x.body), (False, x.orelse)):
                    out += _leaves(fnorm, node, _subst_node(expr, x, branch),
                                   tuple(conds) + tuple(_sure_facts(at, x.test, pol)), depth - 1)
                return out
    return [(node, tuple(conds), expr)]


def _not_established(fnorm, cfg, site, conds, ok):
    """[] when a fact accepted by `ok` holds wherever the leaf is chosen (inside the expression or on every CFG
    path to its site); else the witnesses."""
    if any(ok(c) for c in conds):
        return []

    def gate(n, lab):
        ft = fnorm.edge_fact(n, lab)
        return bool(ft) and ok(ft)
    return find_path_avoiding(cfg, lambda x: x is site, gate_edge=gate)


def _fact_str(ft):
    if ft[2] is None:
        return "%s%s (a truthiness test)" % ("not " if ft[0] == "false" else "", ft[1])
    return "%s %s %s" % (ft[1], ft[0], ft[2])


def _guards_about(fnorm, what, conds, w):
    """The tests mentioning `what` under which a leaf is chosen (in-expression facts + the witness path)."""
    fts = [c for c in conds if what in c[1:]]
    if w is not None:
        for (a, lab) in w.path:
            ft = fnorm.edge_fact(a, lab)
            if ft and what in ft[1:]:
                fts.append(ft)
    return fts


# --------------------------------------------------------------------------
# One time slice, followed through the helpers it is split into.  start_slice may do its work itself or hand parts of
# it to other methods of the class (self.<m>(..)); what matters is the sequence of events on every path through the
# whole slice, so the walk descends into every ShareCrawler method that (transitively) contains one of the events.
#   events: the crawl step  self.start_current_prefix(..)   (atomic: may return, may raise TimeSliceExceeded)
#           the save        self.save_state()
#           the re-arm      <reactor>.callLater(.., self.start_slice)   /  the edge that established 'not self.running'
#   state:  (c, a)  c = 0 crawl step not run yet, 1 crawl step stopped (returned or timed out) and nothing saved since,
#                       2 saved after the crawl step stopped;   a = 1 timer re-armed or service seen stopped
#   a function is summarised as  state on entry -> {(how it is left, state)}  with 'ret' (return), 'tse'
#   (TimeSliceExceeded propagates out), 'err:<name>' (an explicit raise / failed assertion propagates out).
TSE = "TimeSliceExceeded"
CRAWL = "start_current_prefix"


class _Slice:
    def __init__(self, idx, ci, root):
        self.idx, self.ci, self.root = idx, ci, root
        self.memo = {}
        self.stack = []
        self._rel = {}
        self.norms = {}
        self.descended = []           # helpers the walk went into, in discovery order

    def catches_tse(self, htype):
        names = C._handler_names(htype)
        if names is None:
            return True
        try:
            anc = {k.name for k in self.idx.cls("storage.crawler:" + TSE).mro()}
        except AnchorVanished:
            anc = set()
        if set(names) & (anc | {TSE, "Exception", "BaseException"}):
            return True
        return None if "?" in names else False

    # -- events
    def is_rearm(self, c):
        return call_tail(c) == "callLater" and len(c.args) >= 2 and attr_path(c.args[1]) == "self." + self.root.name

    def helper_of(self, c):
        nm = call_name(c) or ""
        if nm.startswith("self.") and nm.count(".") == 1:
            return self.ci.lookup(nm.split(".", 1)[1])
        return None

    def atom(self, c):
        nm = call_name(c)
        if nm == "self." + CRAWL:
            return "crawl"
        if nm == "self.save_state":
            return "save"
        if self.is_rearm(c):
            return "rearm"
        return None

    def relevant(self, fn, seen=()):
        """fn (a method of the class) contains an event, directly or through the methods it calls."""
        if fn.qual in self._rel:
            return self._rel[fn.qual]
        if fn.qual in seen:
            return False
        out = False
        for c in calls_in_func(fn):
            if self.atom(c) is not None:
                out = True
                break
            m = self.helper_of(c)
            if m is not None and m.name not in (CRAWL, "save_state") and self.relevant(m, tuple(seen) + (fn.qual,)):
                out = True
                break
        if not out:
            out = any(isinstance(x, ast.Raise) and C._exc_name(x.exc) == TSE for x in func_own_nodes(fn))
        self._rel[fn.qual] = out
        return out

    def event(self, fn, n):
        """The one event of CFG node n: ('crawl'|'save'|'rearm', call) or ('call', call, helper) or None."""
        evs = []
        for c in node_calls(n):
            a = self.atom(c)
            if a is not None:
                evs.append((a, c))
                continue
            m = self.helper_of(c)
            if m is not None and self.relevant(m):
                evs.append(("call", c, m))
        if len(evs) > 1:
            raise AnalysisError("%s: %s does several slice steps in one statement (%s): their order is not decided" % (
                short(fn), src(fn, n.ast), ", ".join(call_name(e[1]) for e in evs)))
        return evs[0] if evs else None

    def functions(self):
        """start_slice and every helper the walk descended into."""
        return [self.root] + self.descended

    # -- the walk
    def summary(self, fn, st0):
        """{(kind, state): (product state, parent map, notes)} for fn entered in state st0."""
        key = (fn.qual, st0)
        if key in self.memo:
            return self.memo[key]
        if fn.qual in self.stack:
            raise AnalysisError("the time slice is recursive (%s calls itself through %s): not decided" % (
                short(fn), " -> ".join(q.split(":")[1] for q in self.stack)))
        if any(isinstance(x, ast.Try) and x.finalbody for x in func_own_nodes(fn)):
            raise AnalysisError("%s uses try/finally: the order of crawl step, save and re-arm on its exception paths is "
                                "not decided" % short(fn))
        if fn is not self.root and fn not in self.descended:
            self.descended.append(fn)
        self.stack.append(fn.qual)
        cfg = fn.cfg()
        fnorm = self.norms.setdefault(fn.qual, FlowNorm(fn))
        # product state: (node, (c, a, env, rv)) - env: the locals known to hold True / False (a flag set in two branches,
        # or bound to what a helper returned), rv: the boolean the function returns when known.  With them a decision the
        # caller takes on a helper's result is paired only with the helper paths that produce that result.
        s0 = (cfg.entry.id, st0 + (frozenset(), None))
        parent = {s0: None}
        notes = {}
        out = {}
        dq = [s0]

        def leave(kind, st, ps):
            out.setdefault((kind, st[:2], st[3] if kind == "ret" else None), (ps, parent, notes))

        def go(cur, d, lab, st, note=None):
            nxt = (d, st)
            if nxt not in parent:
                parent[nxt] = (cur, lab)
                if note:
                    notes[nxt] = note
                dq.append(nxt)

        def throw(cur, n, name, st, note=None):
            """An exception called `name` leaves node n in state st."""
            for (d, lab) in cfg.succ[n.id]:
                if lab != "exc":
                    continue
                dn = cfg.nodes[d]
                if dn.kind == "except":
                    m = self.catches_tse(dn.ast.type) if name == TSE else C._default_exc_match(name, dn.ast.type)
                    if m is None and name == TSE:
                        raise AnalysisError("%s: cannot tell whether 'except %s' catches TimeSliceExceeded" % (
                            short(fn), src(fn, dn.ast.type)))
                    if m is not False:
                        go(cur, d, "exc", st, note)
                    if m is True:
                        return
                elif dn.kind == "raise":
                    break
                else:
                    raise AnalysisError("%s: unexpected exception edge at L%d" % (short(fn), n.lineno))
            ps = cur
            if note:
                ps = (n.id, st, "out")
                parent[ps] = (cur, "exc")
                notes[ps] = note
            leave("tse" if name == TSE else "err:%s" % (name or "?"), st, ps)

        def flag(e, env, ev, val):
            """The boolean expression e certainly has here, or None."""
            if isinstance(e, ast.Constant) and isinstance(e.value, bool):
                return e.value
            if isinstance(e, ast.Name):
                return dict(env).get(e.id)
            if ev is not None and ev[0] == "call" and e is ev[1]:
                return val
            return None

        while dq:
            cur = dq.pop(0)
            nid, st = cur
            n = cfg.nodes[nid]
            if n.kind == "exit":
                leave("ret", st, cur)
                continue
            if n.kind == "raise":
                leave("err:?", st, cur)         # reached through a failed assertion
                continue
            if n.kind == "stmt" and isinstance(n.ast, ast.Raise):
                throw(cur, n, C._exc_name(n.ast.exc), st)
                continue
            ev = self.event(fn, n)
            (c, a, env, rv) = st
            normal = []                         # (c, a, value of the helper call, note) with which the node is left normally
            if ev is None:
                normal.append((c, a, None, None))
            elif ev[0] == "crawl":
                normal.append((1, a, None, None))
                throw(cur, n, TSE, (1, a, env, rv))
            elif ev[0] == "save":
                normal.append((2 if c >= 1 else c, a, None, None))
            elif ev[0] == "rearm":
                normal.append((c, 1, None, None))
            else:
                m = ev[2]
                for (kind, st2, val) in sorted(self.summary(m, (c, a)), key=repr):
                    (ps, par, nts) = self.memo[(m.qual, (c, a))][(kind, st2, val)]
                    note = _Note("%s: %s" % (m.name, _ip_brief(m.cfg(), par, nts, ps)))
                    note.step = (m, (c, a), kind, st2, val)
                    if kind == "ret":
                        normal.append((st2[0], st2[1], val, note))
                    else:
                        throw(cur, n, TSE if kind == "tse" else (kind.split(":", 1)[1] if kind != "err:?" else None),
                              st2 + (env, rv), note)
            for (c2, a2, val, note) in normal:
                env2, rv2 = env, rv
                stored = {x for x in node_stores(n) if "." not in x and not x.endswith("[]")}
                if stored:
                    env2 = frozenset((k, v) for (k, v) in env if k not in stored)
                    if n.kind == "stmt" and isinstance(n.ast, ast.Assign) and len(n.ast.targets) == 1 \
                            and isinstance(n.ast.targets[0], ast.Name):
                        v = flag(n.ast.value, env, ev, val)
                        if v is not None:
                            env2 = env2 | {(n.ast.targets[0].id, v)}
                if n.kind == "stmt" and isinstance(n.ast, ast.Return):
                    rv2 = flag(n.ast.value, env, ev, val) if n.ast.value is not None else None
                for (d, lab) in cfg.succ[nid]:
                    if lab == "exc":
                        continue
                    if n.kind == "test" and isinstance(lab, tuple) and lab[0] in ("T", "F"):
                        v = flag(n.ast, env, ev, val)
                        if v is not None and v != (lab[0] == "T"):
                            continue                # this branch is not taken with that flag
                    a3 = a2
                    if fnorm.edge_fact(n, lab) == ("false", "self.running", None):
                        a3 = 1
                    go(cur, d, lab, (c2, a3, env2, rv2), note)
        self.stack.pop()
        self.memo[key] = out
        return out


class _Note(str):
    step = None       # (helper, state on entry, how it was left, state then)


def _unsaved_in(sl, fn, st0, key):
    """The function to name for a path that leaves fn with the crawl step unsaved: the innermost helper on the path that
    was entered before the crawl step, came back unsaved, and does save on other paths of its own (a 'crawl and save'
    helper with a leak); fn itself when there is none."""
    (ps, par, nts) = sl.summary(fn, st0)[key]
    for (cur, _lab) in _ip_path(fn.cfg(), par, ps):
        step = getattr(nts.get(cur), "step", None)
        if step is not None:
            (m, st_in, kind, st_out, val) = step
            if kind == "ret" and st_in[0] == 0 and st_out[0] == 1 and any(
                    k == "ret" and s2[0] == 2 for (k, s2, _v) in sl.summary(m, st_in)):
                return _unsaved_in(sl, m, st_in, (kind, st_out, val))
    return fn


def short_q(fn):
    """module-relative qualified name in the form idx.func / callers_outside take ("storage.crawler:Cls.meth")."""
    q = fn.qual
    return q[len("allmydata."):] if q.startswith("allmydata.") else q


def _ip_path(cfg, parent, ps):
    path = []
    cur, lab_out = ps, None
    while cur is not None:
        path.append((cur, lab_out))
        p = parent[cur]
        if p is None:
            break
        cur, lab_out = p
    path.reverse()
    return path


def _ip_witness(cfg, parent, ps):
    return C.Witness([(cfg.nodes[cur[0]], lab) for (cur, lab) in _ip_path(cfg, parent, ps) if len(cur) == 2])


def _ip_brief(cfg, parent, notes, ps):
    """The path as line numbers, with the way each helper on it was passed in brackets."""
    out = []
    for (cur, lab) in _ip_path(cfg, parent, ps):
        n = cfg.nodes[cur[0]]
        if cur in notes:
            out.append("[%s]" % notes[cur])
        if len(cur) != 2 or n.kind == "entry":
            continue
        if n.kind in ("exit", "raise"):
            out.append("return" if n.kind == "exit" else "raise")
            continue
        s = "L%d" % n.lineno
        if isinstance(lab, tuple):
            s += lab[0]
        elif lab in ("exc", "iter", "done"):
            s += "/" + lab
        out.append(s)
    return " -> ".join(out)


# --------------------------------------------------------------------------
def run(ctx: Context):
    idx = ctx.idx
    pp = idx.func(SC + ".process_prefixdir")
    sc = idx.func(SC + ".start_current_prefix")
    ss = idx.func(SC + ".start_slice")

    # ---- shared anchors: process_prefixdir
    pcfg = pp.cfg()
    pn = FlowNorm(pp)
    pparams = first_positional_params(pp)
    if len(pparams) < 5:
        raise AnchorVanished("process_prefixdir signature changed: %s" % pparams)
    P_CYCLE, P_PREFIX, P_DIR, P_BUCKETS, P_START = pparams[:5]
    pwork = _one(pcfg.find(has_call_named("self.process_bucket")), "self.process_bucket call in process_prefixdir")
    # the bucket loop is known by its role (the loop around process_bucket), not by its spelling: B is the local holding
    # the bucket of the iteration, pbind the statement that takes it out of the list in an indexed loop, pstart / pstop
    # the part of the list that is walked (None: from the beginning / to the end) - decided by C27.7
    phead, B, pbind, pstart, pstop = _bucket_loop(pp, pcfg, pn, pwork, P_BUCKETS)
    BN = lambda n: pn.norm(n, ast.Name(id=B, ctx=ast.Load()))       # B as the edge facts at n spell it
    pmark = _one(pcfg.find(_state_store(pn, "last-complete-bucket")), "store of state['last-complete-bucket'] in process_prefixdir")

    # ---- shared anchors: start_current_prefix
    ccfg = sc.cfg()
    cn = FlowNorm(sc)
    chead = _one([n for n in ccfg.nodes if n.kind == "iter" and isinstance(n.ast.iter, ast.Call)
                  and call_name(n.ast.iter) == "range" and isinstance(n.ast.target, ast.Name)],
                 "range loop over the prefixes in start_current_prefix")
    I = chead.ast.target.id
    cwork = _one(ccfg.find(has_call_named("self.process_prefixdir")), "self.process_prefixdir call in start_current_prefix")
    cmark = _one([n for n in ccfg.find(stores("self.last_complete_prefix_index")) if _inside(chead.ast, n.ast)],
                 "store of last_complete_prefix_index inside the prefix loop")

    # -- 1. progress markers -------------------------------------------------
    with ctx.rule("C27.1", "R1/R2", "progress markers: last-complete-bucket after process_bucket and before the "
                  "time-slice test; last_complete_prefix_index after process_prefixdir; loops are left only by "
                  "exhaustion or TimeSliceExceeded", expected=4) as r:
        r.site(pp, pwork.ast, "process_bucket")
        r.site(pp, pmark.ast, "marker last-complete-bucket")
        c = calls_at(pwork, "process_bucket")[0]
        a = arg(c, 3, "storage_index_b32")
        r.require(isinstance(a, ast.Name) and a.id == B and _inside(phead.ast, pwork.ast), pp, pp.loc(c),
                  "process_bucket is given %s, not the bucket of this iteration (%s)" % (src(pp, a) if a is not None else None, B))
        for k, want in ((0, P_CYCLE), (1, P_PREFIX), (2, P_DIR)):
            ak = arg(c, k)
            r.require(isinstance(ak, ast.Name) and ak.id == want, pp, pp.loc(c),
                      "process_bucket argument %d is %s, expected %s" % (k, src(pp, ak) if ak is not None else None, want))
        mv = _sub_store(pn, pmark)[2]
        r.require(isinstance(mv, ast.Name) and mv.id == B and _inside(phead.ast, pmark.ast), pp, pp.loc(pmark.ast),
                  "last-complete-bucket is set to %s, not to the bucket just processed (%s)" % (src(pp, mv), B))
        _loop_rules(r, pp, pcfg, phead, pwork, pmark, "process_bucket", "last-complete-bucket")
        # no store to the loop variable inside the loop
        loop_names = {B} | {t.id for t in ast.walk(phead.ast.target) if isinstance(t, ast.Name)}
        for n in pcfg.nodes:
            if n is not phead and n is not pbind and n.kind not in ("entry", "exit", "raise"):
                for nm in sorted(loop_names & set(node_stores(n))):
                    r.violation(pp, pp.loc(n.ast), "the %s %s is re-bound inside the loop" % (
                        "bucket variable" if nm == B else "loop variable", nm))
        if pbind is not None:
            # an indexed loop: the bucket is taken out of the list before anything in the iteration looks at it
            for (n, w) in find_path_avoiding(pcfg, lambda n: n is not pbind and n is not phead and _inside(phead.ast, n.ast)
                                             and B in _node_loads(n), gate_node=lambda n: n is pbind, kill=lambda n: n is phead):
                r.violation(pp, pp.loc(n.ast), "%s is read before it was taken from the bucket list in this iteration: the "
                            "previous iteration's bucket is tested / processed again (path: %s)" % (B, w.brief()), w)
        # prefix level
        r.site(sc, cwork.ast, "process_prefixdir")
        r.site(sc, cmark.ast, "marker last_complete_prefix_index")
        c = calls_at(cwork, "process_prefixdir")[0]
        want_prefix = norm_src("self.prefixes[%s]" % I)
        got_prefix = cn.norm(cwork, arg(c, 1, "prefix"))
        r.require(got_prefix == want_prefix and _inside(chead.ast, cwork.ast), sc, sc.loc(c),
                  "process_prefixdir is given prefix %s, expected %s" % (got_prefix, want_prefix))
        got_dir = cn.norm(cwork, arg(c, 2, "prefixdir"))
        r.require(got_dir == norm_src("os.path.join(self.sharedir, self.prefixes[%s])" % I), sc, sc.loc(c),
                  "process_prefixdir is given directory %s" % got_dir)
        mv = assign_value(cmark, "self.last_complete_prefix_index")
        r.require(isinstance(mv, ast.Name) and mv.id == I, sc, sc.loc(cmark.ast),
                  "last_complete_prefix_index is set to %s, not to the index just processed (%s)" % (src(sc, mv), I))
        _loop_rules(r, sc, ccfg, chead, cwork, cmark, "process_prefixdir", "last_complete_prefix_index")
        for n in ccfg.nodes:
            if n is not chead and I in node_stores(n):
                r.violation(sc, sc.loc(n.ast), "the prefix index %s is re-bound inside the loop" % I)

    # -- 2. resume predicate ---------------------------------------------------
    with ctx.rule("C27.2", "R3", "resume: a bucket is processed iff last-complete-bucket is None or < bucket, skipped "
                  "only under bucket <= last-complete-bucket; sorted buckets (or the cache entry of this prefix "
                  "index), sorted prefixes, loop from last_complete_prefix_index+1; index<->prefix mapping in "
                  "load_state/save_state", expected=11) as r:
        LC = norm_src("self.state['last-complete-bucket']")

        def go(n, lab):
            ft = pn.edge_fact(n, lab)
            if not ft:
                return False
            return (ft[0] == "is" and set(ft[1:]) == {"None", LC}) or (ft[0] == "<" and ft[1] == LC and ft[2] == BN(n))

        def skip(n, lab):
            ft = pn.edge_fact(n, lab)
            return bool(ft) and ft[0] == "<=" and ft[1] == BN(n) and ft[2] == LC
        r.site(pp, pwork.ast, "processed iff not already complete")
        for (n, w) in find_path_avoiding(pcfg, lambda n: n is pwork, gate_edge=go, kill=lambda n: n is phead):
            r.violation(pp, pp.loc(n.ast), "a bucket is processed on a path that established neither last-complete-bucket "
                        "is None nor last-complete-bucket < %s: completed buckets are repeated after a resume "
                        "(path: %s)" % (B, w.brief()), w)

        def tr(n, lab, nxt, st):
            if lab == "exc":
                return None
            started, ok = st
            if n is phead:
                if started or lab != "iter":
                    return None
                return (True, False)
            if n is pwork or skip(n, lab):
                ok = True
            return (started, ok)
        visited, parent = explore(pcfg, (False, False), tr, start=phead)
        r.count(len(visited))
        r.site(pp, phead.ast, "skipped only when already complete")
        for (nid, st) in sorted(visited):
            if nid == phead.id and st == (True, False):
                w = witness(pcfg, parent, (nid, st))
                r.violation(pp, pp.loc(phead.ast), "a bucket can be passed over without process_bucket although "
                            "%s <= last-complete-bucket was not established: the bucket is not covered in this cycle "
                            "(path: %s)" % (B, w.brief()), w)
        # -- bucket list of prefix i: listed and sorted, or the cache entry keyed by i
        lst = [n for n in ccfg.nodes if n.kind == "stmt" and isinstance(n.ast, ast.Assign)
               and contains_call(n.ast.value, "listdir")]
        lst = _one(lst, "os.listdir(prefixdir) assignment in start_current_prefix")
        c = calls_at(cwork, "process_prefixdir")[0]
        bv = arg(c, 3, "buckets")
        if not isinstance(bv, ast.Name):
            raise AnchorVanished("process_prefixdir is no longer given a local bucket list")
        BV = bv.id
        r.site(sc, lst.ast, "listdir + sort")
        r.require(BV in node_stores(lst), sc, sc.loc(lst.ast), "the listing is not what is passed to process_prefixdir")
        la = contains_call(lst.ast.value, "listdir")[0]
        r.require(cn.norm(lst, arg(la, 0)) == norm_src("os.path.join(self.sharedir, self.prefixes[%s])" % I), sc,
                  sc.loc(la), "lists %s, not the directory of prefix %s" % (cn.norm(lst, arg(la, 0)), I))
        sorted_already = isinstance(lst.ast.value, ast.Call) and call_name(lst.ast.value) == "sorted"

        def sorts(n):
            return any(call_name(x) == BV + ".sort" and not x.args and not x.keywords for x in node_calls(n))
        if not sorted_already:
            for (s, w) in find_path_from_to_avoiding(ccfg, lambda n: n is lst, gate_node=sorts,
                                                     ends=lambda n: n is cwork or n.kind == "exit"):
                r.violation(sc, sc.loc(lst.ast), "the bucket listing reaches process_prefixdir unsorted: the "
                            "'bucket <= last-complete-bucket' resume test skips or repeats buckets (path: %s)" % w.brief(), w)

        def from_cache(n, lab):
            ft = cn.edge_fact(n, lab)
            return bool(ft) and ft[0] == "==" and set(ft[1:]) == {I, "self.bucket_cache[0]"}
        r.site(sc, cwork.ast, "bucket list is this prefix's")
        for (n, w) in find_path_avoiding(ccfg, lambda n: n is cwork, gate_node=lambda n: n is lst, gate_edge=from_cache,
                                         kill=lambda n: n is chead):
            # the only other admissible source: the listing failed (empty list in the handler)
            if any(a.kind == "except" for (a, _l) in w.path):
                continue
            r.violation(sc, sc.loc(n.ast), "process_prefixdir gets a bucket list that was neither listed for prefix index "
                        "%s nor taken from the cache entry with that index (path: %s)" % (I, w.brief()), w)
        for (n, w) in find_path_avoiding(ccfg, lambda n: n is cwork, gate_node=stores(BV), kill=lambda n: n is chead):
            r.violation(sc, sc.loc(n.ast), "process_prefixdir can be reached with a bucket list (%s) that was not bound in "
                        "this iteration: the previous prefix's list is reused (path: %s)" % (BV, w.brief()), w)
        # after a failed listing the handler rebinds the list (to nothing) before it is cached / used
        for h in [x for x in ccfg.nodes if x.kind == "except" and _inside(chead.ast, x.ast)]:
            for (s0, w) in find_path_from_to_avoiding(ccfg, lambda x, _h=h: x is _h, gate_node=stores(BV),
                                                      ends=lambda x: x is cwork or stores("self.bucket_cache")(x)):
                r.violation(sc, sc.loc(h.ast), "after a failed listing the stale bucket list %s is used" % BV, w)
        cache_reads = [n for n in ccfg.nodes if n.kind == "stmt" and BV in node_stores(n) and n is not lst
                       and not (isinstance(n.ast, ast.Assign) and isinstance(n.ast.value, ast.List) and not n.ast.value.elts)]
        for n in cache_reads:
            v = assign_value(n, BV)
            r.require(v is not None and cn.norm(n, v) == "self.bucket_cache[1]", sc, sc.loc(n.ast),
                      "bucket list taken from %s" % (src(sc, v) if v is not None else "?"))
            for (t, w) in find_path_avoiding(ccfg, lambda x, _n=n: x is _n, gate_edge=from_cache, kill=lambda x: x is chead):
                r.violation(sc, sc.loc(n.ast), "the cached bucket list is used without checking that it belongs to "
                            "prefix index %s" % I, w)
        cg = get_callgraph(idx)
        for (f, nd) in cg.attr_stores("bucket_cache"):
            if f.cls is None or not f.cls.is_subclass_of("ShareCrawler"):
                continue
            stn = [n for n in f.cfg().find(stores("self.bucket_cache"))]
            for n in stn:
                v = assign_value(n, "self.bucket_cache")
                r.site(f, n.ast, "cache store")
                ok = isinstance(v, ast.Tuple) and len(v.elts) == 2
                if ok and f is sc:
                    ok = isinstance(v.elts[0], ast.Name) and v.elts[0].id == I and isinstance(v.elts[1], ast.Name) \
                        and v.elts[1].id == BV
                    if ok and not sorted_already:
                        # cached only after sorting
                        for (t, w) in find_path_avoiding(ccfg, lambda x, _n=n: x is _n, gate_node=sorts,
                                                         kill=lambda x: x is chead):
                            if any(a.kind == "except" for (a, _l) in w.path):
                                continue
                            r.violation(sc, sc.loc(n.ast), "an unsorted listing is cached", w)
                elif ok:
                    ok = _is_none(v.elts[0])
                r.require(ok, f, f.loc(n.ast), "bucket_cache is set to %s" % (src(f, v) if v is not None else "?"))
        # -- prefix order
        want_range = norm_src("range(self.last_complete_prefix_index + 1, len(self.prefixes))")
        r.site(sc, chead.ast.iter, "prefix range")
        r.require(cn.norm(chead, chead.ast.iter) == want_range, sc, sc.loc(chead.ast.iter),
                  "the prefix loop runs over %s, expected %s" % (cn.norm(chead, chead.ast.iter), want_range))
        init = idx.func(SC + ".__init__")
        icfg = init.cfg()
        pst = icfg.find(stores("self.prefixes"))
        if not pst:
            raise AnchorVanished("ShareCrawler.__init__ no longer builds self.prefixes")
        r.site(init, pst[-1].ast, "prefixes sorted")
        for (s, w) in find_path_from_to_avoiding(
                icfg, stores("self.prefixes"),
                gate_node=lambda n: has_call_named("self.prefixes.sort")(n) or (
                    stores("self.prefixes")(n) and isinstance(assign_value(n, "self.prefixes"), ast.Call)
                    and call_name(assign_value(n, "self.prefixes")) == "sorted")):
            if isinstance(assign_value(s, "self.prefixes"), ast.Call) and call_name(assign_value(s, "self.prefixes")) == "sorted":
                continue
            r.violation(init, init.loc(s.ast), "self.prefixes is left unsorted: last_complete_prefix_index and the bucket "
                        "comparison assume ascending prefixes", w)
        # the prefix table itself (compat-frozen): every 10-bit prefix, as the two leading base32 characters
        want_tab = [norm_src('[si_b2a(struct.pack(">H", i << (16-10)))[:2] for i in range(2**10)]'),
                    norm_src('[p.decode("ascii") for p in self.prefixes]')]
        got_tab = [FlowNorm(init).norm(n, assign_value(n, "self.prefixes")) for n in pst]
        r.site(init, pst[0].ast, "prefix table")
        r.require(got_tab == want_tab, init, init.loc(pst[0].ast), "the prefix table is built as %s; expected the 1024 "
                  "two-character prefixes %s - shares in a missing prefix directory are never visited" % (got_tab, want_tab))
        sd = idx.func("storage.common:storage_index_to_dir")
        rets = sd.cfg().find(is_return)
        sdn = FlowNorm(sd)
        sd_p = first_positional_params(sd)
        if len(sd_p) != 1:
            raise AnchorVanished("storage_index_to_dir(storageindex) signature changed: %s" % sd_p)
        # the returned path with every local replaced by what it holds there (whatever the locals are called, however
        # often one name is re-bound): it must be join(<b32>[:2], <b32>) with <b32> = si_b2a(<parameter>).decode('ascii')
        want_dir = norm_src("os.path.join(si_b2a({0}).decode('ascii')[:2], si_b2a({0}).decode('ascii'))".format(sd_p[0]))
        got_dir = [norm_plain(_inline_locals(sdn, n, n.ast.value)) if n.ast.value is not None else "None" for n in rets]
        r.require(got_dir == [want_dir], sd, sd.loc(),
                  "storage_index_to_dir no longer files a share under the first two base32 characters of its storage index "
                  "(returns %s)" % ", ".join(got_dir))
        # load_state must come after the prefixes exist and are sorted
        for (n, w) in find_path_avoiding(icfg, has_call_named("self.load_state"),
                                         gate_node=has_call_named("self.prefixes.sort")):
            if not any(isinstance(assign_value(x, "self.prefixes"), ast.Call) and
                       call_name(assign_value(x, "self.prefixes")) == "sorted" for x in pst):
                r.violation(init, init.loc(n.ast), "load_state runs before self.prefixes is sorted", w)
        for (f, nd) in cg.attr_stores("prefixes"):
            if f.cls is not None and f.cls.is_subclass_of("ShareCrawler") and f is not init \
                    and not f.module.name.startswith("allmydata.test"):
                r.violation(f, f.loc(nd), "%s re-binds self.prefixes" % short(f))
        for m in idx.cls(SC).methods.values():
            for c2 in calls_in_func(m):
                if call_name(c2).startswith("self.prefixes.") and call_tail(c2) in (
                        "sort", "reverse", "append", "insert", "pop", "remove", "extend", "clear") and m is not init:
                    r.violation(m, m.loc(c2), "%s mutates self.prefixes" % short(m))
        # -- index <-> name mapping
        ls = idx.func(SC + ".load_state")
        lcfg = ls.cfg()
        ln = FlowNorm(ls)
        MINUS1 = norm_src("-1")
        lst_nodes = lcfg.find(stores("self.last_complete_prefix_index"))
        lleaves = [(n, site, conds, leaf) for n in lst_nodes
                   for (site, conds, leaf) in _leaves(ln, n, assign_value(n, "self.last_complete_prefix_index"))]
        if len(lleaves) < 2:
            raise AnchorVanished("load_state no longer sets last_complete_prefix_index on both branches")
        r.site(ls, lst_nodes[0].ast, "load: prefix name -> index")

        def lcp_none(pol):
            def g(ft):
                if "None" not in ft[1:]:
                    return False
                other = [x for x in ft[1:] if x != "None"]
                return ft[0] in (("is", "==") if pol else ("is not", "!=")) and len(other) == 1 \
                    and other[0].endswith("['last-complete-prefix']")
            return g
        for (n, site, conds, leaf) in lleaves:
            v = ln.at(site).norm(leaf)
            if v == MINUS1:
                bad = _not_established(ln, lcfg, site, conds, lcp_none(True))
                msg = "last_complete_prefix_index = -1 although a last-complete-prefix was saved"
            elif re.match(r"^self\.prefixes\.index\(.*\['last-complete-prefix'\]\)$", v):
                bad = _not_established(ln, lcfg, site, conds, lcp_none(False))
                msg = "prefix index looked up although last-complete-prefix is None"
            else:
                r.violation(ls, ls.loc(site.ast), "on load last_complete_prefix_index is set to %s (expected -1 or "
                            "self.prefixes.index(<saved last-complete-prefix>))" % v)
                continue
            for (t, w) in bad:
                r.violation(ls, ls.loc(site.ast), msg, w)
        sv = idx.func(SC + ".save_state")
        scfg = sv.cfg()
        sn = FlowNorm(sv)
        smark = _one(scfg.find(_state_store(sn, "last-complete-prefix")), "store of state['last-complete-prefix'] in save_state")
        r.site(sv, smark.ast, "save: index -> prefix name")
        val = _sub_store(sn, smark)[2]
        IDX = "self.last_complete_prefix_index"

        def idx_is_m1(pol):
            def g(ft):
                if ft[0] == ("==" if pol else "!=") and set(ft[1:]) == {MINUS1, IDX}:
                    return True
                # the index is an integer >= -1: 'index < 0' is the same test as 'index == -1'
                if pol:
                    return ft in (("<", IDX, "0"), ("<=", IDX, MINUS1))
                return ft in (("<=", "0", IDX), ("<", MINUS1, IDX))
            return g
        sleaves = _leaves(sn, smark, val)
        if len(sleaves) < 2:
            raise AnchorVanished("save_state no longer chooses between None and the prefix name for last-complete-prefix")
        for (site, conds, leaf) in sleaves:
            if _is_none(leaf):
                for (t, w) in _not_established(sn, scfg, site, conds, idx_is_m1(True)):
                    r.violation(sv, sv.loc(site.ast), "last-complete-prefix is saved as None although a prefix was completed", w)
            elif sn.at(site).norm(leaf) == "self.prefixes[%s]" % IDX:
                for (t, w) in _not_established(sn, scfg, site, conds, idx_is_m1(False)):
                    r.violation(sv, sv.loc(site.ast), "prefix name looked up for index -1", w)
            else:
                r.violation(sv, sv.loc(site.ast), "last-complete-prefix is saved as %s (expected self.prefixes[%s] or "
                            "None)" % (sn.at(site).norm(leaf), IDX))

    # -- 3. state is saved; the crawler keeps going ----------------------------------
    with ctx.rule("C27.3", "R2", "start_slice, followed through the helpers it calls, saves the state after the crawl step on "
                  "the normal and on the TimeSliceExceeded exit and re-arms its timer unless stopped; stopService and the end of a cycle save; save_state writes "
                  "get_state() through the serializer; only start_slice enters start_current_prefix; the lease "
                  "crawler inherits the traversal", expected=7) as r:
        # the slice is followed through the helpers start_slice hands parts of it to (see _Slice)
        sc_cls3 = idx.cls(SC)
        sl = _Slice(idx, sc_cls3, ss)
        outcomes = sl.summary(ss, (0, 0))
        slice_fns = sl.functions()
        scfg2 = ss.cfg()
        crawl_sites = [(f, n) for f in slice_fns for n in f.cfg().find(has_call_named("self." + CRAWL))]
        if len(crawl_sites) != 1:
            raise AnchorVanished("expected exactly one self.start_current_prefix call in start_slice%s, found %d" % (
                " and the helpers it calls (%s)" % ", ".join(f.name for f in slice_fns[1:]) if slice_fns[1:] else "",
                len(crawl_sites)))
        (crawl_fn, call_n) = crawl_sites[0]
        r.site(crawl_fn, call_n.ast, "traversal call")
        c = calls_at(call_n, CRAWL)[0]
        save = has_call_named("self.save_state")
        for f in slice_fns:
            for n in f.cfg().find(save):
                r.site(f, n.ast, "save_state")
        n_states = 0
        for (fq, _st0), outs in sl.memo.items():
            for (_k, (ps, par, _n)) in outs.items():
                n_states = max(n_states, len(par))
        r.count(sum(len(f.cfg().nodes) for f in slice_fns) + n_states)

        def where(kind_st):
            (ps, par, nts) = outcomes[kind_st]
            return _ip_brief(scfg2, par, nts, ps), _ip_witness(scfg2, par, ps)
        via = (" (followed through %s)" % ", ".join(f.name for f in slice_fns[1:])) if slice_fns[1:] else ""
        for (kind, st, val) in sorted(outcomes, key=repr):
            (cst, armed) = st
            brief, w = where((kind, st, val))
            if kind == "tse":
                r.violation(crawl_fn, crawl_fn.loc(c), "TimeSliceExceeded raised by the traversal is not caught in start_slice%s: "
                            "the slice ends without saving and without re-arming the timer (path: %s)" % (via, brief), w)
                continue
            if kind.startswith("err"):
                if cst >= 1:
                    r.violation(ss, ss.loc(), "after the crawl step stopped start_slice%s can raise %s instead of saving the state "
                                "and re-arming the timer (path: %s)" % (via, kind.split(":", 1)[1], brief), w)
                continue
            if cst == 1:
                timed_out = "/exc" in brief
                bf = _unsaved_in(sl, ss, (0, 0), (kind, st, val))
                r.violation(bf, bf.loc(), "start_slice%s can finish %swithout save_state() after the crawl step stopped: "
                            "the progress of the slice is lost when the process dies before a later save, the buckets of this "
                            "slice are processed again after the restart (path: %s)" % (
                                via, "a slice that ran out of time (TimeSliceExceeded) " if timed_out else "", brief), w)
            if not armed:
                r.violation(ss, ss.loc(), "start_slice%s can return while the service is running without scheduling the next "
                            "slice: the cycle never completes (path: %s)" % (via, brief), w)

        def rearm(n):
            return any(sl.is_rearm(c2) for c2 in node_calls(n))
        for f in slice_fns:
            for n in f.cfg().find(rearm):
                r.site(f, n.ast, "re-arm")
        # stopService / startService
        st = idx.func(SC + ".stopService")
        for n in st.cfg().find(save):
            r.site(st, n.ast, "save_state")
        for (n, w) in find_path_avoiding(st.cfg(), lambda n: n.kind == "exit", gate_node=save):
            r.violation(st, st.loc(), "stopService can return without save_state()", w)
        sta = idx.func(SC + ".startService")
        r.site(sta, None, "first slice scheduled")
        for (n, w) in find_path_avoiding(sta.cfg(), lambda n: n.kind == "exit", gate_node=rearm):
            r.violation(sta, sta.loc(), "startService does not schedule start_slice", w)
        # (the end of a cycle is saved by the save_state() that follows the traversal call in start_slice)
        # save_state -> serializer.save(self.get_state()) after the prefix name is stored
        sv = idx.func(SC + ".save_state")
        vcfg = sv.cfg()
        vn = FlowNorm(sv)
        wr = _one(vcfg.find(has_call_named("self._state_serializer.save")), "self._state_serializer.save call in save_state")
        r.site(sv, wr.ast, "serializer.save")
        c = calls_at(wr, "save")[0]
        r.require(len(c.args) == 1 and vn.norm(wr, c.args[0]) in ("self.get_state()", "self.state", "self.state.copy()"),
                  sv, sv.loc(c), "save_state writes %s, not the crawler state" % src(sv, c))
        for (n, w) in find_path_avoiding(vcfg, lambda n: n is wr, gate_node=_state_store(vn, "last-complete-prefix")):
            r.violation(sv, sv.loc(n.ast), "the state is written before last-complete-prefix is updated", w)
        for (n, w) in find_path_avoiding(vcfg, lambda n: n.kind == "exit", gate_node=lambda n: n is wr):
            r.violation(sv, sv.loc(), "save_state can return without writing", w)
        gs = idx.func(SC + ".get_state")
        rets = gs.cfg().find(is_return)
        gnrm = FlowNorm(gs)
        for n in rets:
            r.require(n.ast.value is not None and gnrm.norm(n, n.ast.value) in ("self.state.copy()", "self.state",
                                                                               "dict(self.state)"),
                      gs, gs.loc(n.ast), "ShareCrawler.get_state returns %s" % src(gs, n.ast.value))
        init = idx.func(SC + ".__init__")
        ser = [n for n in init.cfg().find(stores("self._state_serializer"))]
        r.require(len(ser) == 1 and isinstance(assign_value(ser[0], "self._state_serializer"), ast.Call) and
                  call_name(assign_value(ser[0], "self._state_serializer")) == "_LeaseStateSerializer" and
                  attr_path(arg(assign_value(ser[0], "self._state_serializer"), 0)) == first_positional_params(init)[1],
                  init, init.loc(), "self._state_serializer is not _LeaseStateSerializer(statefile)")
        # load_state: self.state is what the serializer returned (or the fresh default when there is none)
        ls = idx.func(SC + ".load_state")
        lcfg = ls.cfg()
        loads = [n for n in lcfg.nodes if n.kind == "stmt" and isinstance(n.ast, ast.Assign)
                 and isinstance(n.ast.value, ast.Call) and call_name(n.ast.value) == "self._state_serializer.load"
                 and len(n.ast.targets) == 1 and isinstance(n.ast.targets[0], ast.Name)]
        ld = _one(loads, "<state> = self._state_serializer.load() in load_state")
        sv_name = ld.ast.targets[0].id
        sst = _one(lcfg.find(stores("self.state")), "store of self.state in load_state")
        r.site(ls, ld.ast, "state loaded")
        v = assign_value(sst, "self.state")
        r.require(isinstance(v, ast.Name) and v.id == sv_name, ls, ls.loc(sst.ast),
                  "self.state is bound to %s, not to the loaded state %s" % (src(ls, v) if v is not None else "?", sv_name))
        for (n, w) in find_path_avoiding(lcfg, lambda x: x is sst, gate_node=lambda x: x is ld):
            if any(a.kind == "except" for (a, _l) in w.path):
                continue
            r.violation(ls, ls.loc(sst.ast), "self.state is set without reading the saved state", w)
        handler_stmts = [x for t in func_own_nodes(ls) if isinstance(t, ast.Try) for h in t.handlers
                         for st in h.body for x in own_nodes(st)]
        for n in lcfg.nodes:
            if n.kind == "stmt" and sv_name in node_stores(n) and n is not ld \
                    and not any(x is n.ast for x in handler_stmts):
                r.violation(ls, ls.loc(n.ast), "the loaded state is replaced outside the no-saved-state handler: %s" % src(ls, n.ast))
        # startService marks the service running (start_slice re-arms only while self.running)
        sta_up = [c2 for c2 in calls_in_func(sta, "startService") if call_name(c2).endswith("MultiService.startService")
                  or call_name(c2).startswith("super")]
        r.require(bool(sta_up), sta, sta.loc(), "startService does not call MultiService.startService: self.running stays "
                  "false and start_slice never schedules a second slice")
        if sta_up:
            upn = [n for n in sta.cfg().nodes if any(c2 is sta_up[0] for c2 in node_calls(n))][0]
            for (n, w) in find_path_avoiding(sta.cfg(), lambda n: n.kind == "exit", gate_node=lambda n: n is upn):
                r.violation(sta, sta.loc(), "startService can return without MultiService.startService", w)
        # who may enter the traversal
        slice_quals = [short_q(f) for f in slice_fns]
        bad, badrefs, total = callers_outside(idx, CRAWL, slice_quals)
        for cs in bad:
            if not cs.fn.module.name.startswith("allmydata.test"):
                r.violation(cs.fn, cs.loc, "%s calls start_current_prefix outside start_slice: its progress is not saved" % short(cs.fn))
        # a helper of the slice is an entry into the traversal as well: who else calls it must get the same guarantee
        for h in slice_fns[1:]:
            leaks = [k for k in sl.summary(h, (0, 0)) if k[1][0] == 1]
            if not leaks:
                continue
            bad, badrefs, total = callers_outside(idx, h.name, slice_quals)
            for cs in bad:
                if not cs.fn.module.name.startswith("allmydata.test"):
                    r.violation(cs.fn, cs.loc, "%s calls %s outside start_slice: that helper can run the crawl step and "
                                "return without save_state(), its progress is not saved" % (short(cs.fn), h.name))
        # subclasses inherit the traversal and bookkeeping
        frozen = ("start_current_prefix", "start_slice", "save_state", "load_state", "stopService", "startService") \
            + tuple(h.name for h in slice_fns[1:])
        for ci in idx.subclasses(idx.cls(SC)):
            if ci.module.name.startswith("allmydata.test"):
                continue
            for m in frozen + (("process_prefixdir", "get_progress") if ci.name == "LeaseCheckingCrawler" else ()):
                if m in ci.methods:
                    r.violation(ci.methods[m], ci.methods[m].loc(), "%s overrides ShareCrawler.%s" % (ci.name, m))
            # subclasses that keep process_prefixdir must not touch the markers
            for m in ci.methods.values():
                mn = FlowNorm(m)
                for n in m.cfg().nodes:
                    s = _sub_store(mn, n)
                    if s and s[0] == "self.state" and s[1] in ("last-complete-bucket", "last-complete-prefix",
                                                               "current-cycle", "last-cycle-finished"):
                        r.violation(m, m.loc(n.ast), "%s writes the crawler bookkeeping key %r" % (short(m), s[1]))
                    if "self.last_complete_prefix_index" in node_stores(n):
                        r.violation(m, m.loc(n.ast), "%s writes last_complete_prefix_index" % short(m))

    # -- 4. atomic replacement of the state file -----------------------------------------
    with ctx.rule("C27.4", "R1", "_LeaseStateSerializer.save writes a sibling temporary file and moves it into place "
                  "(os.rename); load reads the same path", expected=3) as r:
        f = idx.func(SER + ".save")
        cfg = f.cfg()
        fnm = FlowNorm(f)
        dump = _one(cfg.find(has_call("_dump_json_to_file")), "_dump_json_to_file call in _LeaseStateSerializer.save")
        moves = cfg.find(has_call("move_into_place"))
        r.site(f, dump.ast, "write temporary")
        dc = calls_at(dump, "_dump_json_to_file")[0]
        if len(moves) != 1:
            r.site(f, None, "move into place (absent)")
            r.violation(f, f.loc(dc), "the state is dumped to %s and not moved into place by one move_into_place call: "
                        "the state file is rewritten in place, a crash mid-write leaves a truncated file and the "
                        "crawler restarts from scratch" % FlowNorm(f).norm(dump, arg(dc, 1)))
            moves = [dump]
        move = moves[0]
        if move is not dump:
            r.site(f, move.ast, "move into place")
        mc = calls_at(move, "move_into_place")[0] if move is not dump else None
        data_p = first_positional_params(f)[0]
        r.require(isinstance(arg(dc, 0), ast.Name) and arg(dc, 0).id == data_p, f, f.loc(dc),
                  "the state written is %s, not the parameter %s" % (src(f, arg(dc, 0)), data_p))
        tmp = fnm.norm(dump, arg(dc, 1))
        r.require(tmp != "self._path" and re.match(r"^self\._path\.(siblingExtension|temporarySibling)\(.*\)$", tmp) is not None,
                  f, f.loc(dc), "the state is dumped to %s: the state file is written in place, a crash mid-write leaves "
                  "a truncated file and the crawler restarts the cycle from scratch" % tmp)
        if mc is not None:
            r.require(fnm.norm(move, arg(mc, 0)) == tmp + ".path" and fnm.norm(move, arg(mc, 1)) == "self._path.path",
                      f, f.loc(mc), "move_into_place(%s, %s): expected (%s.path, self._path.path)" % (
                          fnm.norm(move, arg(mc, 0)), fnm.norm(move, arg(mc, 1)), tmp))
        for (n, w) in find_path_avoiding(cfg, lambda n: n is move, gate_node=lambda n: n is dump):
            r.violation(f, f.loc(n.ast), "the temporary file is moved into place before it is written", w)
        for (n, w) in find_path_avoiding(cfg, lambda n: n.kind == "exit", gate_node=lambda n: n is move):
            r.violation(f, f.loc(), "save can return without moving the new state into place", w)
        for c2 in calls_in_func(f):
            if call_tail(c2) in ("open", "setContent", "write", "remove", "unlink") and c2 is not dc:
                r.violation(f, f.loc(c2), "save touches the state file directly: %s" % src(f, c2))
        # the resolved helper renames
        mip = idx.func("util.fileutil:move_into_place")
        mp = first_positional_params(mip)
        ren = [c2 for c2 in calls_in_func(mip) if call_name(c2) in ("os.rename", "os.replace")]
        r.site(mip, ren[0] if ren else None, "rename")
        r.require(len(ren) == 1 and [attr_path(a) for a in ren[0].args] == mp[:2], mip, mip.loc(),
                  "fileutil.move_into_place no longer renames source onto dest")
        if ren:
            node = [n for n in mip.cfg().nodes if any(c2 is ren[0] for c2 in node_calls(n))][0]
            for (n, w) in find_path_avoiding(mip.cfg(), lambda n: n.kind == "exit", gate_node=lambda n: n is node):
                r.violation(mip, mip.loc(), "move_into_place can return without renaming", w)
        dj = idx.func("storage.crawler:_dump_json_to_file")
        djp = first_positional_params(dj)
        opens = [c2 for c2 in calls_in_func(dj) if call_tail(c2) == "open"]
        r.require(len(opens) == 1 and attr_path(opens[0].func.value) == djp[1], dj, dj.loc(),
                  "_dump_json_to_file does not open its target parameter")
        wr = [c2 for c2 in calls_in_func(dj, "write")]
        ok = len(wr) == 1 and len(wr[0].args) == 1
        if ok:
            dfs = def_exprs(dj)
            fed = [x for x in own_nodes(wr[0].args[0]) if isinstance(x, ast.Call)]
            for nm in depends_on(dj, wr[0].args[0]):
                for dv in dfs.get(nm, []):
                    fed += [x for x in own_nodes(dv) if isinstance(x, ast.Call)]
            dumps = [c2 for c2 in fed if call_name(c2) == "json.dumps"]
            ok = len(dumps) >= 1 and all(isinstance(arg(c2, 0), ast.Name) and arg(c2, 0).id == djp[0] for c2 in dumps)
        r.require(ok, dj, dj.loc(), "_dump_json_to_file does not write json.dumps(<its first parameter>) to the file")
        lj = [c2 for c2 in calls_in_func(idx.func(SER + ".load")) if call_name(c2) == "json.load"]
        r.require(len(lj) == 1, idx.func(SER + ".load"), idx.func(SER + ".load").loc(),
                  "_LeaseStateSerializer.load no longer parses the file with json.load")
        # load reads the destination of save
        ld = idx.func(SER + ".load")
        opens = [c2 for c2 in calls_in_func(ld) if call_tail(c2) == "open"]
        r.require(len(opens) == 1 and call_name(opens[0]) == "self._path.open", ld, ld.loc(),
                  "_LeaseStateSerializer.load does not read self._path")

    # -- 5. cycle counter -------------------------------------------------------------
    with ctx.rule("C27.5", "R1/R3", "cycle counter: current-cycle = last-cycle-finished + 1 (0 the first time) only when "
                  "no cycle is in progress; last-cycle-finished = cycle and the reset of current-cycle, "
                  "last-complete-bucket and last_complete_prefix_index only after the prefix loop is exhausted and "
                  "before the final save", expected=8) as r:
        CUR = norm_src("self.state['current-cycle']")
        LCF = norm_src("self.state['last-cycle-finished']")
        done = lambda n, lab: n is chead and lab == "done"

        def fact_is(what, pol):
            def g(n, lab):
                ft = cn.edge_fact(n, lab)
                return bool(ft) and ft[0] in (("is", "==") if pol else ("is not", "!=")) and set(ft[1:]) == {"None", what}
            return g
        starts = ccfg.find(_state_store(cn, "current-cycle", lambda n, v: not _is_none(v)))
        if not starts:
            raise AnchorVanished("start_current_prefix no longer numbers a new cycle (no store of a cycle number to "
                                 "state['current-cycle'])")

        def lcf_none(ft):
            return ft[0] in ("is", "==") and set(ft[1:]) == {"None", LCF}

        def lcf_some(ft):
            # a truthy last-cycle-finished is in particular not None
            return (ft[0] in ("is not", "!=") and set(ft[1:]) == {"None", LCF}) or (ft[0] == "truth" and ft[1] == LCF)
        NEXT = norm_src("self.state['last-cycle-finished'] + 1")
        seen_forms = set()
        n_leaves = 0
        for n in starts:
            for (t, w) in find_path_avoiding(ccfg, lambda x, _n=n: x is _n, gate_edge=fact_is(CUR, True)):
                r.violation(sc, sc.loc(n.ast), "current-cycle is renumbered while a cycle is in progress: a resumed cycle "
                            "gets a new number (path: %s)" % w.brief(), w)
            # the numbering decision, whatever its shape (if/else with two stores, one store of a conditional
            # expression, a temporary bound on two branches): one leaf per way the number can be chosen
            for (site, conds, leaf) in _leaves(cn, n, _sub_store(cn, n)[2]):
                v = cn.at(site).norm(leaf)
                n_leaves += 1
                r.site(sc, site.ast, "current-cycle = %s%s" % (v, (" when " + " and ".join(_fact_str(c) for c in conds))
                                                               if conds else ""))
                if v == "0":
                    seen_forms.add("first")
                    bad = _not_established(cn, ccfg, site, conds, lcf_none)
                    if bad:
                        w = bad[0][1]
                        gs = _guards_about(cn, LCF, conds, w)
                        r.violation(sc, sc.loc(site.ast), "a new cycle is numbered 0 where 'last-cycle-finished is None' was "
                                    "not established%s: cycle numbering restarts at 0 although a cycle (cycle 0) was "
                                    "finished before, so cycle numbers stop increasing by one per completed cycle" % (
                                        (" - the number is chosen under %s, which is not that test%s" % (
                                            " and ".join(_fact_str(g) for g in gs),
                                            " (it also holds when last-cycle-finished is 0)"
                                            if any(g[0] == "false" and g[2] is None for g in gs) else "")) if gs else ""), w)
                elif v == NEXT:
                    seen_forms.add("next")
                    bad = _not_established(cn, ccfg, site, conds, lcf_some)
                    if bad:
                        r.violation(sc, sc.loc(site.ast), "last-cycle-finished + 1 is computed although no cycle was "
                                    "finished (last-cycle-finished is None there)", bad[0][1])
                else:
                    r.violation(sc, sc.loc(site.ast), "a new cycle is numbered %s (expected 0 or last-cycle-finished + 1)" % v)
        r.count(n_leaves * len(ccfg.nodes))
        r.require(seen_forms == {"first", "next"}, sc, sc.loc(), "cycle numbering lost a branch: only %s is left of "
                  "'0 the first time, last-cycle-finished + 1 afterwards'" % sorted(seen_forms))
        # a cycle is started (numbered) before the loop whenever none is in progress
        for (n, w) in find_path_avoiding(ccfg, lambda n: n is chead,
                                         gate_node=lambda n: any(n is s for s in starts),
                                         gate_edge=fact_is(CUR, False)):
            r.violation(sc, sc.loc(chead.ast), "the prefix loop can start with current-cycle None", w)
        # the cycle number handed on is state['current-cycle']
        c = calls_at(cwork, "process_prefixdir")[0]
        r.site(sc, c, "cycle passed on")
        r.require(cn.norm(cwork, arg(c, 0, "cycle")) == CUR, sc, sc.loc(c),
                  "process_prefixdir is given cycle %s" % cn.norm(cwork, arg(c, 0, "cycle")))
        fins = ccfg.find(_state_store(cn, "last-cycle-finished"))
        if not fins:
            raise AnchorVanished("start_current_prefix: store of state['last-cycle-finished']")
        fin = fins[-1]
        r.site(sc, fin.ast, "last-cycle-finished")
        for fx in fins:
            fv = cn.norm(fx, _sub_store(cn, fx)[2])
            r.require(fv == CUR, sc, sc.loc(fx.ast), "last-cycle-finished is set to %s, not to the cycle that ran: "
                      "cycle numbers do not increase by one" % fv)
        resets = [
            ("current-cycle = None", _state_store(cn, "current-cycle", lambda n, v: _is_none(v))),
            ("last-complete-bucket = None", _state_store(cn, "last-complete-bucket", lambda n, v: _is_none(v))),
            ("last_complete_prefix_index = -1", lambda n: stores("self.last_complete_prefix_index")(n)
             and cn.norm(n, assign_value(n, "self.last_complete_prefix_index")) == norm_src("-1")),
        ]
        for (what, pred) in resets + [("last-cycle-finished = cycle", lambda n: any(n is x for x in fins))]:
            nodes = ccfg.find(pred)
            if not nodes:
                r.violation(sc, sc.loc(), "at the end of a cycle '%s' is missing: the next cycle resumes from the old "
                            "position and skips what lies before it" % what)
                continue
            r.site(sc, nodes[0].ast, what)
            for n in nodes:
                for (t, w) in find_path_avoiding(ccfg, lambda x, _n=n: x is _n, gate_edge=done):
                    r.violation(sc, sc.loc(n.ast), "'%s' happens before every prefix was processed (path: %s)" % (
                        what, w.brief()), w)
            for (t, w) in find_path_avoiding(ccfg, lambda x: x.kind == "exit", gate_node=pred):
                r.violation(sc, sc.loc(), "a cycle can end (normal return) without '%s' (path: %s)" % (what, w.brief()), w)
            # any save inside the function after the loop sees the reset state
            for (t, w) in find_path_avoiding(ccfg, lambda x: has_call_named("self.save_state")(x) and not _inside(chead.ast, x.ast),
                                             gate_node=pred):
                r.violation(sc, sc.loc(t.ast), "the end-of-cycle save happens before '%s'" % what, w)
        # finished_cycle gets the same number
        fc = ccfg.find(has_call_named("self.finished_cycle"))
        for n in fc:
            c2 = calls_at(n, "finished_cycle")[0]
            r.require(cn.resolve(n, arg(c2, 0)) is not None and isinstance(arg(c2, 0), ast.Name) and
                      cn.norm(fin, _sub_store(cn, fin)[2]) == CUR and arg(c2, 0).id == getattr(_sub_store(cn, fin)[2], "id", None),
                      sc, sc.loc(c2), "finished_cycle is told %s" % src(sc, arg(c2, 0)))
            for (t, w) in find_path_avoiding(ccfg, lambda x, _n=n: x is _n, gate_edge=done):
                r.violation(sc, sc.loc(n.ast), "finished_cycle is announced before every prefix was processed", w)

    # -- 6. a slice cannot abort on an unbound name ---------------------------------------
    # An exception other than TimeSliceExceeded leaves start_slice (a reactor.callLater callback: the error is
    # logged, the node keeps running) without save_state and without re-arming the timer - the cycle in progress
    # is never completed.  Two structural sources of such an exception are decidable: a local read on a path that
    # did not bind it (UnboundLocalError), and an instance attribute read by the traversal that the constructor
    # does not initialise (AttributeError - typically only after a restart in mid-cycle, when the code that binds
    # it lazily is not run again).
    with ctx.rule("C27.6", "R2", "no slice-aborting unbound name: every local of the crawler's traversal / state "
                  "functions is bound on every path to its reads; every instance attribute the traversal reads is a "
                  "class attribute or is set on every path through ShareCrawler.__init__ (directly or in a method it "
                  "calls)", expected=20) as r:
        sc_cls = idx.cls(SC)
        fns = [idx.func(SC + "." + m) for m in ("__init__", "load_state", "save_state", "get_state", "startService",
                                                "stopService", "start_slice", "start_current_prefix", "process_prefixdir")]
        # ... and the ShareCrawler methods a slice is split into: whatever start_slice / the traversal reach through
        # self.<m>(..) calls (hooks included - in the base class they are part of the slice as well)
        slice_parts = _self_callees(sc_cls, [f for f in fns if f.name in ("start_slice", "start_current_prefix",
                                                                           "process_prefixdir", "save_state")])
        slice_parts = [f for f in slice_parts if f not in fns]
        fns += slice_parts
        fns += [idx.func(SER + ".save"), idx.func(SER + ".load"), idx.func("storage.crawler:_dump_json_to_file"),
                idx.func("storage.common:storage_index_to_dir"), idx.func("util.fileutil:move_into_place")]
        for f in fns:
            r.site(f, None, "locals bound before use")
            for (n, name, w) in _unbound_reads(f):
                if f.cls is sc_cls and (f in slice_parts or f.name in ("start_slice", "start_current_prefix", "process_prefixdir",
                                                                       "save_state", "get_state")):
                    cons = (": the slice aborts with an exception start_slice does not catch - the timer is not "
                            "re-armed, the cycle is never completed")
                elif f.cls is sc_cls and f.name in ("__init__", "load_state"):
                    cons = ": the crawler cannot be rebuilt from its saved state"
                else:
                    cons = ""
                r.violation(f, f.loc(n.ast), "the name %s is read on a path that never bound it (UnboundLocalError / NameError)%s "
                            "(path: %s)" % (name, cons, w.brief()), w)
            r.count(len(f.cfg().nodes))
        # -- instance attributes read by the traversal
        init = idx.func(SC + ".__init__")
        trav = [idx.func(SC + "." + m) for m in ("start_slice", "start_current_prefix", "process_prefixdir",
                                                 "save_state", "get_state", "stopService", "startService")]
        trav += slice_parts
        # attributes of twisted's Service / MultiService (set by the base class)
        BASE_ATTRS = ("running", "parent", "name", "services", "namedServices")
        reads = {}
        for f in trav:
            for x in func_own_nodes(f):
                if isinstance(x, ast.Attribute) and isinstance(x.ctx, ast.Load) and isinstance(x.value, ast.Name) \
                        and x.value.id == "self":
                    reads.setdefault(x.attr, (f, x))
        core = ("state", "last_complete_prefix_index", "prefixes", "sharedir", "bucket_cache", "_state_serializer")
        if [a for a in core if a not in reads]:
            raise AnchorVanished("the traversal no longer reads self.%s" % [a for a in core if a not in reads][0])
        for a in sorted(reads):
            (f, x) = reads[a]
            if sc_cls.lookup(a) is not None:
                continue
            r.site(f, x, "self.%s initialised" % a)
            if sc_cls.lookup_attr(a) is not None or a in BASE_ATTRS:
                continue
            bad = _not_definitely_set(sc_cls, init, a, 3)
            if bad:
                r.violation(init, init.loc(), "%s reads self.%s, which ShareCrawler.__init__ does not set on every path "
                            "(AttributeError in the slice - at the latest after a restart in mid-cycle; the slice "
                            "aborts without save_state and without re-arming the timer)" % (short(f), a), bad[0][1])

    # -- 7. the bucket loop walks the whole list ------------------------------------------
    # Within a cycle a bucket may be passed over only because it compares <= the persisted last-complete-bucket of the
    # same cycle (C27.2 decides that for the buckets the loop visits).  The loop itself must therefore visit every
    # bucket of the list it is given: it ends at the end of the list, and it starts at the beginning - unless the start
    # comes from crawler state that cannot outlive the situation it describes: every attribute the start is computed
    # from is back at the value the constructor gives it on every normal return of process_prefixdir (end of the
    # prefixdir: the last thing that happens to it on each path is such a store - a reset after the loop, or a reset
    # where it is read followed only by stores that lead to the TimeSliceExceeded raise), or on every normal return of
    # start_current_prefix (end of the cycle), or on every path that starts a new cycle before its prefix loop, or the
    # start is used only where it was compared equal to the cycle being run.  (A reset in a hook that subclasses override
    # without upcall - finished_cycle, started_cycle - does not count.)  A start
    # that survives the cycle makes every later cycle skip the buckets before it without any marker saying so.
    with ctx.rule("C27.7", "R1/R3", "bucket-loop domain: the loop around process_bucket walks the bucket list to its end and "
                  "from its beginning; a start index other than 0 comes only from crawler state that is back at its "
                  "constructor value on every normal return of process_prefixdir (end of the prefixdir) or of "
                  "start_current_prefix (end of the cycle) or before the prefix loop of a new cycle, "
                  "or that is keyed to the cycle number", expected=2) as r:
        sc_cls = idx.cls(SC)
        init = idx.func(SC + ".__init__")
        inorm = FlowNorm(init)
        CUR7 = norm_src("self.state['current-cycle']")

        def resumed(n, lab):
            ft = cn.edge_fact(n, lab)
            return bool(ft) and ft[0] in ("is not", "!=") and set(ft[1:]) == {"None", CUR7}
        r.site(pp, phead.ast.iter, "walks to the end of the list")
        if pstop is not None:
            r.violation(pp, pp.loc(pstop), "the bucket loop stops before index %s, not at the end of the bucket list %s: the "
                        "buckets from there on are never processed" % (src(pp, pstop), P_BUCKETS))
        r.site(pp, phead.ast.iter, "starts at the first bucket" if pstart is None else "start index %s" % src(pp, pstart))
        # every way the start index can be chosen: (the node where the choice is made - the store to the start variable,
        # or the loop head -, the facts established inside the expression, the value with its locals followed back)
        choices = []
        for (tsite, tconds, texpr) in (_leaves(pn, phead, pstart, depth=1) if pstart is not None else []):
            for (site, conds, leaf) in _leaves(pn, tsite, texpr, tconds):
                choices.append((tsite, site, conds, leaf))
        for (tsite, site, conds, leaf) in choices:
            v = pn.at(site).norm(leaf)
            if v == "0":
                continue
            deps = depends_on(pp, leaf)
            attrs = sorted({".".join(d.split(".")[:2]) for d in deps if d.startswith("self.")})
            if not attrs:
                r.violation(pp, pp.loc(site.ast if site is not phead else phead.ast.iter), "the bucket loop can start at index %s "
                            "instead of 0: the buckets before it are passed over although they do not compare <= "
                            "last-complete-bucket - they are not covered in this cycle" % v)
                continue
            keyed = not _not_established(pn, pcfg, tsite, conds, lambda ft: ft[0] == "==" and any(
                re.search(r"(?<![\w.])%s(?![\w(])" % re.escape(P_CYCLE), x or "") for x in ft[1:]))
            for a in attrs:
                name = a.split(".", 1)[1]
                if name == "state":
                    raise AnalysisError("the start of the bucket loop (%s) is computed from the persisted crawler state: "
                                        "not decided" % v)
                ivals = {inorm.norm(n, assign_value(n, a)) for n in init.cfg().find(stores(a)) if assign_value(n, a) is not None}
                if len(ivals) != 1:
                    r.violation(pp, pp.loc(site.ast if site is not phead else phead.ast.iter), "the bucket loop starts at %s, "
                                "taken from %s, which ShareCrawler.__init__ does not give one definite initial value" % (v, a))
                    continue
                (want,) = tuple(ivals)
                end_of_prefix = _left_unsettled(idx, sc_cls, pp, name, want)
                end_of_cycle = _left_unsettled(idx, sc_cls, sc, name, want)
                # ... or at the start of a cycle: the prefix loop of a cycle that is not a resumed one (current-cycle was
                # None on entry) is reached only after such a store
                eff = _attr_effects(idx, sc_cls, sc, name, want)
                def tr_start(n, lab, nxt, st, eff=eff):
                    if lab == "exc" or n is chead:
                        return None                      # the first arrival at the prefix loop is what counts
                    return True if resumed(n, lab) else eff.get(n.id, st)
                svis, _spar = explore(ccfg, False, tr_start)
                start_of_cycle = [x for x in svis if x == (chead.id, False)]
                r.count(len(pcfg.nodes) + 2 * len(ccfg.nodes))
                if keyed or not end_of_prefix or not end_of_cycle or not start_of_cycle:
                    continue
                w = end_of_prefix[0][1]
                r.violation(pp, pp.loc(site.ast if site is not phead else phead.ast.iter), "the bucket loop can start at %s "
                            "instead of 0, taken from %s, and that attribute is not back at its initial value %s on every "
                            "normal return of process_prefixdir (end of the prefixdir; path: %s) nor on every normal return "
                            "of start_current_prefix (end of the cycle) nor before the prefix loop of every newly started "
                            "cycle, nor is its use tied "
                            "to the cycle number %s: once set it is still in force when a later cycle reaches this "
                            "prefixdir, whose first buckets are then passed over although they do not compare <= the "
                            "last-complete-bucket of that cycle - they are silently not covered" % (
                                v, a, want, w.brief(), P_CYCLE), w)


def _self_callees(ci, roots):
    """The methods defined in class ci itself that the roots reach through self.<m>(..) calls (roots excluded)."""
    seen = {f.qual for f in roots}
    out, todo = [], list(roots)
    while todo:
        f = todo.pop(0)
        for c in calls_in_func(f):
            nm = call_name(c) or ""
            if nm.startswith("self.") and nm.count(".") == 1:
                m = ci.methods.get(nm.split(".", 1)[1])
                if m is not None and m.qual not in seen:
                    seen.add(m.qual)
                    out.append(m)
                    todo.append(m)
    return out


def _comp_bound(e):
    out = set()
    for x in own_nodes(e):
        if isinstance(x, (ast.ListComp, ast.SetComp, ast.DictComp, ast.GeneratorExp)):
            for g in x.generators:
                out |= {t.id for t in ast.walk(g.target) if isinstance(t, ast.Name)}
    return out


def _module_names(mod):
    out = set()
    for x in own_nodes(mod.tree):
        if isinstance(x, ast.Name) and isinstance(x.ctx, ast.Store):
            out.add(x.id)
        elif isinstance(x, (ast.FunctionDef, ast.AsyncFunctionDef, ast.ClassDef)):
            out.add(x.name)
        elif isinstance(x, (ast.Import, ast.ImportFrom)):
            for al in x.names:
                if al.name == "*":
                    raise AnalysisError("star import in %s: the module-level names are not known" % mod.name)
                out.add((al.asname or al.name).split(".")[0])
        elif isinstance(x, ast.ExceptHandler) and x.name:
            out.add(x.name)
    return out


def _node_loads(n):
    out = set()
    for e in node_exprs(n):
        inner = _comp_bound(e)
        for x in own_nodes(e):
            if isinstance(x, ast.Name) and isinstance(x.ctx, ast.Load) and x.id not in inner:
                out.add(x.id)
    if isinstance(n.ast, ast.AugAssign) and isinstance(n.ast.target, ast.Name):
        out.add(n.ast.target.id)
    return out


def _unbound_reads(fn):
    """[(node, local name, witness)]: reads of a local on a CFG path (exception edges included) on which no store
    of that local was completed."""
    cfg = fn.cfg()
    a = fn.node.args
    params = {p.arg for p in list(a.posonlyargs) + list(a.args) + list(a.kwonlyargs)}
    params |= {p.arg for p in (a.vararg, a.kwarg) if p is not None}
    outer = set()
    for x in func_own_nodes(fn):
        if isinstance(x, (ast.Global, ast.Nonlocal)):
            outer |= set(x.names)
    local = set()
    for n in cfg.nodes:
        local |= {s for s in node_stores(n) if "." not in s and not s.endswith("[]")}
    local -= params | outer
    out = []
    # a name that is bound nowhere - not in the function, not at module level, not a builtin - is a NameError
    if fn.parent is None:
        known = local | params | outer | _module_names(fn.module) | set(dir(builtins))
        for n in cfg.nodes:
            if n.kind in ("entry", "exit", "raise"):
                continue
            for name in sorted(_node_loads(n) - known):
                for (t, w) in find_path_avoiding(cfg, lambda x, _n=n: x is _n, gate_node=lambda x: False):
                    out.append((n, name, w))
    for name in sorted(local):
        def bound(n, lab, _v=name):
            return lab != "exc" and _v in node_stores(n) and (n.kind != "iter" or lab == "iter")
        for (n, w) in find_path_avoiding(cfg, lambda n, _v=name: n.kind not in ("entry", "exit", "raise")
                                         and _v in _node_loads(n), gate_edge=bound):
            out.append((n, name, w))
    return out


def _not_definitely_set(ci, fn, attr, depth):
    """[] when every normal path through fn stores self.<attr> (or calls a method of the class that does)."""
    path = "self." + attr

    def sets(n):
        if path in node_stores(n):
            return True
        if depth > 0:
            for c in node_calls(n):
                nm = call_name(c)
                if nm.startswith("self.") and nm.count(".") == 1:
                    m = ci.lookup(nm.split(".", 1)[1])
                    if m is not None and m is not fn and not _not_definitely_set(ci, m, attr, depth - 1):
                        return True
        return False
    return find_path_avoiding(fn.cfg(), lambda n: n.kind == "exit", gate_node=sets)
