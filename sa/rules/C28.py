"""C28 Storage space reservations are honoured.

Decided: the running remaining-space account of allocate_buckets, read-only => 0,
registration/removal pairing of BucketWriters, reserved space subtracted and
clamped, nothing that raises in normal operation (timer operations, rmdir of a shared
directory) between close/abort and the release (DESIGN.md section 5, C28)."""
from sa.h import *

EXPLANATION = (
    "Decided (structural, all paths): (1) in StorageServer.allocate_buckets the budget R starts as "
    "get_available_space(); when it is not None (limited) allocated_size() of the uploads in progress is subtracted "
    "before the first allocation; a BucketWriter is constructed only when unlimited or when size <= R holds for the "
    "current R, with the same size that is passed as max_size, and on the limited path R -= size happens before the "
    "next writer can be constructed (CFG x monitor over the facts limited / enough / deducted). (2) "
    "get_available_space returns 0 whenever readonly_storage is set, otherwise fileutil.get_available_space(sharedir, "
    "reserved_space) with reserved_space = int(constructor argument). (3) every constructed writer is stored in "
    "_bucket_writers under its incominghome before the loop continues; the dict is changed only by that store and by "
    "the deletion in bucket_writer_closed (key bw.incominghome) which is executed on every path; BucketWriter.close "
    "and abort call bucket_writer_closed(self, ..) on every path that closes; allocated_size() sums "
    "bw.allocated_size() over _bucket_writers.values() and BucketWriter.allocated_size is the max_size it was built "
    "with. (4) fileutil.get_disk_stats computes avail = max(free_for_nonroot - reserved_space, 0) and "
    "fileutil.get_available_space returns 0 (not None/unlimited) when the OS call fails. (5) the callback of the "
    "BucketWriter inactivity timer (self.X = clock.callLater(.., cb)) runs with that DelayedCall already fired: in cb "
    "and in every method through which cb reaches ss.bucket_writer_closed, no X.cancel()/reset()/delay() (which raise "
    "AlreadyCalled/AlreadyCancelled then), directly or through a self.helper(), is executed on a path to the release "
    "unless the path passed a true X.active() test, the exception is caught (try/except, suppress) or a finally "
    "releases. (6) in every BucketWriter method that reaches ss.bucket_writer_closed, an os.rmdir/os.removedirs (direct, "
    "or inside a self.helper() out of which its OSError escapes) executed before the release is on every path preceded "
    "by a passed emptiness test of that same directory (not os.listdir(D), len(os.listdir(D)) == 0) or its OSError is "
    "caught (try/except OSError/EnvironmentError/Exception, suppress) or a finally releases: the incoming directory is "
    "shared by the shares of a storage index that are uploaded together, so it is normally not empty and an unguarded "
    "rmdir raises before the release. Not decided by (5)/(6): other calls that may raise before the release "
    "(os.remove / os.stat / rename / listdir failing because the files were changed from outside; a directory that "
    "gains an entry between the emptiness test and the rmdir). "
    "Undecided: the numbers reported by statvfs, concurrent processes filling the disk, space used by leases and "
    "mutable shares; that a second writer is never built for an incominghome that is already registered rests on "
    "the os.path.exists(incominghome) test of allocate_buckets and the assert in ShareFile(create=True), neither of "
    "which is checked here.")
TECHNIQUE = ("static analysis: CFG x fact monitor for the space account, must-follow / who-may-write sweeps, "
             "interprocedural exception-escape analysis from the timer callback / the directory clean-up to the release")

SRV = "storage.server"
SS = SRV + ":StorageServer"
BW = "storage.immutable:BucketWriter"
FU = "util.fileutil"


def real_sites(sites):
    best = {}
    for cs in sites:
        k = id(cs.call)
        if k not in best or best[k].fn.name == "<module>":
            best[k] = cs
    return list(best.values())


def loop_target_names(for_node):
    t = for_node.target
    if isinstance(t, ast.Name):
        return [t.id]
    if isinstance(t, (ast.Tuple, ast.List)):
        return [e.id if isinstance(e, ast.Name) else None for e in t.elts]
    return []


# ---------------------------------------------------------------------------------------------------------------
# C28.5: the path from the fired inactivity timer to the release of the reservation
#
# IDelayedCall.cancel/reset/delay raise AlreadyCalled once the call has fired (AlreadyCancelled once it was
# cancelled); .active()/.getTime() do not.  Every method that runs *because the timer fired* therefore sees a
# timer on which these three operations raise.
TIMER_RAISING_OPS = ("cancel", "reset", "delay")
CATCHES_ALREADY_CALLED = {"AlreadyCalled", "Exception", "BaseException"}


def _handler_catches(h: ast.ExceptHandler, catches=None) -> bool:
    names = C._handler_names(h.type)
    return names is None or bool(set(names) & (catches or CATCHES_ALREADY_CALLED))


def _parents(fn):
    par = {}
    for p in ast.walk(fn.node):
        for field, val in ast.iter_fields(p):
            for ch in (val if isinstance(val, list) else [val]):
                if isinstance(ch, ast.AST):
                    par[id(ch)] = (p, field)
    return par


def _catching_context(fn, par, node_ast, catches=None):
    """('suppressed', None) when the statement sits in `with suppress(AlreadyCalled..)`, ('handler', H) for the
    innermost enclosing `try` whose handler H certainly receives AlreadyCalled (or, when `catches` is given, one of
    those exception classes), else (None, None)."""
    catches = catches or CATCHES_ALREADY_CALLED
    cur = node_ast
    while id(cur) in par and cur is not fn.node:
        p, field = par[id(cur)]
        if isinstance(p, ast.Try) and field == "body":
            for h in p.handlers:
                if _handler_catches(h, catches):
                    return "handler", h
        if isinstance(p, (ast.With, ast.AsyncWith)) and field == "body":
            for it in p.items:
                e = it.context_expr
                if isinstance(e, ast.Call) and call_tail(e) == "suppress":
                    names = set()
                    for a in e.args:
                        names |= set(C._handler_names(a) or [])
                    if names & catches:
                        return "suppressed", None
        cur = p
    return None, None


def _escape_outcomes(fn, cfg, par, h, is_release, catches=None):
    """Where does control go when the statement at CFG node `h` raises AlreadyCalled (or `catches`)?  Returns a dict
    outcome -> witness for the outcomes reached WITHOUT leaving a release node first: 'raise' (the exception
    leaves the function) and 'exit' (it is swallowed and the function returns)."""
    kind, H = _catching_context(fn, par, h.ast, catches)
    if kind == "suppressed":
        # the with-block is left, execution continues after it; the engine has no edge for that, so the
        # statement is simply not treated as raising (the statements after the with are reached normally)
        return {}
    exc_succ = [(d, l) for (d, l) in cfg.successors(h) if l == "exc"]
    if not exc_succ:
        return {"raise": None}

    def to_H(n):
        return any(l == "exc" and d.kind == "except" and d.ast is H for (d, l) in cfg.successors(n))

    def transfer(n, lab, nxt, st):
        if n.kind in ("exit", "raise"):
            return None
        if st == "start" or st == "prop":
            if st == "start" and lab != "exc":
                return None
            if lab != "exc":
                # inside a `finally` copy that the exception is passing through
                if is_release(n):
                    return None
                return "prop"
            if st == "prop" and is_release(n):
                return None           # a `finally` that releases
            if nxt.kind == "except":
                return "caught" if nxt.ast is H else None
            if H is not None and to_H(n):
                return None           # certainly caught by H: the edges past H are infeasible
            return "prop"
        # caught: ordinary execution resumes in the handler
        if lab == "exc" and not (n.kind == "stmt" and isinstance(n.ast, ast.Raise)):
            return None
        if lab != "exc" and is_release(n):
            return None
        return "caught"

    visited, parent = explore(cfg, "start", transfer, start=h)
    out = {}
    for (nid, st) in sorted(visited, key=lambda x: (x[0], str(x[1]))):
        k = cfg.nodes[nid].kind
        if k in ("exit", "raise") and k not in out:
            out[k] = witness(cfg, parent, (nid, st))
    return out


def check_timer_release(idx, ci, r):
    methods = ci.methods

    def self_method(c):
        nm = call_name(c)
        if nm and nm.startswith("self.") and nm.count(".") == 1:
            return ci.lookup(nm[5:])
        return None

    # (a) the timers: self.X = <clock>.callLater(delay, callback, ..)
    timers = {}
    for f in methods.values():
        fnorm = FlowNorm(f)
        for n in f.cfg().nodes:
            if n.kind != "stmt" or not isinstance(n.ast, ast.Assign):
                continue
            v = fnorm.resolve(n, n.ast.value)
            if not (isinstance(v, ast.Call) and call_tail(v) == "callLater"):
                continue
            for t in n.ast.targets:
                p = attr_path(t)
                if p and p.startswith("self.") and p.count(".") == 1:
                    timers.setdefault(p, []).append((f, n, v))
    if not timers:
        raise AnchorVanished("BucketWriter no longer arms a timer with callLater (the inactivity timeout whose "
                             "callback must release the reservation)")

    def is_direct_release(n):
        return any(call_name(c) == "self.ss.bucket_writer_closed" for c in node_calls(n))

    # (b) which methods (transitively, through self.m() calls) reach the release
    may_release = set()
    changed = True
    while changed:
        changed = False
        for f in methods.values():
            if f.name in may_release:
                continue
            for n in f.cfg().nodes:
                if is_direct_release(n) or any(g is not None and g.name in may_release
                                               for g in map(self_method, node_calls(n))):
                    may_release.add(f.name)
                    changed = True
                    break

    skipped, n_relevant = [], 0
    for X, arms in sorted(timers.items()):
        # (c) callbacks of this timer = the methods that run with the timer already fired
        roots = []
        for (f, n, call) in arms:
            cb = arg(call, 1, "callable")
            if cb is None:
                raise AnalysisError("callLater(..) without a callback in %s" % short(f))
            cbs = []
            if isinstance(cb, ast.Call) and call_tail(cb) == "partial" and cb.args:
                cb = cb.args[0]
            if isinstance(cb, ast.Attribute) and attr_path(cb) and attr_path(cb).startswith("self.") \
                    and ci.lookup(cb.attr) is not None:
                cbs = [ci.lookup(cb.attr)]
            elif isinstance(cb, ast.Lambda):
                cbs = [g for g in (self_method(c) for c in ast.walk(cb.body) if isinstance(c, ast.Call)) if g is not None]
            elif isinstance(cb, ast.Name) and cb.id in f.nested:
                cbs = [f.nested[cb.id]]
            if not cbs:
                raise AnalysisError("cannot resolve the callback %s of the timer %s armed in %s" % (src(f, cb), X, short(f)))
            roots.append((f, n, call, cbs))
        if not any(g.name in may_release or g.parent is not None for (_f, _n, _c, cbs) in roots for g in cbs):
            skipped.append(X)
            continue      # a timer that has nothing to do with the reservation
        n_relevant += 1
        for (f, n, call, cbs) in roots:
            r.site(f, call, "timer %s armed" % X)

        def timer_ops(f, fnorm, n, _X=X):
            out = []
            for c in node_calls(n):
                if isinstance(c.func, ast.Attribute) and c.func.attr in TIMER_RAISING_OPS \
                        and fnorm.norm(n, c.func.value) == _X:
                    out.append(c)
            return out

        def guard_edge(fnorm, n, lab, _X=X):
            return fnorm.edge_fact(n, lab) == ("truth", "%s.active()" % _X, None)

        def unguarded(f, cfg, fnorm, is_hazard, is_release=None, measure=False):
            """hazard nodes reachable from the entry with the timer not known to be active and (when
            is_release is given) the reservation not yet released: [(node, witness)]"""
            def transfer(n, lab, nxt, st):
                if n.kind in ("entry",):
                    return st
                if n.kind in ("exit", "raise"):
                    return None
                if _X_stored(n):
                    # re-armed with a fresh DelayedCall: its operations do not raise; anything else: unknown
                    v = fnorm.resolve(n, n.ast.value) if isinstance(n.ast, ast.Assign) else None
                    st = isinstance(v, ast.Call) and call_tail(v) == "callLater"
                if is_release is not None and lab != "exc" and is_release(n):
                    return None
                if guard_edge(fnorm, n, lab):
                    st = True
                return st
            visited, parent = explore(cfg, False, transfer)
            if measure:
                r.count(len(visited))
            out, seen = [], set()
            for (nid, st) in sorted(visited, key=lambda x: (x[0], x[1])):
                m = cfg.nodes[nid]
                if not st and nid not in seen and m.kind not in ("entry", "exit", "raise") and is_hazard(m):
                    seen.add(nid)
                    out.append((m, witness(cfg, parent, (nid, st))))
            return out

        def _X_stored(n, _X=X):
            return _X in node_stores(n)

        # (d) methods whose call raises AlreadyCalled when the timer has fired (and that do not release themselves)
        raising = {}
        changed = True
        while changed:
            changed = False
            for g in methods.values():
                if g.name in raising or g.name in may_release:
                    continue
                gcfg, gnorm, gpar = g.cfg(), FlowNorm(g), _parents(g)

                def hz(m, _g=g, _gn=gnorm):
                    return bool(timer_ops(_g, _gn, m)) or any(
                        k is not None and k.name in raising for k in map(self_method, node_calls(m)))
                for (m, w) in unguarded(g, gcfg, gnorm, hz):
                    if "raise" in _escape_outcomes(g, gcfg, gpar, m, lambda _m: False):
                        raising[g.name] = m
                        changed = True
                        break

        # (e) obligation: entered with the timer fired and the reservation still held
        work = [g for (_f, _n, _c, cbs) in roots for g in cbs]
        done = set()
        while work:
            g = work.pop()
            if g.qual in done:
                continue
            done.add(g.qual)
            gcfg, gnorm, gpar = g.cfg(), FlowNorm(g), _parents(g)

            def releasing_callees(m):
                return [k for k in map(self_method, node_calls(m)) if k is not None and k.name in may_release]

            def is_release(m):
                return is_direct_release(m) or bool(releasing_callees(m))

            def is_hazard(m, _g=g, _gn=gnorm):
                if is_release(m):
                    return False
                return bool(timer_ops(_g, _gn, m)) or any(
                    k is not None and k.name in raising for k in map(self_method, node_calls(m)))
            # release sites reached while the reservation is still held; a callee that releases inherits the
            # obligation (it, too, runs with the timer fired and the reservation held)
            first_rel = set()

            def tr(n, lab, nxt, st):
                if n.kind in ("exit", "raise"):
                    return None
                if n.kind != "entry" and lab != "exc" and is_release(n):
                    return None
                return 0
            vis, _par = explore(gcfg, 0, tr)
            for (nid, _s) in vis:
                m = gcfg.nodes[nid]
                if m.kind not in ("entry", "exit", "raise") and is_release(m):
                    first_rel.add(nid)
            for nid in sorted(first_rel):
                m = gcfg.nodes[nid]
                r.site(g, m.ast, "release reached from the fired timer %s" % X)
                for k in releasing_callees(m):
                    work.append(k)
            # every hazard on a path entry -> release
            for (m, w) in unguarded(g, gcfg, gnorm, is_hazard, is_release=is_release, measure=True):
                # does a release follow this statement at all?
                reach, dq = {m.id}, [m.id]
                while dq:
                    x = dq.pop()
                    for (d, l) in gcfg.succ[x]:
                        if d not in reach:
                            reach.add(d)
                            dq.append(d)
                if not any(is_release(gcfg.nodes[x]) for x in reach if x != m.id):
                    continue
                outs = _escape_outcomes(g, gcfg, gpar, m, is_release)
                if not outs:
                    continue
                ops = timer_ops(g, gnorm, m)
                what = ("%s.%s()" % (X, ops[0].func.attr)) if ops else "%s (which operates on %s unguarded)" % (
                    src(g, m.ast), X)
                how = "the exception leaves %s" % short(g) if "raise" in outs else "%s returns" % short(g)
                w2 = outs.get("raise") or outs.get("exit")
                r.violation(g, g.loc(m.ast), "%s runs when the inactivity timer %s has fired, and calls %s before the "
                            "reservation is released, not guarded by %s.active(): on a fired (or cancelled) DelayedCall "
                            "this raises AlreadyCalled/AlreadyCancelled, %s and ss.bucket_writer_closed is never reached - "
                            "the upload's space stays counted in allocated_size() for ever (path: %s)" % (
                                short(g), X, what, X, how, w.brief()), w2 or w)
    if not n_relevant:
        raise AnchorVanished("the callback of the BucketWriter timer(s) %s no longer reaches ss.bucket_writer_closed: the "
                             "inactivity timeout this rule follows to the release is gone" % ", ".join(skipped))

# ---------------------------------------------------------------------------------------------------------------
# C28.6: directory clean-up between the start of close/abort and the release of the reservation
#
# The incoming directory of a storage index is shared by all of its shares that are being uploaded, so at the
# moment one of them is closed or aborted it is normally NOT empty.  os.rmdir on a non-empty directory raises
# OSError(ENOTEMPTY); if that happens before ss.bucket_writer_closed and nothing catches it, the reservation of
# the closed/aborted upload is never released.
RMDIR_CALLS = ("os.rmdir", "os.removedirs")
CATCHES_OSERROR = {"OSError", "EnvironmentError", "IOError", "Exception", "BaseException"}


def _empty_dir_facts(D):
    """edge facts (normal forms) that establish that the directory D has no entries"""
    L = "os.listdir(%s)" % D
    n = "len(%s)" % L
    return {("false", L, None), ("==", n, "0"), ("==", "0", n), ("<", n, "1"), ("<=", n, "0"),
            ("==", L, "[]"), ("==", "[]", L)}


def _may_release(ci):
    """names of the methods of the writer class that (transitively, through self.m() calls) reach the release"""
    methods = ci.methods

    def self_method(c):
        nm = call_name(c)
        if nm and nm.startswith("self.") and nm.count(".") == 1:
            return ci.lookup(nm[5:])
        return None

    def is_direct_release(n):
        return any(call_name(c) == "self.ss.bucket_writer_closed" for c in node_calls(n))
    out = set()
    changed = True
    while changed:
        changed = False
        for f in methods.values():
            if f.name in out:
                continue
            for n in f.cfg().nodes:
                if is_direct_release(n) or any(g is not None and g.name in out for g in map(self_method, node_calls(n))):
                    out.add(f.name)
                    changed = True
                    break
    return out, self_method, is_direct_release


def check_rmdir_release(idx, ci, r):
    methods = ci.methods
    may_release, self_method, is_direct_release = _may_release(ci)
    if not may_release:
        raise AnchorVanished("no BucketWriter method calls self.ss.bucket_writer_closed any more")

    def rmdirs(fnorm, n):
        """[(call, {directories whose emptiness makes the call safe})] for the os.rmdir calls of the node"""
        out = []
        for c in node_calls(n):
            if call_name(c) in RMDIR_CALLS:
                d = arg(c, 0, "path") or arg(c, 0, "name")
                if d is None:
                    raise AnalysisError("os.rmdir() without a directory argument")
                out.append((c, {fnorm.norm(n, d)}))
        return out

    def unguarded(g, cfg, fnorm, m, dirs, is_release):
        """a path entry -> m on which none of `dirs` was tested to be empty and (is_release given) the
        reservation was not yet released; None when there is none"""
        gates = set()
        for D in dirs:
            gates |= _empty_dir_facts(D)

        def transfer(n, lab, nxt, st):
            if n.kind == "entry":
                return st
            if n.kind in ("exit", "raise"):
                return None
            if is_release is not None and lab != "exc" and is_release(n):
                return None
            if fnorm.edge_fact(n, lab) in gates:
                return True
            return st
        visited, parent = explore(cfg, False, transfer)
        r.count(len(visited))
        if (m.id, False) in visited:
            return witness(cfg, parent, (m.id, False))
        return None

    never = lambda _m: False
    # helpers (not releasing themselves) out of which the OSError of an unguarded rmdir escapes
    raising = {}
    changed = True
    while changed:
        changed = False
        for g in methods.values():
            if g.name in raising or g.name in may_release:
                continue
            gcfg, gnorm, gpar = g.cfg(), FlowNorm(g), _parents(g)
            for m in gcfg.nodes:
                if m.kind in ("entry", "exit", "raise"):
                    continue
                hz = [d for (_c, d) in rmdirs(gnorm, m)]
                for c in node_calls(m):
                    k = self_method(c)
                    if k is not None and k.name in raising:
                        hz.append({gnorm.norm(m, a) for a in c.args})
                if any(unguarded(g, gcfg, gnorm, m, d, None) is not None for d in hz) \
                        and "raise" in _escape_outcomes(g, gcfg, gpar, m, never, CATCHES_OSERROR):
                    raising[g.name] = m
                    changed = True
                    break

    n_rel = 0
    for g in sorted(methods.values(), key=lambda f: f.name):
        if g.name not in may_release:
            continue
        gcfg, gnorm, gpar = g.cfg(), FlowNorm(g), _parents(g)

        def is_release(m):
            return is_direct_release(m) or any(k is not None and k.name in may_release
                                               for k in map(self_method, node_calls(m)))
        for m in gcfg.nodes:
            if m.kind in ("entry", "exit", "raise"):
                continue
            if is_direct_release(m):
                n_rel += 1
                r.site(g, m.ast, "release in %s" % g.name)
            if is_release(m):
                continue
            hz = [("os.rmdir(%s)" % src(g, arg(c, 0, "path") or arg(c, 0, "name")), c, d) for (c, d) in rmdirs(gnorm, m)]
            for c in node_calls(m):
                k = self_method(c)
                if k is not None and k.name in raising:
                    hz.append(("%s (whose os.rmdir is neither guarded nor caught)" % src(g, c), c,
                               {gnorm.norm(m, a) for a in c.args}))
            if not hz:
                continue
            # does a release follow this statement at all?  (clean-up after the release cannot hold it back)
            reach, dq = {m.id}, [m.id]
            while dq:
                x = dq.pop()
                for (d, l) in gcfg.succ[x]:
                    if d not in reach:
                        reach.add(d)
                        dq.append(d)
            if not any(is_release(gcfg.nodes[x]) for x in reach if x != m.id):
                continue
            for (what, c, dirs) in hz:
                r.site(g, c, "directory removal before the release")
                w = unguarded(g, gcfg, gnorm, m, dirs, is_release)
                if w is None:
                    continue
                outs = _escape_outcomes(g, gcfg, gpar, m, is_release, CATCHES_OSERROR)
                if not outs:
                    continue
                how = "the exception leaves %s" % short(g) if "raise" in outs else "%s returns" % short(g)
                r.violation(g, g.loc(c), "%s calls %s before the reservation is released, on a path where the directory "
                            "was not found empty (no passed test `not os.listdir(..)` of it) and with no handler for "
                            "OSError: the incoming directory is shared with the other shares of the storage index that "
                            "are still being uploaded, os.rmdir raises OSError(ENOTEMPTY) then, %s and "
                            "ss.bucket_writer_closed is never reached - the upload's space stays counted in "
                            "allocated_size() (path: %s)" % (short(g), what, how, w.brief()),
                            outs.get("raise") or outs.get("exit") or w)
    if not n_rel:
        raise AnchorVanished("no direct call of self.ss.bucket_writer_closed found in the BucketWriter methods")


def run(ctx: Context):
    idx = ctx.idx
    cg = get_callgraph(idx)

    # ------------------------------------------------------------ 1. the space account
    with ctx.rule("C28.1", "R1/E3", "allocate_buckets: a BucketWriter is constructed only when unlimited, or when "
                  "size <= remaining (remaining = available - allocated_size() - sizes granted so far)", expected=1) as r:
        fn = idx.func(SS + ".allocate_buckets")
        cfg = fn.cfg()
        fnorm = FlowNorm(fn)
        AVAIL = "self.get_available_space()"
        # R: the local that receives get_available_space()
        rdefs = [(n, t) for n in cfg.nodes if n.kind == "stmt" and isinstance(n.ast, ast.Assign)
                 and norm_plain(n.ast.value) == AVAIL for t in n.ast.targets if isinstance(t, ast.Name)]
        if len(rdefs) != 1:
            raise AnchorVanished("allocate_buckets: expected one local bound to self.get_available_space(), found %d" % len(rdefs))
        R = rdefs[0][1].id
        # L: locals defined as `R is not None`
        Ls = set()
        for n in cfg.nodes:
            if n.kind == "stmt" and isinstance(n.ast, ast.Assign) and len(n.ast.targets) == 1 \
                    and isinstance(n.ast.targets[0], ast.Name) and isinstance(n.ast.value, (ast.Compare, ast.UnaryOp)):
                f = fnorm.at(n).cmp(n.ast.value, True)
                if f[0] == "is not" and f[1] == "None" and f[2] in (R, AVAIL):
                    Ls.add(n.ast.targets[0].id)
        creations = [n for n in cfg.nodes if calls_at(n, "BucketWriter")]
        if not creations:
            raise AnchorVanished("allocate_buckets no longer constructs BucketWriter")
        sizes = set()
        for n in creations:
            c = calls_at(n, "BucketWriter")[0]
            r.site(fn, c)
            ms = arg(c, 3, "max_size")
            if ms is None:
                raise AnalysisError("BucketWriter(...) call shape changed")
            sizes.add(fnorm.norm(n, ms))
        if len(sizes) != 1:
            raise AnalysisError("several BucketWriter sizes: %s" % sizes)
        S = sizes.pop()
        r.require(S == "allocated_size" and "allocated_size" in fn.params, fn, fn.loc(creations[0].ast),
                  "writers are built with max_size=%s, not the client's allocated_size" % S)

        def limited_fact(n, lab):
            """True: R is a number on this edge; False: R is None; None: says nothing."""
            if n.kind != "test" or not isinstance(lab, tuple):
                return None
            pol = lab[0] == "T"
            e = n.ast
            if isinstance(e, ast.Name) and e.id in Ls:
                return pol
            f = fnorm.edge_fact(n, lab)
            if f and f[0] in ("is", "is not") and f[1] == "None" and f[2] in (R, AVAIL):
                return f[0] == "is not"
            return None

        def enough_fact(n, lab):
            f = fnorm.edge_fact(n, lab)
            if not f:
                return False
            if f[0] in ("<=", "<") and f[1] == S and f[2] == R:
                return True
            # 0 <= R - S forms
            want = str(N().poly(parse_expr("%s - %s" % (R, S))))
            return f[0] in ("<=", "<") and f[1] == "0" and f[2] == want

        # state: (limited: None/True/False, base: allocated_size() subtracted, enough, pending, corrupt)
        def transfer(n, lab, nxt, st):
            lim, base, enough, pending, corrupt = st
            if n.kind in ("entry", "exit", "raise"):
                return st
            stores_here = node_stores(n)
            if n.kind == "stmt" and R in stores_here:
                a = n.ast
                if isinstance(a, ast.AugAssign) and isinstance(a.op, ast.Sub):
                    v = fnorm.norm(n, a.value)
                    if v == "self.allocated_size()":
                        base, enough = True, False
                    elif v == S:
                        pending, enough = False, False
                    else:
                        corrupt, enough = True, False
                elif isinstance(a, ast.Assign) and norm_plain(a.value) == AVAIL:
                    base, enough, lim = False, False, None
                else:
                    corrupt, enough = True, False
            if stores_here & Ls:
                lim = None
            lf = limited_fact(n, lab)
            if lf is not None:
                if lim is not None and lim != lf:
                    return None          # contradicts what is already known on this path: infeasible
                lim = lf
            if enough_fact(n, lab):
                enough = True
            if calls_at(n, "BucketWriter") and lab != "exc":
                if lim is not False:
                    pending = True
                enough = False
            return (lim, base, enough, pending, corrupt)

        visited, parent = explore(cfg, (None, False, False, False, False), transfer)
        r.count(len(visited))
        seen = set()
        for (nid, st) in sorted(visited, key=lambda x: (x[0], str(x[1]))):
            n = cfg.nodes[nid]
            if not calls_at(n, "BucketWriter"):
                continue
            lim, base, enough, pending, corrupt = st
            if lim is False:
                continue
            why = None
            if corrupt:
                why = "the remaining-space budget %s was changed by something other than subtracting allocated_size() or the granted size" % R
            elif not enough:
                why = "no test %s <= %s holds for the current budget" % (S, R)
            elif not base:
                why = "the budget does not account for uploads in progress (%s -= self.allocated_size() not executed)" % R
            elif pending:
                why = "an earlier grant in this call was not subtracted from the budget (%s -= %s missing)" % (R, S)
            if why and (nid, why) not in seen:
                seen.add((nid, why))
                w = witness(cfg, parent, (nid, st))
                r.violation(fn, fn.loc(n.ast), "a BucketWriter can be granted on a space-limited server although %s "
                            "(path: %s)" % (why, w.brief()), w)

    # ------------------------------------------------------------ 2. read-only => nothing available
    with ctx.rule("C28.2", "R1", "StorageServer.get_available_space returns 0 when readonly_storage, else "
                  "fileutil.get_available_space(sharedir, reserved_space)", expected=2) as r:
        fn = idx.func(SS + ".get_available_space")
        cfg = fn.cfg()
        fnorm = FlowNorm(fn)
        rets = cfg.find(is_return)
        if not rets:
            raise AnchorVanished("get_available_space has no return")
        want = norm_src("fileutil.get_available_space(self.sharedir, self.reserved_space)")
        n_zero = 0
        for n in rets:
            v = n.ast.value
            nv = fnorm.norm(n, v) if v is not None else "None"
            if nv == "0":
                n_zero += 1
                r.site(fn, n.ast, "zero")
                continue
            r.site(fn, n.ast, "disk")
            r.require(nv == want, fn, fn.loc(n.ast), "available space is reported as %s, which does not subtract the "
                      "configured reserved_space via fileutil.get_available_space" % nv)
            bad = find_path_avoiding(cfg, lambda x, _n=n: x is _n,
                                     gate_edge=lambda m, lab: fnorm.edge_fact(m, lab) == ("false", "self.readonly_storage", None))
            for (t, w) in bad:
                r.violation(fn, fn.loc(n.ast), "a read-only server can report available space (path: %s)" % w.brief(), w)
        r.require(n_zero >= 1, fn, fn.loc(), "get_available_space never returns 0 for a read-only server")
        for (t, w) in find_path_avoiding(cfg, lambda x: x.kind == "exit", gate_node=is_return):
            r.violation(fn, fn.loc(), "get_available_space can fall off the end (None = unlimited)", w)
        # the attributes it reads
        init = idx.func(SS + ".__init__")
        inorm = FlowNorm(init)
        for attr, wantv in (("reserved_space", "int(reserved_space)"), ("readonly_storage", "readonly_storage")):
            vals = [(n, v) for n in init.cfg().nodes for v in [assign_value(n, "self." + attr)] if v is not None]
            if not vals:
                raise AnchorVanished("StorageServer.__init__ no longer sets self.%s" % attr)
            for (n, v) in vals:
                r.require(inorm.norm(n, v) in (wantv, attr), init, init.loc(v),
                          "self.%s is set to %s, not the configured value" % (attr, src(init, v)))
            for (f, nd) in cg.attr_stores(attr):
                if f.module.name.startswith("allmydata.storage") and f.cls is not None and f.cls.name == "StorageServer" \
                        and f is not init:
                    r.violation(f, f.loc(nd), "%s re-binds self.%s" % (short(f), attr))

    # ------------------------------------------------------------ 3. registration pairing
    with ctx.rule("C28.3", "R2/R4", "every constructed BucketWriter is registered in _bucket_writers; the only removal "
                  "is bucket_writer_closed, reached from close and abort; allocated_size sums the registered writers",
                  expected=6) as r:
        fn = idx.func(SS + ".allocate_buckets")
        # anchors first: a vanished anchor must not be reported as some other function's violation
        bc = idx.func(SS + ".bucket_writer_closed")
        binit = idx.func(BW + ".__init__")
        al = idx.func(SS + ".allocated_size")
        ba = idx.func(BW + ".allocated_size")
        for name in ("close", "abort"):
            idx.func(BW + "." + name)
        cfg = fn.cfg()
        fnorm = FlowNorm(fn)
        for n in [n for n in cfg.nodes if calls_at(n, "BucketWriter")]:
            c = calls_at(n, "BucketWriter")[0]
            r.site(fn, c, "creation")
            bwvar = None
            if isinstance(n.ast, ast.Assign) and len(n.ast.targets) == 1 and isinstance(n.ast.targets[0], ast.Name) \
                    and n.ast.value is c:
                bwvar = n.ast.targets[0].id
            r.require(bwvar is not None, fn, fn.loc(c), "the new BucketWriter is not bound to a local that could be registered")
            inc = arg(c, 1, "incominghome")
            inc_n = fnorm.norm(n, inc) if inc is not None else None

            def registers(m, _v=bwvar, _k=inc_n):
                a = m.ast
                if m.kind != "stmt" or not isinstance(a, ast.Assign):
                    return False
                for t in a.targets:
                    if isinstance(t, ast.Subscript) and attr_path(t.value) == "self._bucket_writers" \
                            and isinstance(a.value, ast.Name) and a.value.id == _v:
                        if fnorm.norm(m, t.slice) == _k or attr_path(t.slice) == "%s.incominghome" % _v:
                            return True
                return False
            ends = lambda m: m.kind in ("exit", "iter") or (m is not n and bool(calls_at(m, "BucketWriter")))
            for (s, w) in find_path_from_to_avoiding(cfg, lambda m, _n=n: m is _n, registers, ends=ends):
                r.violation(fn, fn.loc(c), "a BucketWriter is created without being registered in self._bucket_writers "
                            "under its incominghome - its reservation is not counted by allocated_size() and "
                            "bucket_writer_closed cannot remove it (path: %s)" % w.brief(), w)
        # who may change the registry
        n_store = n_del = 0
        for m in idx.modules.values():
            if "_bucket_writers" not in m.source:
                continue
            for f in [f for f in idx.funcs.values() if f.module is m]:
                for x in func_own_nodes(f, into_lambda=True):
                    if isinstance(x, ast.Subscript) and isinstance(x.value, ast.Attribute) and x.value.attr == "_bucket_writers":
                        if isinstance(x.ctx, ast.Store):
                            n_store += 1
                            r.require(f.qual == "allmydata." + SS + ".allocate_buckets", f, f.loc(x),
                                      "%s stores into _bucket_writers" % short(f))
                        elif isinstance(x.ctx, ast.Del):
                            n_del += 1
                            r.require(f.qual == "allmydata." + SS + ".bucket_writer_closed", f, f.loc(x),
                                      "%s deletes from _bucket_writers" % short(f))
                    elif isinstance(x, ast.Attribute) and x.attr == "_bucket_writers" and not isinstance(x.ctx, ast.Load):
                        r.require(f.qual == "allmydata." + SS + ".__init__", f, f.loc(x),
                                  "%s re-binds _bucket_writers" % short(f))
                    elif isinstance(x, ast.Call) and isinstance(x.func, ast.Attribute) \
                            and isinstance(x.func.value, ast.Attribute) and x.func.value.attr == "_bucket_writers" \
                            and x.func.attr in ("pop", "popitem", "clear", "update", "setdefault", "__delitem__", "__setitem__"):
                        r.violation(f, f.loc(x), "%s changes _bucket_writers with .%s()" % (short(f), x.func.attr))
        if n_store < 1 or n_del < 1:
            raise AnchorVanished("_bucket_writers store/delete sites not found (%d/%d)" % (n_store, n_del))
        # bucket_writer_closed deletes on every path
        bp = first_positional_params(bc)[0]
        bcfg = bc.cfg()

        def deletes(m):
            a = m.ast
            if m.kind == "stmt" and isinstance(a, ast.Delete):
                for t in a.targets:
                    if isinstance(t, ast.Subscript) and attr_path(t.value) == "self._bucket_writers" \
                            and norm_plain(t.slice) == "%s.incominghome" % bp:
                        return True
            return False
        dn = bcfg.find(deletes)
        r.require(bool(dn), bc, bc.loc(), "bucket_writer_closed does not delete self._bucket_writers[%s.incominghome]" % bp)
        for m in dn:
            r.site(bc, m.ast, "removal")
        for (t, w) in find_path_avoiding(bcfg, lambda x: x.kind == "exit", gate_node=deletes):
            r.violation(bc, bc.loc(), "bucket_writer_closed can return without removing the writer (path: %s)" % w.brief(), w)
        # the key attribute
        for attr in ("incominghome", "_max_size"):
            vals = [v for n in binit.cfg().nodes for v in [assign_value(n, "self." + attr)] if v is not None]
            if not vals:
                raise AnchorVanished("BucketWriter.__init__ no longer sets self.%s" % attr)
            for v in vals:
                r.require(isinstance(v, ast.Name) and v.id == attr.lstrip("_"), binit, binit.loc(v),
                          "self.%s is bound to %s" % (attr, src(binit, v)))
        bparams = first_positional_params(binit)
        r.require(bparams[:4] == ["ss", "incominghome", "finalhome", "max_size"], binit, binit.loc(),
                  "BucketWriter.__init__ parameter order changed: %s" % bparams[:4])
        # close and abort release
        def releases(m):
            return any(call_name(c) == "self.ss.bucket_writer_closed" and len(c.args) == 2
                       and isinstance(c.args[0], ast.Name) and c.args[0].id == "self" for c in node_calls(m))
        for name in ("close", "abort"):
            f = idx.func(BW + "." + name)
            fcfg = f.cfg()
            fn2 = FlowNorm(f)
            rel = fcfg.find(releases)
            r.require(bool(rel), f, f.loc(), "BucketWriter.%s never calls ss.bucket_writer_closed(self, ..)" % name)
            for m in rel:
                r.site(f, m.ast, "release in " + name)
            ge = (lambda m, lab, _fn=fn2: _fn.edge_fact(m, lab) == ("truth", "self.closed", None)) if name == "abort" else None
            for (t, w) in find_path_avoiding(fcfg, lambda x: x.kind == "exit", gate_node=releases, gate_edge=ge):
                r.violation(f, f.loc(), "BucketWriter.%s can finish without releasing the reservation (path: %s)" % (
                    name, w.brief()), w)
            # `closed` is set before the release so that the handlers cannot re-enter
        for f in idx.cls(BW).methods.values():
            if f.name in ("close", "abort"):
                continue
            for c in calls_in_func(f, "bucket_writer_closed"):
                r.violation(f, f.loc(c), "%s releases the reservation of a writer that stays open" % short(f))
        # allocated_size
        acfg = al.cfg()
        an = FlowNorm(al)
        pat = re.compile(r"^(list\()?self\._bucket_writers\.values\(\)\)?$")
        ok = False
        heads = [n for n in acfg.nodes if n.kind == "iter" and pat.match(an.norm(n, n.ast.iter))]
        for h in heads:
            tn = loop_target_names(h.ast)
            if len(tn) != 1:
                continue
            v = tn[0]
            accs = [m for m in acfg.nodes if m.kind == "stmt" and isinstance(m.ast, ast.AugAssign)
                    and isinstance(m.ast.op, ast.Add) and isinstance(m.ast.target, ast.Name)
                    and norm_plain(m.ast.value) == "%s.allocated_size()" % v]
            for m in accs:
                acc = m.ast.target.id
                inits = [x for x in acfg.nodes if assign_value(x, acc) is not None]
                rets = acfg.find(is_return)
                # every iteration accumulates, and the accumulator (started at 0) is what is returned
                from_iter = find_path_from_to_avoiding(acfg, lambda x, _h=h: x is _h, lambda x, _m=m: x is _m,
                                                       ends=lambda x, _h=h: x is _h, start_label=lambda l: l == "iter")
                if not from_iter and len(inits) == 1 and norm_plain(assign_value(inits[0], acc)) == "0" \
                        and rets and all(isinstance(x.ast.value, ast.Name) and x.ast.value.id == acc for x in rets) \
                        and not find_path_avoiding(acfg, is_return, gate_edge=lambda x, lab, _h=h: x is _h and lab == "done"):
                    ok = True
        if not ok:
            # sum(bw.allocated_size() for bw in self._bucket_writers.values())
            for n in acfg.find(is_return):
                v = an.resolve(n, n.ast.value) if n.ast.value is not None else None
                if isinstance(v, ast.Call) and call_name(v) == "sum" and len(v.args) == 1 \
                        and isinstance(v.args[0], (ast.GeneratorExp, ast.ListComp)) and len(v.args[0].generators) == 1:
                    g = v.args[0].generators[0]
                    if not g.ifs and isinstance(g.target, ast.Name) and pat.match(norm_plain(g.iter)) \
                            and norm_plain(v.args[0].elt) == "%s.allocated_size()" % g.target.id:
                        ok = True
        r.site(al, None, "allocated_size")
        r.require(ok, al, al.loc(), "allocated_size() is not the sum of bw.allocated_size() over every registered "
                  "BucketWriter - uploads in progress are not (all) counted against the available space")
        for n in ba.cfg().find(is_return):
            r.site(ba, n.ast, "BucketWriter.allocated_size")
            ok = n.ast.value is not None
            if ok:
                try:
                    ok = FlowNorm(ba).at(n).poly(n.ast.value).t.get(("self._max_size",)) == 1
                except Exception:
                    ok = False
            r.require(ok, ba, ba.loc(n.ast), "a writer reports %s as its reservation, which is not based on the "
                      "max_size it was granted" % src(ba, n.ast.value))

    # ------------------------------------------------------------ 4. reserved space in fileutil
    with ctx.rule("C28.4", "R5", "fileutil.get_disk_stats: avail = max(free_for_nonroot - reserved_space, 0); "
                  "fileutil.get_available_space returns that, 0 on OS failure", expected=2) as r:
        ds = idx.func(FU + ":get_disk_stats")
        dn_ = FlowNorm(ds)
        dps = ds.params
        if len(dps) < 2:
            raise AnchorVanished("get_disk_stats(whichdir, reserved_space) signature changed")
        resv = dps[1]
        found = False
        for n in ds.cfg().find(is_return):
            v = dn_.resolve(n, n.ast.value) if n.ast.value is not None else None
            if not isinstance(v, ast.Dict):
                r.violation(ds, ds.loc(n.ast), "get_disk_stats returns %s, not the statistics dict" % src(ds, v))
                continue
            for k, val in zip(v.keys, v.values):
                if isinstance(k, ast.Constant) and k.value == "avail":
                    found = True
                    r.site(ds, val, "avail")
                    e = dn_.resolve(n, val)
                    free_atom = None
                    # max(X - reserved, 0); the clamp itself is not needed by allocate_buckets (a negative
                    # figure grants nothing), so the unclamped difference is accepted as well
                    if isinstance(e, ast.Call) and call_name(e) == "max" and len(e.args) == 2 and not e.keywords:
                        parts = [dn_.at(n).poly(a) for a in e.args]
                        zero = [p for p in parts if p.const_value() == 0]
                        rest = [p for p in parts if p.const_value() != 0]
                        ok = len(zero) == 1 and len(rest) == 1
                    elif isinstance(e, ast.BinOp):
                        rest = [dn_.at(n).poly(e)]
                        ok = True
                    else:
                        ok = False
                    if ok:
                        if True:
                            t = rest[0].t
                            pos = [kk for kk, c in t.items() if c == 1 and len(kk) == 1 and kk[0] != resv]
                            ok = len(t) == 2 and t.get((resv,)) == -1 and len(pos) == 1
                            if ok:
                                free_atom = pos[0][0]
                    r.require(ok, ds, ds.loc(val), "avail is %s, not max(<free for non-root> - %s, 0): the reserved "
                              "space is not kept free" % (src(ds, e), resv))
                    if ok and re.match(r"^\w+$", free_atom):
                        defs = [d for d in (all_defs(ds).get(free_atom) or []) if d is not None]
                        srcs = " ".join(norm_plain(d) for d in defs)
                        r.require("f_bavail" in srcs and "f_bfree" not in srcs, ds, ds.loc(val),
                                  "the free figure %s is not the non-root free space (f_bavail)" % free_atom)
        if not found:
            raise AnchorVanished("get_disk_stats no longer returns an 'avail' entry")
        ga = idx.func(FU + ":get_available_space")
        gcfg = ga.cfg()
        gn = FlowNorm(ga)
        gps = ga.params
        want = norm_src("get_disk_stats(%s, %s)['avail']" % (gps[0], gps[1]))
        main_rets = 0
        for n in gcfg.find(is_return):
            v = n.ast.value
            nv = gn.norm(n, v) if v is not None else "None"
            if nv == want:
                main_rets += 1
                r.site(ga, n.ast, "avail returned")
        r.require(main_rets >= 1, ga, ga.loc(), "fileutil.get_available_space does not return %s" % want)
        for h in gcfg.find(lambda n: n.kind == "except"):
            names = C._handler_names(h.ast.type)
            vis, par = explore(gcfg, 0, lambda a_, l_, nx, s_: 0, start=h)
            for (nid, _s) in sorted(vis):
                m = gcfg.nodes[nid]
                if is_return(m):
                    v = m.ast.value
                    nv = gn.norm(m, v) if v is not None else "None"
                    if names == ["AttributeError"] and nv == "None":
                        continue   # documented: platform has no API at all
                    r.require(nv == "0", ga, ga.loc(m.ast), "after a failed OS call (%s) the available space is "
                              "reported as %s instead of 0 - None means unlimited to allocate_buckets" % (
                                  "/".join(names or ["any"]), nv))
                if m.kind == "exit" and not any(is_return(gcfg.nodes[p]) for (p, _l) in gcfg.pred[nid]):
                    r.violation(ga, ga.loc(h.ast), "a failed OS call falls through to an implicit None (= unlimited)")
        for n in gcfg.find(is_return):
            v = n.ast.value
            nv = gn.norm(n, v) if v is not None else "None"
            r.require(nv in (want, "0", "None"), ga, ga.loc(n.ast), "fileutil.get_available_space returns %s" % nv)

    # ------------------------------------------------------------ 5. nothing raises between "abort" and the release
    with ctx.rule("C28.5", "E3/E4", "from the fired inactivity timer to ss.bucket_writer_closed: no cancel/reset/delay "
                  "of that (already fired) DelayedCall before the release unless guarded by .active() or caught",
                  expected=2) as r:
        check_timer_release(idx, idx.cls(BW), r)

    # ------------------------------------------------------------ 6. directory clean-up must not hold the release back
    with ctx.rule("C28.6", "E3/E4", "close/abort: an os.rmdir of the (shared) incoming directories executed before "
                  "ss.bucket_writer_closed is guarded by an emptiness test of that directory or its OSError is caught",
                  expected=2) as r:
        check_rmdir_release(idx, idx.cls(BW), r)
