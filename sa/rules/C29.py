"""C29 Share containers survive a server crash.

Decided: write ordering inside the lease operations, the regions they write,
start-up cleaning of incoming/, and a symbolic check that the data-region bound
recomputed on re-open is the same after every prefix of a lease operation's file
effects, and 'absent or complete': no written byte is still in a user-space
buffer when BucketWriter publishes the share by rename, and nothing writes share
data after that rename (DESIGN.md section 5, C29)."""
from sa.h import *
from fractions import Fraction
from sa.rules.C25 import hashed_representation_closed      # one necessary condition, two properties

EXPLANATION = (
    "Decided (structural): (1) ShareFile.add_lease packs the new lease count (so an unencodable count raises before "
    "any write), then writes the lease record at index = current count, then writes the count; both writes happen on "
    "every normal path. (2) ShareFile.cancel_lease rewrites the surviving records, then the count, then truncates, "
    "all with len(survivors); an entry is dropped from the lease list only on the matched branch of "
    "<lease>.is_cancel_secret(secret) for that entry; the share file is unlinked only when no lease survives (immutable "
    "and mutable). "
    "(3) StorageServer.__init__ calls _clean_incomplete() (= fileutil.rm_dir(self.incomingdir)) on every path, after "
    "incomingdir is set, and nothing else calls it; incomingdir is os.path.join(<non-constant base>, <constant proper "
    "relative components>) - never the share directory itself or an absolute later component - is not re-bound after the "
    "cleaning, and every BucketWriter is constructed on a path os.path.join(self.incomingdir, ...). (4) Lease operations write only outside the "
    "data region: immutable records at _lease_offset + k*LEASE_SIZE, the count at 0x08 with at most 4 bytes, truncate "
    "at _lease_offset + k*LEASE_SIZE; mutable records at HEADER_SIZE + k*LEASE_SIZE only for k < 4 "
    "(HEADER_SIZE + 4*LEASE_SIZE == DATA_OFFSET by constant folding) or behind the extra-lease offset; the lease "
    "methods call no data-writing helper and never open the share in a truncating mode; the immutable data region "
    "[_data_offset, _data_offset + max_size) starts at or after the end of the count field (0x0c) and ends at or before "
    "the creation-time lease area (max_size + K, K >= _data_offset, constants folded), and neither offset is re-bound "
    "outside ShareFile.__init__. (5) Symbolic crash check: "
    "with F = file size and N = stored lease count, ShareFile.__init__ recomputes the end of the data region as "
    "F - N*LEASE_SIZE; the ordered file effects of add_lease / cancel_lease are replayed on (F, N) and the formula "
    "must give the same value after every prefix. (6) MutableShareFile._write_lease_record: when a new extra-lease "
    "slot is appended, the record is written before the slot count that makes it visible; the count written is at most "
    "one above the stored count (or lease_number - 3), and it is written only on paths that passed a test establishing "
    "lease_number - 4 >= stored count (directly, or through a boolean flag whose every true assignment is so guarded) - "
    "never after a write to a header slot or an existing extra slot. "
    "(7) Absent-or-complete, buffers: every creation of a buffered writable file object in ShareFile / BucketWriter is "
    "classified (with-block: closed when the block is left; local name only: released when the method returns, which "
    "assumes CPython reference counting; stored in an instance attribute: it outlives the call). For each file object "
    "that outlives its call, every path to the publishing rename in BucketWriter must pass a close()/flush() of it "
    "(directly, through a ShareFile method that flushes on all its normal paths or finds the attribute None, or through "
    "a BucketWriter helper doing so), with no write through it in between; a file object opened in the publishing "
    "function itself must be closed/flushed before the rename. (8) After the publishing rename no data-writing "
    "ShareFile method (one that write()s/truncate()s outside the lease helpers), no BucketWriter helper reaching one "
    "and no write through a kept file object is reachable. "
    "(9) A lease-only operation does not cost the share the lease it touches: the record a renewal writes back into a "
    "hashed-secret (v2) container stays in the hashed representation, so that its secrets are not hashed a second time "
    "(after which neither secret would match the lease any more - the share has silently lost it). Decided with the "
    "closure check shared with C25.12: HashedLeaseSerializer.serialize hashes only under a type test no wrapper object "
    "passes, the wrapper class is not a plain-lease subclass, every used lease-producing method of the proxied interface "
    "(renew) is overridden by the wrapper with wrapper-typed returns only, and the containers write back only given / "
    "stored / wrapper-derived leases. "
    "Undecided (value level): that callers pass lease_number == 4 + stored count when they append a mutable lease; which "
    "secret a lease holds (renew/cancel matching itself, expiry comparisons, NoSpace accounting belong to the lease "
    "properties); the value get_length() reports (_length); negative offsets / oversize writes in write_share_data "
    "(bounded by C22.5); "
    "everything that needs real crash points - torn writes inside one f.write, fsync/ordering in the OS, "
    "the documented windows in MutableShareFile._change_container_size/_write_share_data (known non-claims).")
TECHNIQUE = ("static analysis: CFG must-precede/must-follow rules, normalised seek/truncate targets, constant folding, "
             "symbolic replay of file effects against the re-open formula, escape classification of file objects + "
             "must-flush-before-rename typestate")

IMM = "storage.immutable"
MUT = "storage.mutable"
SF = IMM + ":ShareFile"
MSF = MUT + ":MutableShareFile"
SS = "storage.server:StorageServer"

LS = "self.LEASE_SIZE"


def loop_target_names(for_node):
    t = for_node.target
    if isinstance(t, ast.Name):
        return [t.id]
    if isinstance(t, (ast.Tuple, ast.List)):
        return [e.id if isinstance(e, ast.Name) else None for e in t.elts]
    return []


def _atom_defs(fn, atom):
    if re.match(r"^[A-Za-z_]\w*$", atom):
        ds = all_defs(fn).get(atom) or []
        if ds and all(d is not None for d in ds):
            return [norm_plain(d) for d in ds]
        return []
    return [atom]


def _is_filesize(fn, atom):
    ds = _atom_defs(fn, atom)
    return bool(ds) and all(d in ("os.path.getsize(self.home)", "os.stat(self.home).st_size",
                                   "os.stat(self.home)[stat.ST_SIZE]") for d in ds)


def _is_header_count(fn, atom):
    ds = _atom_defs(fn, atom)
    return bool(ds) and all(re.match(r"^struct\.unpack\('>LLL', .*\)\[2\]$", d) for d in ds)


def dominated(cfg, target_node, gate_pred, gate_edge=None):
    """[] when every path entry -> target_node passes a node satisfying gate_pred (or a gate edge)."""
    return find_path_avoiding(cfg, lambda x: x is target_node, gate_node=gate_pred, gate_edge=gate_edge)


def enclosing_loop(cfg, node):
    """The `iter` head whose body contains `node` (node reaches the head again without passing the exit), if any."""
    for h in cfg.nodes:
        if h.kind != "iter":
            continue
        body = {id(x) for st in h.ast.body for x in ast.walk(st)}
        if node.ast is not None and id(node.ast) in body:
            return h
    return None

# ------------------------------------------------------------------ buffered file objects (C29.7 / C29.8)
BW = IMM + ":BucketWriter"
OPEN_TAILS = {"open", "fdopen"}
RENAME_TAILS = {"rename", "renames", "replace", "move", "rename_no_overwrite", "replace_file", "link"}
HANDLE_CLEAN = {"close", "flush"}
# methods of a file object that put nothing new into its write buffer
HANDLE_QUIET = HANDLE_CLEAN | {"tell", "fileno", "seek", "read", "readline", "readlines", "readinto", "seekable",
                               "readable", "writable", "isatty"}
FILE_WRITES = {"write", "writelines", "truncate"}
LEASE_FX = {"_write_lease_record", "_write_encoded_num_leases", "_write_num_leases", "_truncate_leases"}


def _buffered_write_open(c):
    """`c` creates a file object that has a user-space write buffer (open/io.open/os.fdopen/path.open in a mode that
    can write, not unbuffered).  os.open returns a descriptor and is not buffered."""
    if call_tail(c) not in OPEN_TAILS or call_name(c) == "os.open":
        return False
    pos = 1 if call_name(c) in ("open", "io.open", "os.fdopen", "codecs.open") else 0
    mode = arg(c, pos, "mode")
    if mode is None:
        return False                                   # default mode 'r'
    if isinstance(mode, ast.Constant) and isinstance(mode.value, str):
        if not any(ch in mode.value for ch in "wax+"):
            return False
    buf = arg(c, pos + 1, "buffering")
    if isinstance(buf, ast.Constant) and buf.value == 0:
        return False
    return True


def _all_funcs_of(ci):
    out = []

    def rec(f):
        out.append(f)
        for g in f.nested.values():
            rec(g)
    for m in ci.methods.values():
        rec(m)
    return out


def _cfg_node_of(fn, call):
    for n in fn.cfg().nodes:
        if any(x is call for x in node_calls(n, into_lambda=True)):
            return n
    return None


_VIEW_CALLS = {"sorted", "reversed", "list", "tuple"}


def _view_base(e):
    """`e` denotes (a re-ordering of) a subsequence of a local list L: L, L[a:b], sorted(L), list(L) ... -> 'L'."""
    while True:
        if isinstance(e, ast.Name):
            return e.id
        if isinstance(e, ast.Subscript) and isinstance(e.slice, ast.Slice):
            e = e.value
            continue
        if isinstance(e, ast.Call) and isinstance(e.func, ast.Name) and e.func.id in _VIEW_CALLS and len(e.args) == 1 \
                and not any(isinstance(a_, ast.Starred) for a_ in e.args) and all(k.arg == "key" or k.arg == "reverse"
                                                                                  for k in e.keywords):
            e = e.args[0]
            continue
        return None


def _list_feeds(fn, lname):
    """Every use of the local name `lname` in fn, classified.  The list may only be born empty, grow by
    `L.append(X)` statements and be narrowed / re-ordered by `L = <view of L>` or `L = [x for x in <view of L> if c]`;
    it may be iterated, measured and tested.  Anything else (extend, +=, item stores, escapes into calls, nested
    functions, returns) makes its contents undecidable here -> AnalysisError.  Returns the append calls."""
    parent = {}
    for p in ast.walk(fn.node):
        for ch in ast.iter_child_nodes(p):
            parent[id(ch)] = p
    if lname in fn.params:
        raise AnalysisError("%s: the list %s is a parameter; cannot tell what it holds" % (short(fn), lname))
    appends = []

    def is_empty_list(v):
        return (isinstance(v, ast.List) and not v.elts) or \
            (isinstance(v, ast.Call) and isinstance(v.func, ast.Name) and v.func.id == "list" and not v.args and not v.keywords)

    def is_self_narrowing(v):
        if _view_base(v) == lname:
            return True
        if isinstance(v, ast.ListComp) and len(v.generators) == 1 and not v.generators[0].is_async:
            g = v.generators[0]
            return isinstance(g.target, ast.Name) and isinstance(v.elt, ast.Name) and v.elt.id == g.target.id \
                and _view_base(g.iter) == lname
        return False

    def top_of_view(x):
        # climb through slices / sorted() ... wrapped around the name
        while True:
            p = parent.get(id(x))
            if isinstance(p, ast.Subscript) and p.value is x and isinstance(p.slice, ast.Slice):
                x = p
            elif isinstance(p, ast.Call) and isinstance(p.func, ast.Name) and p.func.id in _VIEW_CALLS and len(p.args) == 1 \
                    and p.args[0] is x:
                x = p
            else:
                return x, p

    for x in ast.walk(fn.node):
        if not (isinstance(x, ast.Name) and x.id == lname):
            continue
        # inside a nested def / lambda: give up
        q = parent.get(id(x))
        while q is not None and q is not fn.node:
            if isinstance(q, (ast.FunctionDef, ast.AsyncFunctionDef, ast.Lambda, ast.ClassDef)):
                raise AnalysisError("%s: the list %s is used inside a nested function" % (short(fn), lname))
            q = parent.get(id(q))
        p = parent.get(id(x))
        if isinstance(x.ctx, ast.Store):
            if isinstance(p, ast.Assign) and len(p.targets) == 1 and p.targets[0] is x and \
                    (is_empty_list(p.value) or is_self_narrowing(p.value)):
                continue
            raise AnalysisError("%s: cannot follow what is stored into the list %s at line %s" % (
                short(fn), lname, getattr(x, "lineno", "?")))
        if not isinstance(x.ctx, ast.Load):
            raise AnalysisError("%s: the list %s is deleted" % (short(fn), lname))
        # L.append(X) as a statement
        if isinstance(p, ast.Attribute) and p.value is x:
            c = parent.get(id(p))
            if p.attr == "append" and isinstance(c, ast.Call) and c.func is p and len(c.args) == 1 and not c.keywords \
                    and not isinstance(c.args[0], ast.Starred) and isinstance(parent.get(id(c)), ast.Expr):
                appends.append(c)
                continue
            if p.attr in ("index", "count", "copy") and isinstance(c, ast.Call) and c.func is p:
                continue
            raise AnalysisError("%s: cannot follow %s.%s" % (short(fn), lname, p.attr))
        top, tp = top_of_view(x)
        if isinstance(tp, (ast.For, ast.AsyncFor)) and tp.iter is top:
            continue
        if isinstance(tp, ast.comprehension) and tp.iter is top:
            continue        # reading it in a comprehension (incl. the self-narrowing one)
        if isinstance(tp, ast.Assign) and tp.value is top and len(tp.targets) == 1 and isinstance(tp.targets[0], ast.Name) \
                and tp.targets[0].id == lname:
            continue
        if isinstance(tp, ast.Call) and isinstance(tp.func, ast.Name) and tp.func.id in ("len", "bool") and top in tp.args:
            continue
        if isinstance(tp, (ast.If, ast.While, ast.IfExp)) and tp.test is top:
            continue
        if isinstance(tp, ast.UnaryOp) and isinstance(tp.op, ast.Not):
            continue
        if isinstance(tp, ast.BoolOp):
            continue
        if isinstance(tp, ast.Compare) and all(isinstance(o, (ast.Eq, ast.NotEq, ast.Is, ast.IsNot)) for o in tp.ops):
            continue
        raise AnalysisError("%s: the list %s escapes at line %s; cannot tell what it holds" % (
            short(fn), lname, getattr(x, "lineno", "?")))
    return appends


def carried_sources(fn, node, exprs, depth=3):
    """Reaching definitions through `L.append((a, b, c))` + `for (x, y, z) in L`.

    For each expression of `exprs` (evaluated at CFG node `node`) that is a plain name bound only by the target of a
    for-loop over (a view of) a local list, step back to the element expression at the append statement.  Returns the
    alternatives [[(node_i, expr_i) for each expr], ...] - one alternative per combination of append statements
    (names unpacked by the same loop head step back to the same append).  Names not bound by a loop stay (node, expr).
    Shapes that cannot be followed raise AnalysisError (fail closed)."""
    cfg = fn.cfg()
    rd = C.reaching_defs(cfg)
    per = []
    for e in exprs:
        hit = None
        if isinstance(e, ast.Name):
            defs = rd.get(node.id, {}).get(e.id, frozenset())
            dn = [cfg.nodes[d] for d in defs if d != C.PARAM_DEF]
            heads = [d for d in dn if d.kind == "iter"]
            if heads and (len(heads) != len(defs)):
                raise AnalysisError("%s: %s is bound by a loop and by something else" % (short(fn), e.id))
            if heads:
                if len(heads) != 1:
                    raise AnalysisError("%s: %s is bound by several loops" % (short(fn), e.id))
                h = heads[0]
                tgt = h.ast.target
                if isinstance(tgt, ast.Name):
                    k = None
                elif isinstance(tgt, (ast.Tuple, ast.List)) and all(isinstance(t_, ast.Name) for t_ in tgt.elts):
                    k = [t_.id for t_ in tgt.elts].index(e.id)
                else:
                    raise AnalysisError("%s: cannot follow the loop target that binds %s" % (short(fn), e.id))
                lname = _view_base(h.ast.iter)
                if lname is not None and lname not in fn.params and lname in all_defs(fn):
                    apps = _list_feeds(fn, lname)
                    if not apps:
                        raise AnalysisError("%s: nothing is ever appended to %s" % (short(fn), lname))
                    srcs = []
                    for c in apps:
                        x = c.args[0]
                        if k is None:
                            el = x
                        elif isinstance(x, ast.Tuple) and len(x.elts) == len(tgt.elts) \
                                and not any(isinstance(y, ast.Starred) for y in x.elts):
                            el = x.elts[k]
                        else:
                            raise AnalysisError("%s: %s.append(%s) does not match the loop target" % (short(fn), lname, src(fn, x)))
                        srcs.append((_cfg_node_of_strict(fn, c), el))
                    hit = (h.id, srcs)
        per.append(hit)
    alts = [([], {})]
    for e, hit in zip(exprs, per):
        nxt = []
        for (pairs, chosen) in alts:
            if hit is None:
                nxt.append((pairs + [(node, e)], chosen))
                continue
            hid, srcs = hit
            if hid in chosen:
                nxt.append((pairs + [srcs[chosen[hid]]], chosen))
            else:
                for i, s in enumerate(srcs):
                    ch = dict(chosen)
                    ch[hid] = i
                    nxt.append((pairs + [s], ch))
        alts = nxt
    out = []
    for (pairs, _c) in alts:
        if depth > 0 and any(p[0] is not node for p in pairs):
            # an element may itself have been carried through an earlier list
            nodes_ = {id(p[0]) for p in pairs}
            if len(nodes_) == 1:
                for sub in carried_sources(fn, pairs[0][0], [p[1] for p in pairs], depth - 1):
                    out.append(sub)
                continue
        out.append(pairs)
    return out


def _cfg_node_of_strict(fn, call):
    n = _cfg_node_of(fn, call)
    if n is None:
        raise AnalysisError("call not found in CFG of %s" % fn.qual)
    return n


def _index_selection(fn, g, comp, cparam):
    """[l for (i, l) in enumerate(L) if i not in C] with C = [i for (i, l) in enumerate(L) if l.is_cancel_secret(secret)]
    (the only binding of C): exactly the leases matching the cancel secret leave the list."""
    def enum_of(gen):
        if isinstance(gen.target, ast.Tuple) and len(gen.target.elts) == 2 and all(isinstance(t, ast.Name) for t in gen.target.elts) \
                and isinstance(gen.iter, ast.Call) and call_name(gen.iter) == "enumerate" and len(gen.iter.args) == 1 \
                and not gen.iter.keywords and isinstance(gen.iter.args[0], ast.Name) and not gen.is_async:
            return gen.target.elts[0].id, gen.target.elts[1].id, gen.iter.args[0].id
        return None
    e1 = enum_of(g)
    if e1 is None or len(g.ifs) != 1 or len(comp.generators) != 1:
        return False
    i1, l1, seq1 = e1
    cond = g.ifs[0]
    if not (isinstance(comp.elt, ast.Name) and comp.elt.id == l1 and isinstance(cond, ast.Compare) and len(cond.ops) == 1
            and isinstance(cond.ops[0], ast.NotIn) and isinstance(cond.left, ast.Name) and cond.left.id == i1
            and isinstance(cond.comparators[0], ast.Name)):
        return False
    cname = cond.comparators[0].id
    ds = all_defs(fn).get(cname) or []
    if len(ds) != 1 or not isinstance(ds[0], (ast.ListComp, ast.SetComp)) or len(ds[0].generators) != 1 or cname in fn.params:
        return False
    # the index collection must not be changed afterwards (only read)
    for x in ast.walk(fn.node):
        if isinstance(x, ast.Attribute) and isinstance(x.value, ast.Name) and x.value.id == cname:
            return False
        if isinstance(x, ast.Subscript) and isinstance(x.value, ast.Name) and x.value.id == cname and not isinstance(x.ctx, ast.Load):
            return False
        if isinstance(x, ast.AugAssign) and isinstance(x.target, ast.Name) and x.target.id == cname:
            return False
    g2 = ds[0].generators[0]
    e2 = enum_of(g2)
    if e2 is None or len(g2.ifs) != 1:
        return False
    i2, l2, seq2 = e2
    c2 = g2.ifs[0]
    return seq2 == seq1 and isinstance(ds[0].elt, ast.Name) and ds[0].elt.id == i2 and isinstance(c2, ast.Call) \
        and attr_path(c2.func) == "%s.is_cancel_secret" % l2 and len(c2.args) == 1 and not c2.keywords \
        and attr_path(c2.args[0]) == cparam


class _Handle:
    """One place where a buffered, writable file object on the container is created."""
    def __init__(self, fn, node, call, kind, names=(), attrs=()):
        self.fn, self.node, self.call, self.kind = fn, node, call, kind
        self.names = set(names)       # local names bound to the object
        self.attrs = set(attrs)       # self.<attr> the object is stored in (it outlives the call)


def _survey_handles(ci):
    """Classify every creation of a buffered writable file object in the methods of `ci`:
    'with' (closed when the block is left), 'local' (bound to local names only: released when the method returns),
    'attr' (stored in an instance attribute: outlives the call), 'temp' (open(..).write(..) chain).
    A method that returns such an object makes its callers creation sites as well."""
    producers = set()
    handles = []
    for _round in range(3):
        handles = []
        grew = False
        for fn in _all_funcs_of(ci):
            calls = [c for c in calls_in_func(fn, into_lambda=True)
                     if _buffered_write_open(c) or (attr_path(c.func) or "").startswith("self.")
                     and call_tail(c) in producers and attr_path(c.func) == "self." + call_tail(c)]
            for c in calls:
                n = _cfg_node_of(fn, c)
                if n is None:
                    raise AnalysisError("%s: cannot locate %s in the control-flow graph" % (short(fn), src(fn, c)))
                a = n.ast
                if n.kind == "with":
                    managed = False
                    names = []
                    for it in a.items:
                        ce = it.context_expr
                        if ce is c or (isinstance(ce, ast.Call) and call_tail(ce) == "closing" and ce.args and ce.args[0] is c):
                            managed = True
                            if isinstance(it.optional_vars, ast.Name):
                                names.append(it.optional_vars.id)
                    if managed:
                        handles.append(_Handle(fn, n, c, "with", names))
                        continue
                if n.kind == "stmt" and isinstance(a, ast.Return) and a.value is c:
                    if fn.name not in producers and fn.cls is ci and fn.parent is None:
                        producers.add(fn.name)
                        grew = True
                    continue
                if n.kind == "stmt" and isinstance(a, (ast.Assign, ast.AnnAssign)) and a.value is c:
                    tg = a.targets if isinstance(a, ast.Assign) else [a.target]
                    names = {t.id for t in tg if isinstance(t, ast.Name)}
                    attrs = {t.attr for t in tg if isinstance(t, ast.Attribute) and attr_path(t.value) == "self"}
                    if len(names) + len(attrs) != len(tg):
                        raise AnalysisError("%s: cannot track the file object bound by %s" % (short(fn), src(fn, a)))
                    # aliases and escapes of the local names
                    defs = all_defs(fn)
                    for _i in range(4):
                        for nm, ds in defs.items():
                            if nm not in names and any(isinstance(d, ast.Name) and d.id in names for d in ds if d is not None):
                                names.add(nm)
                    returned = passed = False
                    for m in fn.cfg().nodes:
                        b = m.ast
                        if m.kind != "stmt" or b is None:
                            continue
                        if isinstance(b, ast.Assign) and isinstance(b.value, ast.Name) and b.value.id in names:
                            for t in b.targets:
                                if isinstance(t, ast.Attribute) and attr_path(t.value) == "self":
                                    attrs.add(t.attr)
                                elif not isinstance(t, ast.Name):
                                    passed = True
                        if isinstance(b, ast.Return) and isinstance(b.value, ast.Name) and b.value.id in names:
                            returned = True
                        for cc in node_calls(m, into_lambda=True):
                            for x in list(cc.args) + [k.value for k in cc.keywords]:
                                if any(isinstance(y, ast.Name) and y.id in names for y in own_nodes(x, into_lambda=True)):
                                    passed = True
                    if returned:
                        if fn.name not in producers and fn.cls is ci and fn.parent is None:
                            producers.add(fn.name)
                            grew = True
                        continue
                    h = _Handle(fn, n, c, "attr" if attrs else "local", names, attrs)
                    if passed and not attrs:
                        # handed to other code: fine when it is closed on every normal path anyway
                        fno = FlowNorm(fn)
                        closes = lambda m, _nm=names: any(
                            call_tail(cc) == "close" and isinstance(cc.func, ast.Attribute)
                            and isinstance(cc.func.value, ast.Name) and cc.func.value.id in _nm for cc in node_calls(m))
                        if find_path_avoiding(fn.cfg(), lambda x: x.kind == "exit", gate_node=closes, start=n,
                                              skip_exc_edges=True):
                            raise AnalysisError("%s: the file object %s is passed to other code and not closed on every "
                                                "path; cannot track it" % (short(fn), src(fn, c)))
                    handles.append(h)
                    continue
                par = [x for x in own_nodes(a, into_lambda=True) if isinstance(x, ast.Attribute) and x.value is c] \
                    if a is not None else []
                if par:
                    handles.append(_Handle(fn, n, c, "temp"))
                    continue
                raise AnalysisError("%s: cannot track the file object created by %s" % (short(fn), src(fn, c)))
        if not grew:
            break
    return handles


def _self_call_closure(ci, seed_names):
    """Names of methods of `ci` that reach a method in seed_names through self.<m>() calls (seed included)."""
    names = set(seed_names)
    for _i in range(6):
        for m in _all_funcs_of(ci):
            top = m
            while top.parent is not None:
                top = top.parent
            if top.name in names:
                continue
            if any(attr_path(c.func) == "self." + call_tail(c) and call_tail(c) in names
                   for c in calls_in_func(m, into_lambda=True)):
                names.add(top.name)
    return names


def _share_attrs(idx, bw, sf):
    """Instance attributes of the bucket writer that are bound to a ShareFile(...)."""
    out = set()
    for m in _all_funcs_of(bw):
        for n in m.cfg().nodes:
            if n.kind == "stmt" and isinstance(n.ast, ast.Assign) and isinstance(n.ast.value, ast.Call):
                k = idx.resolve_expr_to_class(m.module, n.ast.value.func)
                if k is not None and sf in k.mro():
                    out |= {t.attr for t in n.ast.targets if isinstance(t, ast.Attribute) and attr_path(t.value) == "self"}
    if not out:
        raise AnchorVanished("BucketWriter no longer holds a ShareFile")
    return out


class _BufferState:
    """Must-analysis 'nothing is pending in the write buffer of <owner>.<attr>' inside one function.

    recv      : normalised receiver paths of the file object, e.g. {'self._writer'} or {'self._sharefile._writer'}
    gates     : {owner path: method names that flush/close the object on every normal path}
    kills     : {owner path: method names that may write through the object}"""
    def __init__(self, fn, recv, gates, kills):
        self.fn, self.recv, self.gates, self.kills = fn, set(recv), gates, kills
        self.fno = FlowNorm(fn)

    def _recv_norm(self, n, e):
        try:
            return self.fno.norm(n, e)
        except Exception:
            return attr_path(e) or ""

    def clean_node(self, n):
        for c in node_calls(n):
            if not isinstance(c.func, ast.Attribute):
                continue
            rv = self._recv_norm(n, c.func.value)
            if c.func.attr in HANDLE_CLEAN and rv in self.recv:
                return True
            if c.func.attr in self.gates.get(rv, ()):
                return True
        return False

    def clean_edge(self, n, lab):
        ef = self.fno.edge_fact(n, lab)
        if not ef:
            return False
        if ef[0] == "false" and ef[1] in self.recv:
            return True
        return ef[0] == "is" and {ef[1], ef[2]} in [{p, "None"} for p in self.recv]

    def dirty_node(self, n):
        for c in node_calls(n, into_lambda=True):
            if isinstance(c.func, ast.Attribute):
                rv = self._recv_norm(n, c.func.value)
                if rv in self.recv and c.func.attr not in HANDLE_QUIET:
                    return True
                if c.func.attr in self.kills.get(rv, ()) and c.func.attr not in self.gates.get(rv, ()):
                    return True
            for x in list(c.args) + [k.value for k in c.keywords]:
                if isinstance(x, (ast.Name, ast.Attribute)) and self._recv_norm(n, x) in self.recv:
                    return True
        if n.kind == "stmt" and isinstance(n.ast, ast.Assign) and (set(node_stores(n)) & self.recv):
            v = n.ast.value
            if not (isinstance(v, ast.Constant) and v.value is None):
                return True
        return False

    def pending_at(self, targets):
        """[(node, witness)] for paths entry -> target on which the buffer may still hold bytes."""
        return find_path_avoiding(self.fn.cfg(), targets, gate_node=self.clean_node, gate_edge=self.clean_edge,
                                  kill=self.dirty_node)


def _flushers(ci, attr, touchers):
    """Methods of `ci` after which self.<attr> holds no pending bytes on every normal return path."""
    names = set()
    for _i in range(3):
        for m in ci.methods.values():
            if m.name in names or m.name not in touchers:
                continue
            bs = _BufferState(m, {"self." + attr}, {"self": names}, {"self": touchers})
            if not bs.pending_at(lambda x: x.kind == "exit"):
                names.add(m.name)
    return names


def run(ctx: Context):
    idx = ctx.idx
    cg = get_callgraph(idx)
    folder = get_folder(idx)

    # ---------------------------------------------------------------- 1. add_lease ordering
    with ctx.rule("C29.1", "R1", "ShareFile.add_lease: new count encodable before any write; lease record written "
                  "before the lease count; both on every normal path", expected=2) as r:
        fn = idx.func(SF + ".add_lease")
        idx.func(SF + "._write_lease_record")
        idx.func(SF + "._write_encoded_num_leases")
        cfg = fn.cfg()
        fnorm = FlowNorm(fn)
        lease_p = first_positional_params(fn)[0]
        COUNT = "self._read_num_leases(f)"
        fvars = {t for n in cfg.nodes if n.kind == "with" for t in node_stores(n)}

        def count_read(s):
            return any(s == "self._read_num_leases(%s)" % v for v in fvars)

        def new_count(s):
            return any(s == norm_src("self._read_num_leases(%s) + 1" % v) for v in fvars)

        def is_rec(n):
            return bool(calls_at(n, "_write_lease_record"))

        def packs(n):
            for c in calls_at(n, "pack"):
                if len(c.args) == 2 and fnorm.norm(n, c.args[0]) == "self._lease_count_format" and new_count(fnorm.norm(n, c.args[1])):
                    return True
            return False

        def is_cnt(n):
            for c in calls_at(n, "_write_encoded_num_leases"):
                v = fnorm.resolve(n, c.args[1]) if len(c.args) == 2 else None
                if isinstance(v, ast.Call) and call_tail(v) == "pack" and len(v.args) == 2 and new_count(fnorm.norm(n, v.args[1])):
                    return True
            for c in calls_at(n, "_write_num_leases"):
                if len(c.args) == 2 and new_count(fnorm.norm(n, c.args[1])):
                    return True
            return False
        recs = cfg.find(is_rec)
        cnts = cfg.find(lambda n: bool(calls_at(n, "_write_encoded_num_leases") or calls_at(n, "_write_num_leases")))
        if not recs or not cnts:
            raise AnchorVanished("add_lease no longer writes a record and a count")
        for n in recs:
            r.site(fn, n.ast, "record")
            c = calls_at(n, "_write_lease_record")[0]
            ok = len(c.args) == 3 and count_read(fnorm.norm(n, c.args[1])) and fnorm.norm(n, c.args[2]) == lease_p
            r.require(ok, fn, fn.loc(c), "the new lease is written as %s; it must go to slot <current count> and carry "
                      "the lease given by the caller - another slot overwrites an existing lease" % src(fn, c))
            for (t, w) in dominated(cfg, n, packs):
                r.violation(fn, fn.loc(c), "the lease record is written before the new lease count is known to be "
                            "encodable (struct.pack(self._lease_count_format, count+1) must come first): an overflow "
                            "then leaves a record without a count", w)
        for n in cnts:
            r.site(fn, n.ast, "count")
            r.require(is_cnt(n), fn, fn.loc(n.ast), "the stored lease count is not <current count> + 1: %s" % src(fn, n.ast))
            for (t, w) in dominated(cfg, n, is_rec):
                r.violation(fn, fn.loc(n.ast), "the lease count is written before the lease record: after a crash the "
                            "count claims a record that was never written and the data region is mis-sized", w)
        for pred, what in ((is_rec, "lease record"), (lambda n: n in cnts, "lease count")):
            for (t, w) in find_path_avoiding(cfg, lambda x: x.kind == "exit", gate_node=pred):
                r.violation(fn, fn.loc(), "add_lease can return without writing the %s (path: %s)" % (what, w.brief()), w)
        r.count(len(cfg.nodes))

    # ---------------------------------------------------------------- 2. cancel_lease ordering
    with ctx.rule("C29.2", "R1", "ShareFile.cancel_lease: surviving records, then count, then truncate, all for "
                  "len(survivors); only leases matching the cancel secret are dropped; the file is unlinked only when "
                  "no lease survives (also MutableShareFile)", expected=6) as r:
        fn = idx.func(SF + ".cancel_lease")
        mfn = idx.func(MSF + ".cancel_lease")
        cfg = fn.cfg()
        fnorm = FlowNorm(fn)
        cnt_nodes = cfg.find(lambda n: bool(calls_at(n, "_write_num_leases") or calls_at(n, "_write_encoded_num_leases")))
        tr_nodes = cfg.find(has_call("_truncate_leases"))
        rec_nodes = cfg.find(has_call("_write_lease_record"))
        if not cnt_nodes or not tr_nodes or not rec_nodes:
            raise AnchorVanished("cancel_lease no longer rewrites records, count and truncates")
        survivors = None
        for n in rec_nodes:
            r.site(fn, n.ast, "records")
            h = enclosing_loop(cfg, n)
            c = calls_at(n, "_write_lease_record")[0]
            ok = h is not None and isinstance(h.ast.iter, ast.Call) and call_name(h.ast.iter) == "enumerate" \
                and len(h.ast.iter.args) == 1 and isinstance(h.ast.iter.args[0], ast.Name) and not h.ast.iter.keywords
            surv_name = h.ast.iter.args[0].id if ok else None
            if not ok and h is not None and isinstance(h.ast.iter, ast.Call) and call_name(h.ast.iter) == "enumerate":
                # only the tail is rewritten: enumerate(S[k:], k) puts S[j] into slot j for every j >= k (the records in
                # front of slot k are left where they are); the start of the numbering must be the start of the slice
                ea = h.ast.iter
                seq = ea.args[0] if ea.args else None
                start = ea.args[1] if len(ea.args) == 2 and not ea.keywords else (
                    kwarg(ea, "start") if len(ea.args) == 1 and len(ea.keywords) == 1 else None)
                if isinstance(seq, ast.Subscript) and isinstance(seq.value, ast.Name) and isinstance(seq.slice, ast.Slice) \
                        and seq.slice.lower is not None and seq.slice.upper is None and seq.slice.step is None \
                        and start is not None and fnorm.norm(h, start) == fnorm.norm(h, seq.slice.lower):
                    ok = True
                    # ... and no cancelled lease may lie in front of slot k: k is the first (smallest) index of the
                    # ordered list of indices of the leases matching the cancel secret
                    lo = fnorm.resolve(h, seq.slice.lower)
                    base = None
                    if isinstance(lo, ast.Subscript) and isinstance(lo.value, ast.Name) and isinstance(lo.slice, ast.Constant) \
                            and lo.slice.value == 0 and type(lo.slice.value) is int:
                        base = lo.value.id
                    elif isinstance(lo, ast.Call) and call_name(lo) == "min" and len(lo.args) == 1 and isinstance(lo.args[0], ast.Name) \
                            and not lo.keywords:
                        base = lo.args[0].id
                    bds = (all_defs(fn).get(base) or []) if base else []
                    good = len(bds) == 1 and isinstance(bds[0], ast.ListComp) and len(bds[0].generators) == 1
                    if good:
                        bg = bds[0].generators[0]
                        good = isinstance(bg.target, ast.Tuple) and len(bg.target.elts) == 2 and isinstance(bg.iter, ast.Call) \
                            and call_name(bg.iter) == "enumerate" and len(bg.iter.args) == 1 and not bg.iter.keywords \
                            and isinstance(bds[0].elt, ast.Name) and attr_path(bg.target.elts[0]) == bds[0].elt.id \
                            and len(bg.ifs) == 1 and isinstance(bg.ifs[0], ast.Call) and call_tail(bg.ifs[0]) == "is_cancel_secret"
                    if not good:
                        raise AnalysisError("%s: only the records from slot %s on are rewritten; cannot tell that no cancelled "
                                            "lease lies in front of it; extend the rule" % (short(fn), src(fn, seq.slice.lower)))
                if isinstance(seq, ast.Subscript) and isinstance(seq.value, ast.Name):
                    surv_name = seq.value.id
            if ok:
                tn = loop_target_names(h.ast)
                ok = len(tn) == 2 and len(c.args) == 3 and [attr_path(a) for a in c.args[1:]] == tn
            if surv_name:
                survivors = surv_name
            r.require(ok, fn, fn.loc(c), "surviving leases are not rewritten in order as _write_lease_record(f, i, lease) "
                      "for i, lease in enumerate(<survivors>): %s" % src(fn, c))
            if ok:
                # the list is the compacted one: [l for l in leases if l]
                ds = [d for d in (all_defs(fn).get(survivors) or []) if d is not None]
                r.require(any(isinstance(d, ast.ListComp) and d.generators and d.generators[0].ifs for d in ds), fn, fn.loc(c),
                          "the rewritten list %s is not the compacted list of non-cancelled leases" % survivors)
        # which entries leave the list: only leases that matched the cancel secret (otherwise a live lease is dropped
        # and, when nothing else is left, the share is unlinked under it)
        if survivors:
            cparam = first_positional_params(fn)[0]
            comps = [d for d in (all_defs(fn).get(survivors) or [])
                     if isinstance(d, ast.ListComp) and d.generators and d.generators[0].ifs]
            for comp in comps:
                g = comp.generators[0]
                r.site(fn, comp, "selection")
                elt = g.target.id if isinstance(g.target, ast.Name) else None
                cond = g.ifs[0] if len(g.ifs) == 1 else None
                if isinstance(cond, ast.Name) and cond.id == elt and isinstance(g.iter, ast.Name):
                    # [l for l in <list> if l]: an entry is dropped by storing None (a false value) into <list>
                    src_list = g.iter.id

                    def matched(m, lab, _recv=None):
                        ef = fnorm.edge_fact(m, lab)
                        if not ef or ef[0] != "truth":
                            return False
                        mm = re.match(r"^([A-Za-z_]\w*)\.is_cancel_secret\(%s\)$" % re.escape(cparam), ef[1] or "")
                        return mm is not None and (_recv is None or mm.group(1) == _recv)
                    for x in cfg.nodes:
                        if x.kind != "stmt" or not isinstance(x.ast, ast.Assign):
                            continue
                        subs = [t for t in x.ast.targets if isinstance(t, ast.Subscript) and isinstance(t.value, ast.Name)
                                and t.value.id == src_list]
                        if not subs:
                            continue
                        v = x.ast.value
                        if not (isinstance(v, ast.Constant) and not v.value):
                            continue                    # a true value stays in the compacted list
                        recv = None
                        h = enclosing_loop(cfg, x)
                        if h is not None and isinstance(h.ast.iter, ast.Call) and call_name(h.ast.iter) == "enumerate" \
                                and len(h.ast.iter.args) == 1 and attr_path(h.ast.iter.args[0]) == src_list:
                            tn = loop_target_names(h.ast)
                            if len(tn) == 2 and all(tn):
                                recv = tn[1]
                                for t in subs:
                                    r.require(isinstance(t.slice, ast.Name) and t.slice.id == tn[0], fn, fn.loc(x.ast),
                                              "%s blanks entry %s of %s while examining entry %s: another lease than the "
                                              "matching one is dropped" % (short(fn), src(fn, t.slice), src_list, tn[0]))
                        for (t, w) in dominated(cfg, x, None, gate_edge=lambda m, lab, _r=recv: matched(m, lab, _r)):
                            r.violation(fn, fn.loc(x.ast), "%s drops a lease (%s) on a path where its cancel secret was not "
                                        "matched (%s.is_cancel_secret(%s) true): a lease that was not cancelled disappears, "
                                        "and when no other lease is left the share file is unlinked under it (path: %s)" % (
                                            short(fn), src(fn, x.ast), recv or "<lease>", cparam, w.brief()), w)
                elif isinstance(cond, ast.UnaryOp) and isinstance(cond.op, ast.Not) and isinstance(cond.operand, ast.Call) \
                        and call_tail(cond.operand) == "is_cancel_secret" and attr_path(cond.operand.func) == "%s.is_cancel_secret" % elt \
                        and len(cond.operand.args) == 1 and attr_path(cond.operand.args[0]) == cparam:
                    pass                                # [l for l in <list> if not l.is_cancel_secret(secret)]
                elif _index_selection(fn, g, comp, cparam):
                    pass                                # [l for (i, l) in enumerate(L) if i not in <indices of matching leases>]
                else:
                    raise AnalysisError("%s: cannot see which leases %s keeps; extend the rule" % (short(fn), src(fn, comp)))
        want_len = "len(%s)" % survivors if survivors else None
        heads = [enclosing_loop(cfg, n) for n in rec_nodes]
        for n in cnt_nodes:
            r.site(fn, n.ast, "count")
            c = (calls_at(n, "_write_num_leases") or calls_at(n, "_write_encoded_num_leases"))[0]
            r.require(len(c.args) == 2 and fnorm.norm(n, c.args[1]) == want_len, fn, fn.loc(c),
                      "the count written after cancelling is %s, not %s" % (src(fn, c.args[1]) if len(c.args) == 2 else "?", want_len))
            for h in heads:
                if h is None:
                    continue
                for (t, w) in dominated(cfg, n, None, gate_edge=lambda m, lab, _h=h: m is _h and lab == "done"):
                    r.violation(fn, fn.loc(c), "the lease count is lowered before the surviving records are rewritten: "
                                "a crash in between loses a non-cancelled lease", w)
        for n in tr_nodes:
            r.site(fn, n.ast, "truncate")
            c = calls_at(n, "_truncate_leases")[0]
            r.require(len(c.args) == 2 and fnorm.norm(n, c.args[1]) == want_len, fn, fn.loc(c),
                      "the file is truncated to %s leases, not %s" % (src(fn, c.args[1]) if len(c.args) == 2 else "?", want_len))
            for (t, w) in dominated(cfg, n, lambda m: m in cnt_nodes):
                r.violation(fn, fn.loc(c), "the file is truncated before the lower lease count is stored: after a crash "
                            "the old count points the data region into the share data", w)
        # unlink only when nothing survives
        for f_ in (fn, mfn):
            fcfg = f_.cfg()
            fno = FlowNorm(f_)
            un = fcfg.find(lambda n: any(call_name(c) in ("self.unlink", "os.unlink", "os.remove") for c in node_calls(n)))
            if not un:
                raise AnchorVanished("%s no longer removes a share without leases" % short(f_))
            if f_ is fn:
                zero_ok = {want_len, survivors}       # `not len(S)` / `len(S) == 0` / `not S` (S is a list)
            else:
                # mutable: a counter that every lease not matching the cancel secret increments
                zero_ok = set()
                cands = {attr_path(x.ast.target) for x in fcfg.nodes if x.kind == "stmt" and isinstance(x.ast, ast.AugAssign)
                         and isinstance(x.ast.op, ast.Add) and isinstance(x.ast.target, ast.Name)}
                for var in cands:
                    st_nodes = [x for x in fcfg.nodes if var in node_stores(x)]
                    incs = [x for x in st_nodes if isinstance(x.ast, ast.AugAssign) and norm_plain(x.ast.value) == "1"]
                    zeros = [x for x in st_nodes if isinstance(x.ast, ast.Assign) and norm_plain(x.ast.value) == "0"]
                    if len(incs) + len(zeros) != len(st_nodes) or not incs:
                        continue
                    good = False
                    for t in fcfg.nodes:
                        for (d, lab) in fcfg.succ[t.id]:
                            ef = fno.edge_fact(t, lab)
                            if not ef or ef[0] != "false" or "is_cancel_secret(" not in (ef[1] or ""):
                                continue
                            h = enclosing_loop(fcfg, incs[0])
                            if h is None:
                                continue
                            # from the not-matching edge, the loop head is reached only through the increment
                            def tr(a_, l_, nx, s_, _t=t, _lab=lab, _h=h):
                                if l_ == "exc":
                                    return None
                                if a_ is _t:
                                    return 0 if (s_ == 0 and l_ is _lab) else None
                                if a_ is _h or a_ in incs:
                                    return None
                                return 1
                            vis, par = explore(fcfg, 0, tr, start=t)
                            reached_head = any(fcfg.nodes[i] is h for (i, _s) in vis)
                            reached_inc = any(fcfg.nodes[i] in incs for (i, _s) in vis)
                            if reached_inc and not reached_head:
                                good = True
                    if good:
                        zero_ok.add(var)

            def gate(m, lab, _fno=fno, _ok=zero_ok):
                ef = _fno.edge_fact(m, lab)
                if not ef:
                    return False
                if ef[0] == "false":
                    return ef[1] in _ok
                return ef[0] == "==" and ef[1] == "0" and ef[2] in _ok
            for n in un:
                r.site(f_, n.ast, "unlink")
                for (t, w) in find_path_avoiding(fcfg, lambda x, _n=n: x is _n, gate_edge=gate):
                    r.violation(f_, f_.loc(n.ast), "%s removes the share file although leases may remain (path: %s)" % (
                        short(f_), w.brief()), w)

    # ---------------------------------------------------------------- 3. start-up
    with ctx.rule("C29.3", "R1", "StorageServer.__init__ discards incoming/ (_clean_incomplete -> rm_dir(incomingdir)) "
                  "on every path of server construction, and only there; incomingdir is a proper subdirectory of the "
                  "share directory and the place where bucket writers create their files", expected=5) as r:
        init = idx.func(SS + ".__init__")
        cl = idx.func(SS + "._clean_incomplete")
        icfg = init.cfg()

        def cleans(n):
            return any(call_name(c) == "self._clean_incomplete" for c in node_calls(n))
        cn = icfg.find(cleans)
        r.require(bool(cn), init, init.loc(), "StorageServer.__init__ does not call _clean_incomplete(): partial "
                  "uploads of the previous run survive a restart")
        for n in cn:
            r.site(init, n.ast, "clean")
            for (t, w) in dominated(icfg, n, stores("self.incomingdir")):
                r.violation(init, init.loc(n.ast), "_clean_incomplete runs before self.incomingdir is set", w)
        for (t, w) in find_path_avoiding(icfg, lambda x: x.kind == "exit", gate_node=cleans):
            r.violation(init, init.loc(), "a StorageServer can be constructed without discarding incoming/ (path: %s)" % w.brief(), w)

        # (the relative order of the cleaning and make_dirs(incomingdir) does not matter: ShareFile(create=True)
        # makes its own parent directories; what matters is that the cleaning is unconditional)
        r.site(init, None, "unconditional")
        rm = [c for c in calls_in_func(cl) if call_tail(c) in ("rm_dir", "rmtree")]
        r.require(bool(rm), cl, cl.loc(), "_clean_incomplete does not remove the incoming directory")
        for c in rm:
            r.site(cl, c, "rm_dir")
            r.require(len(c.args) >= 1 and attr_path(c.args[0]) == "self.incomingdir", cl, cl.loc(c),
                      "_clean_incomplete removes %s, not self.incomingdir" % src(cl, c))
        for (t, w) in find_path_avoiding(cl.cfg(), lambda x: x.kind == "exit",
                                         gate_node=lambda n: any(call_tail(c) in ("rm_dir", "rmtree") for c in node_calls(n))):
            r.violation(cl, cl.loc(), "_clean_incomplete can return without removing incoming/", w)
        # nobody else discards incoming/ while uploads are running
        bad, badrefs, total = callers_outside(idx, "_clean_incomplete", [SS + ".__init__"])
        for cs in bad:
            r.violation(cs.fn, cs.loc, "%s discards incoming/ outside start-up" % short(cs.fn))
        # what is discarded is a proper subdirectory of the share directory, fixed before the cleaning, and it is
        # the place where uploads in progress live
        ino = FlowNorm(init)
        ivals = [(n, v) for n in icfg.nodes for v in [assign_value(n, "self.incomingdir")] if v is not None]
        if not ivals:
            raise AnchorVanished("StorageServer.__init__ no longer sets self.incomingdir")
        locals_ = set(all_defs(init)) | set(init.params)

        def const_str(n, e):
            e = ino.resolve(n, e)
            if isinstance(e, ast.Constant):
                return e.value if isinstance(e.value, (str, bytes)) else None
            if any(isinstance(x, ast.Name) and x.id in locals_ for x in ast.walk(e)):
                return None
            try:
                v = folder.fold(e, init.module, init.cls)
            except NotConstant:
                return None
            return v if isinstance(v, (str, bytes)) else None
        for (n, v) in ivals:
            r.site(init, v, "incoming directory")
            e = ino.resolve(n, v)
            if not (isinstance(e, ast.Call) and call_name(e) == "os.path.join" and len(e.args) >= 2 and not e.keywords
                    and not any(isinstance(a, ast.Starred) for a in e.args)):
                raise AnalysisError("%s: cannot tell where the incoming directory %s lies relative to the shares; "
                                    "extend the rule" % (short(init), src(init, v)))
            r.require(const_str(n, e.args[0]) is None, init, init.loc(v), "the incoming directory %s does not start from the "
                      "configured storage directory" % src(init, v))
            for a in e.args[1:]:
                cs_ = const_str(n, a)
                if isinstance(cs_, bytes):
                    cs_ = cs_.decode("latin-1")
                if cs_ is None:
                    r.violation(init, init.loc(v), "the incoming directory is %s: os.path.join discards everything before an "
                                "absolute component, so with an absolute %s the directory removed by _clean_incomplete at "
                                "every start is %s itself - with all the shares in it" % (src(init, v), src(init, a), src(init, a)))
                    continue
                comps = cs_.rstrip("/").split("/")
                r.require(cs_.rstrip("/") != "" and not cs_.startswith("/") and not any(c in ("", ".", "..") for c in comps),
                          init, init.loc(v), "the incoming directory %s is not a proper subdirectory of %s: _clean_incomplete "
                          "removes that directory (and the published shares in it) at every start" % (src(init, v), src(init, e.args[0])))
        for cnode in cn:
            vis, _p = explore(icfg, 0, lambda a_, l_, nx, s_: 0, start=cnode)
            for (i, _s) in vis:
                if i != cnode.id and any(icfg.nodes[i] is n for (n, _v) in ivals):
                    r.violation(init, init.loc(icfg.nodes[i].ast), "self.incomingdir is re-bound after incoming/ was cleaned: "
                                "uploads go to a directory that was not emptied")
        for (f, nd) in cg.attr_stores("incomingdir"):
            if f is not init and f.cls is not None and init.cls in f.cls.mro():
                r.violation(f, f.loc(nd), "%s re-binds self.incomingdir: later uploads live outside the directory that is "
                            "discarded at start-up" % short(f))
        bwc = idx.cls(BW)
        n_bw = 0
        seen_calls = set()
        for cs in cg.calls_named(bwc.name):
            if id(cs.call) in seen_calls or cs.fn.name == "<module>" or idx.resolve_expr_to_class(cs.fn.module, cs.call.func) is not bwc:
                continue
            seen_calls.add(id(cs.call))
            n_bw += 1
            r.site(cs.fn, cs.call, "upload in progress")
            inc = arg(cs.call, 1, first_positional_params(idx.func(BW + ".__init__"))[1])
            node = _cfg_node_of(cs.fn, cs.call)
            if inc is None or node is None:
                raise AnalysisError("%s: cannot see where %s puts the share being written" % (short(cs.fn), src(cs.fn, cs.call)))
            cno = FlowNorm(cs.fn)
            # the path may have been computed in an earlier loop and carried here through a list of tuples
            for ((inode, inc_x),) in carried_sources(cs.fn, node, [inc]):
                ie = cno.resolve(inode, inc_x)
                ok = isinstance(ie, ast.Call) and call_name(ie) == "os.path.join" and len(ie.args) >= 2 \
                    and cno.norm(inode, ie.args[0]) == "self.incomingdir" and cs.fn.cls is not None and init.cls in cs.fn.cls.mro()
                r.require(ok, cs.fn, cs.loc, "the share being written is created at %s, not below self.incomingdir: a partial "
                          "upload left by a crash is not discarded at the next start" % src(cs.fn, ie))
        if n_bw == 0:
            raise AnchorVanished("no BucketWriter construction found")

    # ---------------------------------------------------------------- 4. regions written by lease operations
    with ctx.rule("C29.4", "R5/R4", "lease operations write only lease records (behind the data), the 4-byte count at "
                  "0x08 / the extra-lease count, never the data region; no truncating open", expected=9) as r:
        # immutable record
        wl = idx.func(SF + "._write_lease_record")
        wn_ = FlowNorm(wl)
        wps = first_positional_params(wl)
        want_pos = norm_src("self._lease_offset + %s * self.LEASE_SIZE" % wps[1])
        wcfg = wl.cfg()
        writes = [(n, c) for n in wcfg.nodes for c in calls_at(n, "write")]
        if not writes:
            raise AnchorVanished("_write_lease_record no longer writes")
        for (n, c) in writes:
            r.site(wl, c, "immutable record")
            seeks = lambda m: any(len(cc.args) == 1 and wn_.norm(m, cc.args[0]) == want_pos for cc in calls_at(m, "seek"))
            for (t, w) in dominated(wcfg, n, seeks):
                r.violation(wl, wl.loc(c), "a lease record is written somewhere else than _lease_offset + "
                            "lease_number*LEASE_SIZE - it can land in the share data", w)
            a0 = wn_.norm(n, c.args[0]) if c.args else ""
            r.require(re.match(r"^self\._schema\.lease_serializer\.serialize\(%s\)$" % re.escape(wps[2]), a0) is not None,
                      wl, wl.loc(c), "the record written is %s, not the serialised lease" % a0)
        # immutable count
        wc = idx.func(SF + "._write_encoded_num_leases")
        cn_ = FlowNorm(wc)
        cps = first_positional_params(wc)
        ccfg = wc.cfg()
        writes = [(n, c) for n in ccfg.nodes for c in calls_at(n, "write")]
        if not writes:
            raise AnchorVanished("_write_encoded_num_leases no longer writes")
        for (n, c) in writes:
            r.site(wc, c, "immutable count")
            seeks = lambda m: any(len(cc.args) == 1 and cn_.norm(m, cc.args[0]) == "8" for cc in calls_at(m, "seek"))
            for (t, w) in dominated(ccfg, n, seeks):
                r.violation(wc, wc.loc(c), "the lease count is not written at offset 0x08", w)
            r.require(len(c.args) == 1 and cn_.norm(n, c.args[0]) == cps[1], wc, wc.loc(c),
                      "the count bytes written are %s" % src(wc, c))
        fx = idx.func(IMM + ":_fix_lease_count_format")
        xn = FlowNorm(fx)
        xcfg = fx.cfg()
        rets = xcfg.find(is_return)
        if not rets:
            raise AnchorVanished("_fix_lease_count_format has no return")
        for n in rets:
            r.site(fx, n.ast, "count width")

            def narrow(m, lab):
                f = xn.edge_fact(m, lab)
                return bool(f) and f[0] in ("<=", "<") and f[1].startswith("struct.calcsize(") and f[2] in ("4", "5") \
                    and (f[0], f[2]) in (("<=", "4"), ("<", "5"))
            for (t, w) in find_path_avoiding(xcfg, lambda x, _n=n: x is _n, gate_edge=narrow):
                r.violation(fx, fx.loc(n.ast), "a lease-count format wider than 4 bytes is accepted: the count would "
                            "overwrite the first bytes of the share data at 0x0c", w)
        ini = idx.func(SF + ".__init__")
        fmt_vals = [(n, v) for n in ini.cfg().nodes for v in [assign_value(n, "self._lease_count_format")] if v is not None]
        if not fmt_vals:
            raise AnchorVanished("ShareFile.__init__ no longer sets _lease_count_format")
        for (n, v) in fmt_vals:
            r.require(isinstance(v, ast.Call) and call_tail(v) == "_fix_lease_count_format", ini, ini.loc(v),
                      "the lease-count format %s is not validated by _fix_lease_count_format" % src(ini, v))
        # the data region [_data_offset, _data_offset + max_size) lies between the count field and the lease area:
        # otherwise the count written by add_lease, or lease record 0, lands on share data
        ino4 = FlowNorm(ini)
        msz = [v for n in ini.cfg().nodes for v in [assign_value(n, "self._max_size")] if v is not None]
        if not msz or not all(isinstance(v, ast.Name) and v.id in ini.params for v in msz) or len({v.id for v in msz}) != 1:
            raise AnalysisError("ShareFile.__init__: self._max_size is not bound to one parameter; cannot bound the data region")
        wsd = idx.func(SF + ".write_share_data")
        if not any(attr_path(x) == "self._max_size" for x in func_own_nodes(wsd) if isinstance(x, ast.Attribute)) \
                or not any(attr_path(x) == "self._data_offset" for x in func_own_nodes(wsd) if isinstance(x, ast.Attribute)):
            raise AnchorVanished("write_share_data no longer places data at _data_offset and bounds it by _max_size")
        msz_atom = Poly.atom(msz[0].id)
        def const_int(n, v):
            k = ino4.at(n).poly(v).const_value()
            if k is None:
                try:
                    k = folder.fold(ino4.resolve(n, v), ini.module, ini.cls)
                except NotConstant:
                    return None
            return k if isinstance(k, (int, Fraction)) and not isinstance(k, bool) else None
        d_offs = [(n, const_int(n, v)) for n in ini.cfg().nodes
                  for v in [assign_value(n, "self._data_offset")] if v is not None]
        creat = []
        for n in ini.cfg().nodes:
            v = assign_value(n, "self._lease_offset")
            if v is not None:
                kk = (ino4.at(n).poly(v) - msz_atom).const_value()
                if kk is not None:
                    creat.append((n, kk))
        if not d_offs or not creat:
            raise AnchorVanished("ShareFile.__init__ no longer sets _data_offset and the creation-time _lease_offset")
        if any(k2 is None for (_n, k2) in d_offs):
            raise AnalysisError("ShareFile.__init__: _data_offset is not a constant; extend the rule")
        COUNT_END = 8 + 4          # seek target and maximal width of the count, both established above
        r.site(ini, d_offs[0][0].ast, "data region bounds")
        for (n, k2) in d_offs:
            r.require(k2 >= COUNT_END, ini, ini.loc(n.ast), "the share data starts at offset %s, inside the header: the lease "
                      "count that add_lease/cancel_lease write at 0x08..0x0b overwrites share data (and data overwrites "
                      "the count)" % k2)
            for (cn4, k1) in creat:
                r.require(k1 >= k2, ini, ini.loc(n.ast), "share data occupies [%s, %s + max_size) but the lease area of a new "
                          "share starts at max_size + %s: the last %s data byte(s) and lease record 0 overlap, so adding or "
                          "renewing that lease changes share data" % (k2, k2, k1, k2 - k1))
        for (f, nd) in list(cg.attr_stores("_data_offset")) + list(cg.attr_stores("_lease_offset")):
            if f is not ini and f.cls is not None and ini.cls in f.cls.mro():
                r.violation(f, f.loc(nd), "%s moves the data region / lease area of an open share" % short(f))
        # immutable truncate
        tl = idx.func(SF + "._truncate_leases")
        tn_ = FlowNorm(tl)
        tps = first_positional_params(tl)
        trs = [(n, c) for n in tl.cfg().nodes for c in calls_at(n, "truncate")]
        if not trs:
            raise AnchorVanished("_truncate_leases no longer truncates")
        for (n, c) in trs:
            r.site(tl, c, "immutable truncate")
            r.require(len(c.args) == 1 and tn_.norm(n, c.args[0]) == norm_src("self._lease_offset + %s * self.LEASE_SIZE" % tps[1]),
                      tl, tl.loc(c), "the share file is truncated at %s, not at _lease_offset + num_leases*LEASE_SIZE - "
                      "share data or live leases are cut off" % src(tl, c))
        # lease methods call no data writer and never truncate-open
        data_writers = {"write", "writelines", "truncate", "write_share_data", "_write_share_data", "_write_data_length",
                        "_change_container_size", "writev", "_write_extra_lease_offset", "create"}
        for (cls_q, names) in ((SF, ("add_lease", "renew_lease", "add_or_renew_lease", "cancel_lease")),
                               (MSF, ("add_lease", "renew_lease", "add_or_renew_lease", "cancel_lease", "_pack_leases"))):
            ci = idx.cls(cls_q)
            for nm in names:
                f = idx.func(cls_q + "." + nm)
                r.site(f, None, "lease method")
                for c in calls_in_func(f, into_lambda=True):
                    if call_tail(c) in data_writers:
                        r.violation(f, f.loc(c), "%s, a lease-only operation, calls %s" % (short(f), src(f, c)))
            for f in ci.methods.values():
                for c in calls_in_func(f, "open", into_lambda=True):
                    if call_name(c) != "open":
                        continue
                    mode = arg(c, 1, "mode")
                    mv = mode.value if isinstance(mode, ast.Constant) else None
                    if mode is None:
                        mv = "r"
                    if mv in ("rb", "rb+", "r"):
                        continue
                    creating = (cls_q == SF and f.name == "__init__") or (cls_q == MSF and f.name == "create")
                    if creating and mv == "wb":
                        # only on the creation path, after asserting that the file does not exist yet
                        node = [n for n in f.cfg().nodes if any(x is c for x in node_calls(n))][0]
                        fno = FlowNorm(f)
                        bad = find_path_avoiding(f.cfg(), lambda x, _n=node: x is _n,
                                                 gate_edge=lambda m, lab: fno.edge_fact(m, lab) == ("false", "os.path.exists(self.home)", None))
                        for (t, w) in bad:
                            r.violation(f, f.loc(c), "%s opens the container for overwriting without checking that it "
                                        "does not exist" % short(f), w)
                        continue
                    r.violation(f, f.loc(c), "%s opens the share container with mode %r (truncates or appends)" % (short(f), mv))
        # mutable record placement
        mw = idx.func(MSF + "._write_lease_record")
        mn = FlowNorm(mw)
        mcfg = mw.cfg()
        mps = first_positional_params(mw)
        k = mps[1]
        rd = C.reaching_defs(mcfg)
        want_hdr = norm_src("self.HEADER_SIZE + %s * self.LEASE_SIZE" % k)
        want_ext = norm_src("self._read_extra_lease_offset(%s) + 4 + (%s - 4) * self.LEASE_SIZE" % (mps[0], k))
        mci = idx.cls(MSF)
        consts = {nm: folder.class_attr(mci, nm) for nm in ("HEADER_SIZE", "LEASE_SIZE", "DATA_OFFSET")}
        r.require(consts["HEADER_SIZE"] + 4 * consts["LEASE_SIZE"] == consts["DATA_OFFSET"], mw, mw.loc(),
                  "the four in-header lease slots do not end at DATA_OFFSET: %s" % consts)
        writes = [(n, c) for n in mcfg.nodes for c in calls_at(n, "write")]
        if not writes:
            raise AnchorVanished("MutableShareFile._write_lease_record no longer writes")
        for (n, c) in writes:
            r.site(mw, c, "mutable record")
            seek_nodes = [m for m in mcfg.nodes if calls_at(m, "seek")]
            for (t, w) in dominated(mcfg, n, lambda m: m in seek_nodes):
                r.violation(mw, mw.loc(c), "the lease record is written without positioning the file", w)
            for m in seek_nodes:
                sc = calls_at(m, "seek")[0]
                a = sc.args[0] if sc.args else None
                forms = []
                if isinstance(a, ast.Name) and len(rd.get(m.id, {}).get(a.id, ())) > 1:
                    for d in rd[m.id][a.id]:
                        dn = mcfg.nodes[d]
                        v = assign_value(dn, a.id)
                        forms.append((dn, mn.norm(dn, v) if v is not None else "?"))
                else:
                    forms.append((m, mn.norm(m, a) if a is not None else "?"))
                for (dn, form) in forms:
                    if form == want_ext:
                        continue
                    if form == want_hdr:
                        lt4 = lambda x, lab: mn.edge_fact(x, lab) in (("<", k, "4"), ("<=", k, "3"))
                        for (t, w) in dominated(mcfg, dn, None, gate_edge=lt4):
                            r.violation(mw, mw.loc(dn.ast), "an in-header lease slot is addressed without lease_number < 4: "
                                        "slot 4 and above would overwrite the share data at DATA_OFFSET", w)
                        continue
                    r.violation(mw, mw.loc(dn.ast), "a mutable lease record is placed at %s (expected the in-header slot "
                                "or the extra-lease area)" % form)
        mx = idx.func(MSF + "._write_num_extra_leases")
        xn2 = FlowNorm(mx)
        xps = first_positional_params(mx)
        xw = [(n, c) for n in mx.cfg().nodes for c in calls_at(n, "write")]
        if not xw:
            raise AnchorVanished("_write_num_extra_leases no longer writes")
        for (n, c) in xw:
            r.site(mx, c, "mutable extra count")
            seeks = lambda m: any(len(cc.args) == 1 and xn2.norm(m, cc.args[0]) == "self._read_extra_lease_offset(%s)" % xps[0]
                                  for cc in calls_at(m, "seek"))
            for (t, w) in dominated(mx.cfg(), n, seeks):
                r.violation(mx, mx.loc(c), "the extra-lease count is not written at the extra-lease offset", w)
            r.require(len(c.args) == 1 and xn2.norm(n, c.args[0]) == norm_src("struct.pack('>L', %s)" % xps[1]), mx, mx.loc(c),
                      "the extra-lease count is written as %s (4 bytes big-endian expected)" % src(mx, c))

    # ---------------------------------------------------------------- 5. re-open formula vs. effect prefixes
    with ctx.rule("C29.5", "E3/symbolic", "the data-region bound recomputed by ShareFile.__init__ on re-open has the "
                  "same value after every prefix of the file effects of each lease-changing ShareFile method", expected=4) as r:
        ini = idx.func(SF + ".__init__")
        inorm = FlowNorm(ini)
        formula = None
        for n in ini.cfg().nodes:
            v = assign_value(n, "self._lease_offset")
            if v is None:
                continue
            p = inorm.at(n).poly(v)
            if p == N().poly(parse_expr("max_size + 12")):
                continue
            r.site(ini, n.ast, "re-open formula %s" % p)
            formula = (n, p)
        if formula is None:
            raise AnchorVanished("ShareFile.__init__ no longer recomputes _lease_offset when opening an existing share")
        fnode, P = formula
        fs_atoms = [k for k in P.t if len(k) == 1 and _is_filesize(ini, k[0])]
        cnt_terms = [k for k in P.t if len(k) == 2 and LS in k and any(_is_header_count(ini, a) for a in k if a != LS)]
        depends = bool(fs_atoms) or bool(cnt_terms)
        if depends:
            shape_ok = len(P.t) == 2 and len(fs_atoms) == 1 and len(cnt_terms) == 1 and P.t[fs_atoms[0]] == 1 \
                and P.t[cnt_terms[0]] == -1
            if not shape_ok:
                raise AnalysisError("re-open formula %s is not of the form filesize - count*LEASE_SIZE; extend the rule" % P)
        L, n_, m_, ls = Poly.atom("L"), Poly.atom("n"), Poly.atom("m"), Poly.atom("LEASE_SIZE")

        def reopen(F, Ncount):
            return F - Ncount * ls if depends else L
        EFFECTS = ("_write_lease_record", "_write_encoded_num_leases", "_write_num_leases", "_truncate_leases")
        for must in ("add_lease", "cancel_lease", "renew_lease"):
            idx.func(SF + "." + must)
        meths = [m for m in idx.cls(SF).methods.values() if m.name not in EFFECTS and m.name != "__init__"
                 and any(call_tail(c) in EFFECTS for c in calls_in_func(m, into_lambda=True))]
        for f in sorted(meths, key=lambda m: m.name):
            meth = f.name
            fcfg = f.cfg()
            fno = FlowNorm(f)
            fvars = {t for x in fcfg.nodes if x.kind == "with" for t in node_stores(x)}
            eff_nodes = [x for x in fcfg.nodes if x.kind == "stmt" and any(
                call_tail(c) in ("_write_lease_record", "_write_encoded_num_leases", "_write_num_leases", "_truncate_leases")
                for c in node_calls(x))]
            if not eff_nodes:
                raise AnchorVanished("%s has no lease file effects" % short(f))
            # order by reachability (an effect inside a loop may run zero times, so domination is too strong)
            def reach(a):
                vis, _p = explore(fcfg, 0, lambda a_, l_, nx, s_: None if l_ == "exc" else 0, start=a)
                return {i for (i, _s) in vis if i != a.id} | ({a.id} if any(
                    d == a.id for (i, _s) in vis for (d, _l) in fcfg.succ[i]) else set())

            def before(a, b):
                return b.id in reach(a) and a.id not in reach(b)
            order = sorted(eff_nodes, key=lambda a: sum(1 for b in eff_nodes if b is not a and before(b, a)))
            for i in range(len(order) - 1):
                if not before(order[i], order[i + 1]):
                    raise AnalysisError("%s: file effects are not totally ordered" % short(f))
            r.site(f, None, "%d effects" % len(order))
            F, Ncnt = L + n_ * ls, n_
            removed_sym = any(call_tail(c) == "_truncate_leases" for c in calls_in_func(f))
            trace = []
            for i, x in enumerate(order):
                c = [c for c in node_calls(x) if call_tail(c) in (
                    "_write_lease_record", "_write_encoded_num_leases", "_write_num_leases", "_truncate_leases")][0]
                t = call_tail(c)
                if t == "_write_lease_record":
                    kx = fno.norm(x, c.args[1]) if len(c.args) >= 2 else "?"
                    if any(kx == "self._read_num_leases(%s)" % v for v in fvars):
                        F = L + (n_ + Poly.const(1)) * ls           # appended behind the last record
                        desc = "record[n] appended (file grows by LEASE_SIZE)"
                    elif enclosing_loop(fcfg, x) is not None:
                        desc = "records[0..m) rewritten in place"    # m <= n: no growth
                    else:
                        raise AnalysisError("%s: cannot place record index %s" % (short(f), kx))
                elif t in ("_write_encoded_num_leases", "_write_num_leases"):
                    cv = fno.resolve(x, c.args[1]) if len(c.args) >= 2 else None
                    if isinstance(cv, ast.Call) and call_tail(cv) == "pack" and len(cv.args) == 2:
                        cv = cv.args[1]
                    cvn = fno.norm(x, cv) if cv is not None else "?"
                    if any(cvn == norm_src("self._read_num_leases(%s) + 1" % v) for v in fvars):
                        Ncnt, desc = n_ + Poly.const(1), "count := n+1"
                    elif removed_sym and cvn.startswith("len("):
                        Ncnt, desc = m_, "count := m"
                    else:
                        raise AnalysisError("%s: cannot interpret the stored count %s" % (short(f), cvn))
                else:
                    F = L + m_ * ls
                    desc = "truncate to m records"
                trace.append(desc)
                val = reopen(F, Ncnt)
                if val != L:
                    last = (i == len(order) - 1)
                    where = "after its last file effect" if last else "between '%s' and the next file effect" % desc
                    r.violation(f, f.loc(x.ast), "crash window in %s: %s a re-opened share computes the end of its data "
                                "region as %s instead of L (L = true lease offset, n = leases before, m = leases kept, "
                                "m < n): ShareFile.__init__ derives _lease_offset/_length from file size and lease "
                                "count, which this operation changes in separate writes - the data length and every "
                                "lease position shift by whole lease records (effects so far: %s)" % (
                                    short(f), where, val, "; ".join(trace)))
                    break
            r.count(len(order))

    # ---------------------------------------------------------------- 6. mutable: record before the count that exposes it
    with ctx.rule("C29.6", "R1", "MutableShareFile: a new extra-lease slot is counted (_write_num_extra_leases) only "
                  "after its record has been written", expected=1) as r:
        mw = idx.func(MSF + "._write_lease_record")
        recw = lambda n: any((call_tail(c) == "write" and c.args and isinstance(c.args[0], ast.Call)
                              and call_tail(c.args[0]) == "serialize") or call_name(c) == "self._write_lease_record"
                             for c in node_calls(n))
        if not mw.cfg().find(recw):
            raise AnchorVanished("MutableShareFile._write_lease_record no longer writes a serialised lease")
        n_inc = 0
        mps6 = first_positional_params(mw)
        NUM6 = "self._read_num_extra_leases(%s)" % mps6[0]
        P_NUM = N().poly(parse_expr(NUM6))
        P_SLOT = N().poly(parse_expr("%s - 4" % mps6[1]))           # index among the extra slots
        mn6 = FlowNorm(mw)

        def newslot_edge(m, lab):
            """The edge establishes lease_number - 4 >= <stored extra count>: the slot written is not an existing one."""
            ef = mn6.edge_fact(m, lab)
            if not ef or ef[0] not in ("<", "<=", "==") or ef[2] is None:
                return False
            try:
                D = N().poly(parse_expr(ef[2])) - N().poly(parse_expr(ef[1]))
            except Exception:
                return False
            for sg in ((1, -1) if ef[0] == "==" else (1,)):
                cv = ((D if sg == 1 else -D) - (P_SLOT - P_NUM)).const_value()
                if cv is not None and -cv >= (-1 if ef[0] == "<" else 0):
                    return True
            return False
        for f in sorted(idx.cls(MSF).methods.values(), key=lambda m: m.name):
            if f.name == "_write_num_extra_leases":
                continue
            mcfg = f.cfg()
            for n in mcfg.find(has_call("_write_num_extra_leases")):
                n_inc += 1
                r.site(f, n.ast, "slot count")
                if f is mw:
                    bc = calls_at(n, "_write_num_extra_leases")[0]
                    # (a) the count grows by at most one slot - a count beyond the records makes every reader fail
                    cval = mn6.at(n).poly(bc.args[1]) if len(bc.args) == 2 else None
                    over = [(cval - base).const_value() for base in (P_NUM, P_SLOT)] if cval is not None else [None, None]
                    if all(o is None for o in over):
                        raise AnalysisError("%s: cannot interpret the extra-lease count %s; extend the rule" % (short(f), src(f, bc)))
                    r.require(any(o is not None and o <= 1 for o in over), f, f.loc(bc), "the extra-lease count is set to %s, "
                              "more than one above the stored count: it names slots whose records were never written, and "
                              "every later get_leases/add_lease on the share fails in unserialize" % src(f, bc.args[1]))
                    # (b) and only when the slot just written is a new one
                    if not any(newslot_edge(m, lab) for m in mcfg.nodes for (_d, lab) in mcfg.succ[m.id]):
                        raise AnalysisError("%s: no test of the slot number against the stored extra-lease count found; "
                                            "extend the rule" % short(f))
                    direct = dominated(mcfg, n, None, gate_edge=newslot_edge)
                    if direct:
                        ok = False
                        flags = {ef[1] for m in mcfg.nodes for (_d, lab) in mcfg.succ[m.id]
                                 for ef in [mn6.edge_fact(m, lab)] if ef and ef[0] == "truth" and re.match(r"^[A-Za-z_]\w*$", ef[1] or "")}
                        for fl in sorted(flags):
                            if fl in f.params:
                                continue
                            if dominated(mcfg, n, None, gate_edge=lambda m, lab, _fl=fl: mn6.edge_fact(m, lab) == ("truth", _fl, None)):
                                continue
                            sts = [x for x in mcfg.nodes if fl in node_stores(x)]
                            if not all(x.kind == "stmt" and isinstance(x.ast, ast.Assign) and isinstance(x.ast.value, ast.Constant)
                                       for x in sts):
                                continue
                            if all(not dominated(mcfg, x, None, gate_edge=newslot_edge) for x in sts if x.ast.value.value):
                                ok = True
                        if not ok:
                            t, w = direct[0]
                            r.violation(f, f.loc(bc), "the extra-lease count is raised on a path where the record was written "
                                        "to a header slot or to an existing extra slot (no test %s - 4 >= %s on it): the file "
                                        "did not grow, so the count names a slot beyond its end and every later "
                                        "get_leases/add_lease on the share fails in unserialize (path: %s)" % (
                                            mps6[1], NUM6, w.brief()), w)
                for (t, w) in dominated(mcfg, n, recw):
                    r.violation(f, f.loc(n.ast), "the extra-lease count is raised before the new record exists: after a "
                                "crash in between, the count names a slot beyond the end of the file and every later "
                                "get_leases/add_lease on the share fails in unserialize (path: %s)" % w.brief(), w)
        if n_inc == 0:
            raise AnchorVanished("no caller of _write_num_extra_leases in MutableShareFile")

    # ---------------------------------------------------------------- 7. nothing pending in a write buffer at publication
    with ctx.rule("C29.7", "R1/typestate", "every byte written to the incoming share has left the process (file object "
                  "closed or flushed) before the rename that publishes the share: a writable file object that outlives "
                  "the call that created it is flushed/closed on every path to the rename", expected=2) as r:
        sf = idx.cls(SF)
        bw = idx.cls(BW)
        # the share container(s) a bucket writer holds
        share_attrs = _share_attrs(idx, bw, sf)
        renames = [(m, n, c) for m in _all_funcs_of(bw) for n in m.cfg().nodes for c in node_calls(n)
                   if call_tail(c) in RENAME_TAILS]
        if not renames:
            raise AnchorVanished("BucketWriter no longer renames the incoming share into place")
        sf_handles = _survey_handles(sf)
        bw_handles = _survey_handles(bw)
        if not sf_handles:
            raise AnchorVanished("ShareFile no longer opens its container through a buffered file object")
        # (owner path as seen from BucketWriter, class, attribute, creation site)
        persistent = []
        for (ci_, owners, hs) in ((sf, sorted("self." + a for a in share_attrs), sf_handles), (bw, ["self"], bw_handles)):
            for h in hs:
                r.site(h.fn, h.call, "%s-managed file object" % h.kind)
                for a in sorted(h.attrs):
                    persistent.append((ci_, owners, a, h))
        n_states = 0
        for (m, n, c) in renames:
            r.site(m, c, "publication")
            # file objects created in the publishing function itself
            for h in bw_handles:
                if h.fn is not m or h.kind not in ("with", "local") or not h.names:
                    continue
                if h.kind == "with" and not any(x is c for st in h.node.ast.body for x in ast.walk(st)):
                    continue
                done = lambda x, _h=h: any(call_tail(cc) in HANDLE_CLEAN and isinstance(cc.func, ast.Attribute)
                                           and isinstance(cc.func.value, ast.Name) and cc.func.value.id in _h.names
                                           for cc in node_calls(x))
                for (t, w) in find_path_avoiding(m.cfg(), lambda x, _n=n: x is _n, gate_node=done, start=h.node):
                    r.violation(m, m.loc(c), "%s renames the share into place while the file object opened by %s is "
                                "still open and unflushed: bytes in its buffer are lost if the process is killed now, "
                                "leaving a visible but incomplete share" % (short(m), src(m, h.call)), w)
            seen = set()
            for (ci_, owners, a, h) in persistent:
                if (ci_.qual, a) in seen:
                    continue
                seen.add((ci_.qual, a))
                touch = _self_call_closure(ci_, {f.name for f in ci_.methods.values()
                                                 if any(isinstance(x, ast.Attribute) and attr_path(x) == "self." + a
                                                        for g in [f] + list(f.nested.values())
                                                        for x in func_own_nodes(g, into_lambda=True))})
                fl = _flushers(ci_, a, touch)
                gates = {o: set(fl) for o in owners}
                kills = {o: set(touch) for o in owners}
                recv = {o + "." + a for o in owners}
                if ci_ is not bw:
                    # helper methods of the bucket writer that flush (or write) through the share they hold
                    def bw_touch(f):
                        fn_ = FlowNorm(f)
                        for x in f.cfg().nodes:
                            for cc in node_calls(x, into_lambda=True):
                                if isinstance(cc.func, ast.Attribute) and cc.func.attr in touch \
                                        and fn_.norm(x, cc.func.value) in owners:
                                    return True
                        return any(isinstance(x, ast.Attribute) and attr_path(x) in recv
                                   for x in func_own_nodes(f, into_lambda=True))
                    btouch = _self_call_closure(bw, {f.name for f in bw.methods.values() if bw_touch(f)})
                    bfl = set()
                    for _i in range(3):
                        for f in bw.methods.values():
                            if f.name in bfl or f.name not in btouch or f is m:
                                continue
                            g2 = dict(gates)
                            g2["self"] = set(bfl)
                            k2 = dict(kills)
                            k2["self"] = set(btouch)
                            if not _BufferState(f, recv, g2, k2).pending_at(lambda x: x.kind == "exit"):
                                bfl.add(f.name)
                    gates["self"] = bfl
                    kills["self"] = btouch
                bs = _BufferState(m, recv, gates, kills)
                n_states += len(m.cfg().nodes)
                for (t, w) in bs.pending_at(lambda x, _n=n: x is _n):
                    how = ("%s flush(es)/close(s) it, but not on every path before the rename" % ", ".join(
                        sorted("%s.%s" % (ci_.name, x) for x in fl))) if fl else "nothing flushes or closes it"
                    r.violation(m, m.loc(c), "%s publishes the share with %s while the file object kept in %s.%s (opened "
                                "by %s in %s, it outlives that call) may still hold written bytes in its user-space "
                                "buffer; %s. A kill right after the rename leaves a visible share whose tail never "
                                "reached the file (path: %s)" % (short(m), src(m, c), ci_.name, a, src(h.fn, h.call),
                                                                 short(h.fn), how, w.brief()), w)
        r.count(n_states)

    # ---------------------------------------------------------------- 8. no share data written after publication
    with ctx.rule("C29.8", "R1", "after the rename that publishes the share nothing writes share data any more "
                  "(no data-writing ShareFile method, no write through a kept file object)", expected=2) as r:
        sf = idx.cls(SF)
        bw = idx.cls(BW)
        direct = set()
        for f in sf.methods.values():
            if f.name in LEASE_FX:
                continue
            for g in [f] + list(f.nested.values()):
                for c in calls_in_func(g, into_lambda=True):
                    if isinstance(c.func, ast.Attribute) and c.func.attr in FILE_WRITES and attr_path(c.func.value) != "self":
                        direct.add(f.name)
        if not (direct - {"__init__"}):
            raise AnchorVanished("no ShareFile method writes share data")
        dw = _self_call_closure(sf, direct) - {"__init__"} - LEASE_FX
        for nm in sorted(dw):
            r.site(sf.methods[nm], None, "data writer")
        owners8 = {"self." + a for a in _share_attrs(idx, bw, sf)}
        kept = {"self." + a for h in _survey_handles(bw) for a in h.attrs}
        bw_writers = _self_call_closure(bw, {f.name for f in bw.methods.values()
                                             if any(call_tail(c) in dw for g in [f] + list(f.nested.values())
                                                    for c in calls_in_func(g, into_lambda=True))})
        renames = [(m, n, c) for m in _all_funcs_of(bw) for n in m.cfg().nodes for c in node_calls(n)
                   if call_tail(c) in RENAME_TAILS]
        if not renames:
            raise AnchorVanished("BucketWriter no longer renames the incoming share into place")
        for (m, n, c) in renames:
            r.site(m, c, "publication")
            mcfg = m.cfg()
            fno = FlowNorm(m)

            def step(a_, l_, nx, s_, _n=n):
                if a_ is _n and l_ == "exc":
                    return None                  # the rename itself failed: nothing was published
                return 0
            vis, par = explore(mcfg, 0, step, start=n)
            after = {i for (i, _s) in vis if i != n.id} | ({n.id} if any(
                d == n.id for (i, _s) in vis for (d, _l) in mcfg.succ[i]) else set())
            r.count(len(after))
            for i in sorted(after):
                x = mcfg.nodes[i]
                for cc in node_calls(x, into_lambda=True):
                    t = call_tail(cc)
                    bad = None
                    if t in dw and isinstance(cc.func, ast.Attribute):
                        rv = fno.norm(x, cc.func.value)
                        if rv == "self" or (rv.startswith("self.") and not any(
                                rv == o or rv.startswith(o + ".") for o in owners8)):
                            continue             # a method of the same name on some other object the writer holds
                        bad = "calls the data writer %s" % src(m, cc)
                    elif attr_path(cc.func) == "self." + t and t in bw_writers and t != m.name:
                        bad = "calls %s, which writes share data" % src(m, cc)
                    elif isinstance(cc.func, ast.Attribute) and cc.func.attr in FILE_WRITES \
                            and fno.norm(x, cc.func.value) in kept:
                        bad = "writes through the kept file object: %s" % src(m, cc)
                    if bad:
                        r.violation(m, m.loc(cc), "%s %s after %s has already made the share visible: a kill in between "
                                    "leaves a published share that is not complete" % (short(m), bad, src(m, c)),
                                    witness(mcfg, par, (i, 0)))

    # ---------------------------------------------------------------- 9. a lease-only operation keeps the lease it rewrites
    with ctx.rule("C29.9", "R1", "the lease a renewal writes back into a hashed-secret container stays in the hashed "
                  "representation (serialize hashes only provably un-hashed leases; the wrapper overrides every used "
                  "lease-producing ILeaseInfo method and returns wrappers; containers write back only given / stored / "
                  "wrapper-derived leases) - otherwise the secrets are hashed twice and the share has lost the lease",
                  expected=4) as r:
        hashed_representation_closed(
            idx, cg, r, "a lease-only operation (renew_lease, or add_lease / allocate_buckets / a slot write taking the renew "
            "path) silently replaces a lease the share holds by a record that neither its renew nor its cancel secret "
            "matches: the share has lost that lease although no error was raised and no data was written")
