"""C29 Share containers survive a server crash.

Decided: write ordering inside the lease operations, the regions they write,
start-up cleaning of incoming/, and a symbolic check that the data-region bound
recomputed on re-open is the same after every prefix of a lease operation's file
effects (DESIGN.md section 5, C29)."""
from sa.h import *

EXPLANATION = (
    "Decided (structural): (1) ShareFile.add_lease packs the new lease count (so an unencodable count raises before "
    "any write), then writes the lease record at index = current count, then writes the count; both writes happen on "
    "every normal path. (2) ShareFile.cancel_lease rewrites the surviving records, then the count, then truncates, "
    "all with len(survivors); the share file is unlinked only when no lease survives (immutable and mutable). "
    "(3) StorageServer.__init__ calls _clean_incomplete() (= fileutil.rm_dir(self.incomingdir)) on every path, after "
    "incomingdir is set, and nothing else calls it. (4) Lease operations write only outside the "
    "data region: immutable records at _lease_offset + k*LEASE_SIZE, the count at 0x08 with at most 4 bytes, truncate "
    "at _lease_offset + k*LEASE_SIZE; mutable records at HEADER_SIZE + k*LEASE_SIZE only for k < 4 "
    "(HEADER_SIZE + 4*LEASE_SIZE == DATA_OFFSET by constant folding) or behind the extra-lease offset; the lease "
    "methods call no data-writing helper and never open the share in a truncating mode. (5) Symbolic crash check: "
    "with F = file size and N = stored lease count, ShareFile.__init__ recomputes the end of the data region as "
    "F - N*LEASE_SIZE; the ordered file effects of add_lease / cancel_lease are replayed on (F, N) and the formula "
    "must give the same value after every prefix. (6) MutableShareFile._write_lease_record: when a new extra-lease "
    "slot is appended, the record is written before the slot count that makes it visible. "
    "Undecided: everything that needs real crash points - torn writes inside one f.write, fsync/ordering in the OS, "
    "the documented windows in MutableShareFile._change_container_size/_write_share_data (known non-claims).")
TECHNIQUE = ("static analysis: CFG must-precede/must-follow rules, normalised seek/truncate targets, constant folding, "
             "symbolic replay of file effects against the re-open formula")

IMM = "storage.immutable"
MUT = "storage.mutable"
SF = IMM + ":ShareFile"
MSF = MUT + ":MutableShareFile"
SS = "storage.server:StorageServer"

LS = "self.LEASE_SIZE"


def loop_target_names(for_node):
    t = for_node.target
    if isinstance(t, ast.Name):
        return [t.id]
    if isinstance(t, (ast.Tuple, ast.List)):
        return [e.id if isinstance(e, ast.Name) else None for e in t.elts]
    return []


def _atom_defs(fn, atom):
    if re.match(r"^[A-Za-z_]\w*$", atom):
        ds = all_defs(fn).get(atom) or []
        if ds and all(d is not None for d in ds):
            return [norm_plain(d) for d in ds]
        return []
    return [atom]


def _is_filesize(fn, atom):
    ds = _atom_defs(fn, atom)
    return bool(ds) and all(d in ("os.path.getsize(self.home)", "os.stat(self.home).st_size",
                                   "os.stat(self.home)[stat.ST_SIZE]") for d in ds)


def _is_header_count(fn, atom):
    ds = _atom_defs(fn, atom)
    return bool(ds) and all(re.match(r"^struct\.unpack\('>LLL', .*\)\[2\]$", d) for d in ds)


def dominated(cfg, target_node, gate_pred, gate_edge=None):
    """[] when every path entry -> target_node passes a node satisfying gate_pred (or a gate edge)."""
    return find_path_avoiding(cfg, lambda x: x is target_node, gate_node=gate_pred, gate_edge=gate_edge)


def enclosing_loop(cfg, node):
    """The `iter` head whose body contains `node` (node reaches the head again without passing the exit), if any."""
    for h in cfg.nodes:
        if h.kind != "iter":
            continue
        body = {id(x) for st in h.ast.body for x in ast.walk(st)}
        if node.ast is not None and id(node.ast) in body:
            return h
    return None


def run(ctx: Context):
    idx = ctx.idx
    cg = get_callgraph(idx)
    folder = get_folder(idx)

    # ---------------------------------------------------------------- 1. add_lease ordering
    with ctx.rule("C29.1", "R1", "ShareFile.add_lease: new count encodable before any write; lease record written "
                  "before the lease count; both on every normal path", expected=2) as r:
        fn = idx.func(SF + ".add_lease")
        idx.func(SF + "._write_lease_record")
        idx.func(SF + "._write_encoded_num_leases")
        cfg = fn.cfg()
        fnorm = FlowNorm(fn)
        lease_p = first_positional_params(fn)[0]
        COUNT = "self._read_num_leases(f)"
        fvars = {t for n in cfg.nodes if n.kind == "with" for t in node_stores(n)}

        def count_read(s):
            return any(s == "self._read_num_leases(%s)" % v for v in fvars)

        def new_count(s):
            return any(s == norm_src("self._read_num_leases(%s) + 1" % v) for v in fvars)

        def is_rec(n):
            return bool(calls_at(n, "_write_lease_record"))

        def packs(n):
            for c in calls_at(n, "pack"):
                if len(c.args) == 2 and fnorm.norm(n, c.args[0]) == "self._lease_count_format" and new_count(fnorm.norm(n, c.args[1])):
                    return True
            return False

        def is_cnt(n):
            for c in calls_at(n, "_write_encoded_num_leases"):
                v = fnorm.resolve(n, c.args[1]) if len(c.args) == 2 else None
                if isinstance(v, ast.Call) and call_tail(v) == "pack" and len(v.args) == 2 and new_count(fnorm.norm(n, v.args[1])):
                    return True
            for c in calls_at(n, "_write_num_leases"):
                if len(c.args) == 2 and new_count(fnorm.norm(n, c.args[1])):
                    return True
            return False
        recs = cfg.find(is_rec)
        cnts = cfg.find(lambda n: bool(calls_at(n, "_write_encoded_num_leases") or calls_at(n, "_write_num_leases")))
        if not recs or not cnts:
            raise AnchorVanished("add_lease no longer writes a record and a count")
        for n in recs:
            r.site(fn, n.ast, "record")
            c = calls_at(n, "_write_lease_record")[0]
            ok = len(c.args) == 3 and count_read(fnorm.norm(n, c.args[1])) and fnorm.norm(n, c.args[2]) == lease_p
            r.require(ok, fn, fn.loc(c), "the new lease is written as %s; it must go to slot <current count> and carry "
                      "the lease given by the caller - another slot overwrites an existing lease" % src(fn, c))
            for (t, w) in dominated(cfg, n, packs):
                r.violation(fn, fn.loc(c), "the lease record is written before the new lease count is known to be "
                            "encodable (struct.pack(self._lease_count_format, count+1) must come first): an overflow "
                            "then leaves a record without a count", w)
        for n in cnts:
            r.site(fn, n.ast, "count")
            r.require(is_cnt(n), fn, fn.loc(n.ast), "the stored lease count is not <current count> + 1: %s" % src(fn, n.ast))
            for (t, w) in dominated(cfg, n, is_rec):
                r.violation(fn, fn.loc(n.ast), "the lease count is written before the lease record: after a crash the "
                            "count claims a record that was never written and the data region is mis-sized", w)
        for pred, what in ((is_rec, "lease record"), (lambda n: n in cnts, "lease count")):
            for (t, w) in find_path_avoiding(cfg, lambda x: x.kind == "exit", gate_node=pred):
                r.violation(fn, fn.loc(), "add_lease can return without writing the %s (path: %s)" % (what, w.brief()), w)
        r.count(len(cfg.nodes))

    # ---------------------------------------------------------------- 2. cancel_lease ordering
    with ctx.rule("C29.2", "R1", "ShareFile.cancel_lease: surviving records, then count, then truncate, all for "
                  "len(survivors); the file is unlinked only when no lease survives (also MutableShareFile)",
                  expected=5) as r:
        fn = idx.func(SF + ".cancel_lease")
        mfn = idx.func(MSF + ".cancel_lease")
        cfg = fn.cfg()
        fnorm = FlowNorm(fn)
        cnt_nodes = cfg.find(lambda n: bool(calls_at(n, "_write_num_leases") or calls_at(n, "_write_encoded_num_leases")))
        tr_nodes = cfg.find(has_call("_truncate_leases"))
        rec_nodes = cfg.find(has_call("_write_lease_record"))
        if not cnt_nodes or not tr_nodes or not rec_nodes:
            raise AnchorVanished("cancel_lease no longer rewrites records, count and truncates")
        survivors = None
        for n in rec_nodes:
            r.site(fn, n.ast, "records")
            h = enclosing_loop(cfg, n)
            c = calls_at(n, "_write_lease_record")[0]
            ok = h is not None and isinstance(h.ast.iter, ast.Call) and call_name(h.ast.iter) == "enumerate" \
                and len(h.ast.iter.args) == 1 and isinstance(h.ast.iter.args[0], ast.Name)
            if ok:
                tn = loop_target_names(h.ast)
                ok = len(tn) == 2 and len(c.args) == 3 and [attr_path(a) for a in c.args[1:]] == tn
                survivors = h.ast.iter.args[0].id
            r.require(ok, fn, fn.loc(c), "surviving leases are not rewritten in order as _write_lease_record(f, i, lease) "
                      "for i, lease in enumerate(<survivors>): %s" % src(fn, c))
            if ok:
                # the list is the compacted one: [l for l in leases if l]
                ds = [d for d in (all_defs(fn).get(survivors) or []) if d is not None]
                r.require(any(isinstance(d, ast.ListComp) and d.generators and d.generators[0].ifs for d in ds), fn, fn.loc(c),
                          "the rewritten list %s is not the compacted list of non-cancelled leases" % survivors)
        want_len = "len(%s)" % survivors if survivors else None
        heads = [enclosing_loop(cfg, n) for n in rec_nodes]
        for n in cnt_nodes:
            r.site(fn, n.ast, "count")
            c = (calls_at(n, "_write_num_leases") or calls_at(n, "_write_encoded_num_leases"))[0]
            r.require(len(c.args) == 2 and fnorm.norm(n, c.args[1]) == want_len, fn, fn.loc(c),
                      "the count written after cancelling is %s, not %s" % (src(fn, c.args[1]) if len(c.args) == 2 else "?", want_len))
            for h in heads:
                if h is None:
                    continue
                for (t, w) in dominated(cfg, n, None, gate_edge=lambda m, lab, _h=h: m is _h and lab == "done"):
                    r.violation(fn, fn.loc(c), "the lease count is lowered before the surviving records are rewritten: "
                                "a crash in between loses a non-cancelled lease", w)
        for n in tr_nodes:
            r.site(fn, n.ast, "truncate")
            c = calls_at(n, "_truncate_leases")[0]
            r.require(len(c.args) == 2 and fnorm.norm(n, c.args[1]) == want_len, fn, fn.loc(c),
                      "the file is truncated to %s leases, not %s" % (src(fn, c.args[1]) if len(c.args) == 2 else "?", want_len))
            for (t, w) in dominated(cfg, n, lambda m: m in cnt_nodes):
                r.violation(fn, fn.loc(c), "the file is truncated before the lower lease count is stored: after a crash "
                            "the old count points the data region into the share data", w)
        # unlink only when nothing survives
        for f_ in (fn, mfn):
            fcfg = f_.cfg()
            fno = FlowNorm(f_)
            un = fcfg.find(lambda n: any(call_name(c) in ("self.unlink", "os.unlink", "os.remove") for c in node_calls(n)))
            if not un:
                raise AnchorVanished("%s no longer removes a share without leases" % short(f_))
            if f_ is fn:
                zero_ok = {want_len}
            else:
                # mutable: a counter that every lease not matching the cancel secret increments
                zero_ok = set()
                cands = {attr_path(x.ast.target) for x in fcfg.nodes if x.kind == "stmt" and isinstance(x.ast, ast.AugAssign)
                         and isinstance(x.ast.op, ast.Add) and isinstance(x.ast.target, ast.Name)}
                for var in cands:
                    st_nodes = [x for x in fcfg.nodes if var in node_stores(x)]
                    incs = [x for x in st_nodes if isinstance(x.ast, ast.AugAssign) and norm_plain(x.ast.value) == "1"]
                    zeros = [x for x in st_nodes if isinstance(x.ast, ast.Assign) and norm_plain(x.ast.value) == "0"]
                    if len(incs) + len(zeros) != len(st_nodes) or not incs:
                        continue
                    good = False
                    for t in fcfg.nodes:
                        for (d, lab) in fcfg.succ[t.id]:
                            ef = fno.edge_fact(t, lab)
                            if not ef or ef[0] != "false" or "is_cancel_secret(" not in (ef[1] or ""):
                                continue
                            h = enclosing_loop(fcfg, incs[0])
                            if h is None:
                                continue
                            # from the not-matching edge, the loop head is reached only through the increment
                            def tr(a_, l_, nx, s_, _t=t, _lab=lab, _h=h):
                                if l_ == "exc":
                                    return None
                                if a_ is _t:
                                    return 0 if (s_ == 0 and l_ is _lab) else None
                                if a_ is _h or a_ in incs:
                                    return None
                                return 1
                            vis, par = explore(fcfg, 0, tr, start=t)
                            reached_head = any(fcfg.nodes[i] is h for (i, _s) in vis)
                            reached_inc = any(fcfg.nodes[i] in incs for (i, _s) in vis)
                            if reached_inc and not reached_head:
                                good = True
                    if good:
                        zero_ok.add(var)

            def gate(m, lab, _fno=fno, _ok=zero_ok):
                ef = _fno.edge_fact(m, lab)
                if not ef:
                    return False
                if ef[0] == "false":
                    return ef[1] in _ok
                return ef[0] == "==" and ef[1] == "0" and ef[2] in _ok
            for n in un:
                r.site(f_, n.ast, "unlink")
                for (t, w) in find_path_avoiding(fcfg, lambda x, _n=n: x is _n, gate_edge=gate):
                    r.violation(f_, f_.loc(n.ast), "%s removes the share file although leases may remain (path: %s)" % (
                        short(f_), w.brief()), w)

    # ---------------------------------------------------------------- 3. start-up
    with ctx.rule("C29.3", "R1", "StorageServer.__init__ discards incoming/ (_clean_incomplete -> rm_dir(incomingdir)) "
                  "on every path of server construction, and only there", expected=3) as r:
        init = idx.func(SS + ".__init__")
        cl = idx.func(SS + "._clean_incomplete")
        icfg = init.cfg()

        def cleans(n):
            return any(call_name(c) == "self._clean_incomplete" for c in node_calls(n))
        cn = icfg.find(cleans)
        r.require(bool(cn), init, init.loc(), "StorageServer.__init__ does not call _clean_incomplete(): partial "
                  "uploads of the previous run survive a restart")
        for n in cn:
            r.site(init, n.ast, "clean")
            for (t, w) in dominated(icfg, n, stores("self.incomingdir")):
                r.violation(init, init.loc(n.ast), "_clean_incomplete runs before self.incomingdir is set", w)
        for (t, w) in find_path_avoiding(icfg, lambda x: x.kind == "exit", gate_node=cleans):
            r.violation(init, init.loc(), "a StorageServer can be constructed without discarding incoming/ (path: %s)" % w.brief(), w)

        # (the relative order of the cleaning and make_dirs(incomingdir) does not matter: ShareFile(create=True)
        # makes its own parent directories; what matters is that the cleaning is unconditional)
        r.site(init, None, "unconditional")
        rm = [c for c in calls_in_func(cl) if call_tail(c) in ("rm_dir", "rmtree")]
        r.require(bool(rm), cl, cl.loc(), "_clean_incomplete does not remove the incoming directory")
        for c in rm:
            r.site(cl, c, "rm_dir")
            r.require(len(c.args) >= 1 and attr_path(c.args[0]) == "self.incomingdir", cl, cl.loc(c),
                      "_clean_incomplete removes %s, not self.incomingdir" % src(cl, c))
        for (t, w) in find_path_avoiding(cl.cfg(), lambda x: x.kind == "exit",
                                         gate_node=lambda n: any(call_tail(c) in ("rm_dir", "rmtree") for c in node_calls(n))):
            r.violation(cl, cl.loc(), "_clean_incomplete can return without removing incoming/", w)
        # nobody else discards incoming/ while uploads are running
        bad, badrefs, total = callers_outside(idx, "_clean_incomplete", [SS + ".__init__"])
        for cs in bad:
            r.violation(cs.fn, cs.loc, "%s discards incoming/ outside start-up" % short(cs.fn))

    # ---------------------------------------------------------------- 4. regions written by lease operations
    with ctx.rule("C29.4", "R5/R4", "lease operations write only lease records (behind the data), the 4-byte count at "
                  "0x08 / the extra-lease count, never the data region; no truncating open", expected=8) as r:
        # immutable record
        wl = idx.func(SF + "._write_lease_record")
        wn_ = FlowNorm(wl)
        wps = first_positional_params(wl)
        want_pos = norm_src("self._lease_offset + %s * self.LEASE_SIZE" % wps[1])
        wcfg = wl.cfg()
        writes = [(n, c) for n in wcfg.nodes for c in calls_at(n, "write")]
        if not writes:
            raise AnchorVanished("_write_lease_record no longer writes")
        for (n, c) in writes:
            r.site(wl, c, "immutable record")
            seeks = lambda m: any(len(cc.args) == 1 and wn_.norm(m, cc.args[0]) == want_pos for cc in calls_at(m, "seek"))
            for (t, w) in dominated(wcfg, n, seeks):
                r.violation(wl, wl.loc(c), "a lease record is written somewhere else than _lease_offset + "
                            "lease_number*LEASE_SIZE - it can land in the share data", w)
            a0 = wn_.norm(n, c.args[0]) if c.args else ""
            r.require(re.match(r"^self\._schema\.lease_serializer\.serialize\(%s\)$" % re.escape(wps[2]), a0) is not None,
                      wl, wl.loc(c), "the record written is %s, not the serialised lease" % a0)
        # immutable count
        wc = idx.func(SF + "._write_encoded_num_leases")
        cn_ = FlowNorm(wc)
        cps = first_positional_params(wc)
        ccfg = wc.cfg()
        writes = [(n, c) for n in ccfg.nodes for c in calls_at(n, "write")]
        if not writes:
            raise AnchorVanished("_write_encoded_num_leases no longer writes")
        for (n, c) in writes:
            r.site(wc, c, "immutable count")
            seeks = lambda m: any(len(cc.args) == 1 and cn_.norm(m, cc.args[0]) == "8" for cc in calls_at(m, "seek"))
            for (t, w) in dominated(ccfg, n, seeks):
                r.violation(wc, wc.loc(c), "the lease count is not written at offset 0x08", w)
            r.require(len(c.args) == 1 and cn_.norm(n, c.args[0]) == cps[1], wc, wc.loc(c),
                      "the count bytes written are %s" % src(wc, c))
        fx = idx.func(IMM + ":_fix_lease_count_format")
        xn = FlowNorm(fx)
        xcfg = fx.cfg()
        rets = xcfg.find(is_return)
        if not rets:
            raise AnchorVanished("_fix_lease_count_format has no return")
        for n in rets:
            r.site(fx, n.ast, "count width")

            def narrow(m, lab):
                f = xn.edge_fact(m, lab)
                return bool(f) and f[0] in ("<=", "<") and f[1].startswith("struct.calcsize(") and f[2] in ("4", "5") \
                    and (f[0], f[2]) in (("<=", "4"), ("<", "5"))
            for (t, w) in find_path_avoiding(xcfg, lambda x, _n=n: x is _n, gate_edge=narrow):
                r.violation(fx, fx.loc(n.ast), "a lease-count format wider than 4 bytes is accepted: the count would "
                            "overwrite the first bytes of the share data at 0x0c", w)
        ini = idx.func(SF + ".__init__")
        fmt_vals = [(n, v) for n in ini.cfg().nodes for v in [assign_value(n, "self._lease_count_format")] if v is not None]
        if not fmt_vals:
            raise AnchorVanished("ShareFile.__init__ no longer sets _lease_count_format")
        for (n, v) in fmt_vals:
            r.require(isinstance(v, ast.Call) and call_tail(v) == "_fix_lease_count_format", ini, ini.loc(v),
                      "the lease-count format %s is not validated by _fix_lease_count_format" % src(ini, v))
        # immutable truncate
        tl = idx.func(SF + "._truncate_leases")
        tn_ = FlowNorm(tl)
        tps = first_positional_params(tl)
        trs = [(n, c) for n in tl.cfg().nodes for c in calls_at(n, "truncate")]
        if not trs:
            raise AnchorVanished("_truncate_leases no longer truncates")
        for (n, c) in trs:
            r.site(tl, c, "immutable truncate")
            r.require(len(c.args) == 1 and tn_.norm(n, c.args[0]) == norm_src("self._lease_offset + %s * self.LEASE_SIZE" % tps[1]),
                      tl, tl.loc(c), "the share file is truncated at %s, not at _lease_offset + num_leases*LEASE_SIZE - "
                      "share data or live leases are cut off" % src(tl, c))
        # lease methods call no data writer and never truncate-open
        data_writers = {"write", "writelines", "truncate", "write_share_data", "_write_share_data", "_write_data_length",
                        "_change_container_size", "writev", "_write_extra_lease_offset", "create"}
        for (cls_q, names) in ((SF, ("add_lease", "renew_lease", "add_or_renew_lease", "cancel_lease")),
                               (MSF, ("add_lease", "renew_lease", "add_or_renew_lease", "cancel_lease", "_pack_leases"))):
            ci = idx.cls(cls_q)
            for nm in names:
                f = idx.func(cls_q + "." + nm)
                r.site(f, None, "lease method")
                for c in calls_in_func(f, into_lambda=True):
                    if call_tail(c) in data_writers:
                        r.violation(f, f.loc(c), "%s, a lease-only operation, calls %s" % (short(f), src(f, c)))
            for f in ci.methods.values():
                for c in calls_in_func(f, "open", into_lambda=True):
                    if call_name(c) != "open":
                        continue
                    mode = arg(c, 1, "mode")
                    mv = mode.value if isinstance(mode, ast.Constant) else None
                    if mode is None:
                        mv = "r"
                    if mv in ("rb", "rb+", "r"):
                        continue
                    creating = (cls_q == SF and f.name == "__init__") or (cls_q == MSF and f.name == "create")
                    if creating and mv == "wb":
                        # only on the creation path, after asserting that the file does not exist yet
                        node = [n for n in f.cfg().nodes if any(x is c for x in node_calls(n))][0]
                        fno = FlowNorm(f)
                        bad = find_path_avoiding(f.cfg(), lambda x, _n=node: x is _n,
                                                 gate_edge=lambda m, lab: fno.edge_fact(m, lab) == ("false", "os.path.exists(self.home)", None))
                        for (t, w) in bad:
                            r.violation(f, f.loc(c), "%s opens the container for overwriting without checking that it "
                                        "does not exist" % short(f), w)
                        continue
                    r.violation(f, f.loc(c), "%s opens the share container with mode %r (truncates or appends)" % (short(f), mv))
        # mutable record placement
        mw = idx.func(MSF + "._write_lease_record")
        mn = FlowNorm(mw)
        mcfg = mw.cfg()
        mps = first_positional_params(mw)
        k = mps[1]
        rd = C.reaching_defs(mcfg)
        want_hdr = norm_src("self.HEADER_SIZE + %s * self.LEASE_SIZE" % k)
        want_ext = norm_src("self._read_extra_lease_offset(%s) + 4 + (%s - 4) * self.LEASE_SIZE" % (mps[0], k))
        mci = idx.cls(MSF)
        consts = {nm: folder.class_attr(mci, nm) for nm in ("HEADER_SIZE", "LEASE_SIZE", "DATA_OFFSET")}
        r.require(consts["HEADER_SIZE"] + 4 * consts["LEASE_SIZE"] == consts["DATA_OFFSET"], mw, mw.loc(),
                  "the four in-header lease slots do not end at DATA_OFFSET: %s" % consts)
        writes = [(n, c) for n in mcfg.nodes for c in calls_at(n, "write")]
        if not writes:
            raise AnchorVanished("MutableShareFile._write_lease_record no longer writes")
        for (n, c) in writes:
            r.site(mw, c, "mutable record")
            seek_nodes = [m for m in mcfg.nodes if calls_at(m, "seek")]
            for (t, w) in dominated(mcfg, n, lambda m: m in seek_nodes):
                r.violation(mw, mw.loc(c), "the lease record is written without positioning the file", w)
            for m in seek_nodes:
                sc = calls_at(m, "seek")[0]
                a = sc.args[0] if sc.args else None
                forms = []
                if isinstance(a, ast.Name) and len(rd.get(m.id, {}).get(a.id, ())) > 1:
                    for d in rd[m.id][a.id]:
                        dn = mcfg.nodes[d]
                        v = assign_value(dn, a.id)
                        forms.append((dn, mn.norm(dn, v) if v is not None else "?"))
                else:
                    forms.append((m, mn.norm(m, a) if a is not None else "?"))
                for (dn, form) in forms:
                    if form == want_ext:
                        continue
                    if form == want_hdr:
                        lt4 = lambda x, lab: mn.edge_fact(x, lab) in (("<", k, "4"), ("<=", k, "3"))
                        for (t, w) in dominated(mcfg, dn, None, gate_edge=lt4):
                            r.violation(mw, mw.loc(dn.ast), "an in-header lease slot is addressed without lease_number < 4: "
                                        "slot 4 and above would overwrite the share data at DATA_OFFSET", w)
                        continue
                    r.violation(mw, mw.loc(dn.ast), "a mutable lease record is placed at %s (expected the in-header slot "
                                "or the extra-lease area)" % form)
        mx = idx.func(MSF + "._write_num_extra_leases")
        xn2 = FlowNorm(mx)
        xps = first_positional_params(mx)
        xw = [(n, c) for n in mx.cfg().nodes for c in calls_at(n, "write")]
        if not xw:
            raise AnchorVanished("_write_num_extra_leases no longer writes")
        for (n, c) in xw:
            r.site(mx, c, "mutable extra count")
            seeks = lambda m: any(len(cc.args) == 1 and xn2.norm(m, cc.args[0]) == "self._read_extra_lease_offset(%s)" % xps[0]
                                  for cc in calls_at(m, "seek"))
            for (t, w) in dominated(mx.cfg(), n, seeks):
                r.violation(mx, mx.loc(c), "the extra-lease count is not written at the extra-lease offset", w)
            r.require(len(c.args) == 1 and xn2.norm(n, c.args[0]) == norm_src("struct.pack('>L', %s)" % xps[1]), mx, mx.loc(c),
                      "the extra-lease count is written as %s (4 bytes big-endian expected)" % src(mx, c))

    # ---------------------------------------------------------------- 5. re-open formula vs. effect prefixes
    with ctx.rule("C29.5", "E3/symbolic", "the data-region bound recomputed by ShareFile.__init__ on re-open has the "
                  "same value after every prefix of the file effects of each lease-changing ShareFile method", expected=4) as r:
        ini = idx.func(SF + ".__init__")
        inorm = FlowNorm(ini)
        formula = None
        for n in ini.cfg().nodes:
            v = assign_value(n, "self._lease_offset")
            if v is None:
                continue
            p = inorm.at(n).poly(v)
            if p == N().poly(parse_expr("max_size + 12")):
                continue
            r.site(ini, n.ast, "re-open formula %s" % p)
            formula = (n, p)
        if formula is None:
            raise AnchorVanished("ShareFile.__init__ no longer recomputes _lease_offset when opening an existing share")
        fnode, P = formula
        fs_atoms = [k for k in P.t if len(k) == 1 and _is_filesize(ini, k[0])]
        cnt_terms = [k for k in P.t if len(k) == 2 and LS in k and any(_is_header_count(ini, a) for a in k if a != LS)]
        depends = bool(fs_atoms) or bool(cnt_terms)
        if depends:
            shape_ok = len(P.t) == 2 and len(fs_atoms) == 1 and len(cnt_terms) == 1 and P.t[fs_atoms[0]] == 1 \
                and P.t[cnt_terms[0]] == -1
            if not shape_ok:
                raise AnalysisError("re-open formula %s is not of the form filesize - count*LEASE_SIZE; extend the rule" % P)
        L, n_, m_, ls = Poly.atom("L"), Poly.atom("n"), Poly.atom("m"), Poly.atom("LEASE_SIZE")

        def reopen(F, Ncount):
            return F - Ncount * ls if depends else L
        EFFECTS = ("_write_lease_record", "_write_encoded_num_leases", "_write_num_leases", "_truncate_leases")
        for must in ("add_lease", "cancel_lease", "renew_lease"):
            idx.func(SF + "." + must)
        meths = [m for m in idx.cls(SF).methods.values() if m.name not in EFFECTS and m.name != "__init__"
                 and any(call_tail(c) in EFFECTS for c in calls_in_func(m, into_lambda=True))]
        for f in sorted(meths, key=lambda m: m.name):
            meth = f.name
            fcfg = f.cfg()
            fno = FlowNorm(f)
            fvars = {t for x in fcfg.nodes if x.kind == "with" for t in node_stores(x)}
            eff_nodes = [x for x in fcfg.nodes if x.kind == "stmt" and any(
                call_tail(c) in ("_write_lease_record", "_write_encoded_num_leases", "_write_num_leases", "_truncate_leases")
                for c in node_calls(x))]
            if not eff_nodes:
                raise AnchorVanished("%s has no lease file effects" % short(f))
            # order by reachability (an effect inside a loop may run zero times, so domination is too strong)
            def reach(a):
                vis, _p = explore(fcfg, 0, lambda a_, l_, nx, s_: None if l_ == "exc" else 0, start=a)
                return {i for (i, _s) in vis if i != a.id} | ({a.id} if any(
                    d == a.id for (i, _s) in vis for (d, _l) in fcfg.succ[i]) else set())

            def before(a, b):
                return b.id in reach(a) and a.id not in reach(b)
            order = sorted(eff_nodes, key=lambda a: sum(1 for b in eff_nodes if b is not a and before(b, a)))
            for i in range(len(order) - 1):
                if not before(order[i], order[i + 1]):
                    raise AnalysisError("%s: file effects are not totally ordered" % short(f))
            r.site(f, None, "%d effects" % len(order))
            F, Ncnt = L + n_ * ls, n_
            removed_sym = any(call_tail(c) == "_truncate_leases" for c in calls_in_func(f))
            trace = []
            for i, x in enumerate(order):
                c = [c for c in node_calls(x) if call_tail(c) in (
                    "_write_lease_record", "_write_encoded_num_leases", "_write_num_leases", "_truncate_leases")][0]
                t = call_tail(c)
                if t == "_write_lease_record":
                    kx = fno.norm(x, c.args[1]) if len(c.args) >= 2 else "?"
                    if any(kx == "self._read_num_leases(%s)" % v for v in fvars):
                        F = L + (n_ + Poly.const(1)) * ls           # appended behind the last record
                        desc = "record[n] appended (file grows by LEASE_SIZE)"
                    elif enclosing_loop(fcfg, x) is not None:
                        desc = "records[0..m) rewritten in place"    # m <= n: no growth
                    else:
                        raise AnalysisError("%s: cannot place record index %s" % (short(f), kx))
                elif t in ("_write_encoded_num_leases", "_write_num_leases"):
                    cv = fno.resolve(x, c.args[1]) if len(c.args) >= 2 else None
                    if isinstance(cv, ast.Call) and call_tail(cv) == "pack" and len(cv.args) == 2:
                        cv = cv.args[1]
                    cvn = fno.norm(x, cv) if cv is not None else "?"
                    if any(cvn == norm_src("self._read_num_leases(%s) + 1" % v) for v in fvars):
                        Ncnt, desc = n_ + Poly.const(1), "count := n+1"
                    elif removed_sym and cvn.startswith("len("):
                        Ncnt, desc = m_, "count := m"
                    else:
                        raise AnalysisError("%s: cannot interpret the stored count %s" % (short(f), cvn))
                else:
                    F = L + m_ * ls
                    desc = "truncate to m records"
                trace.append(desc)
                val = reopen(F, Ncnt)
                if val != L:
                    last = (i == len(order) - 1)
                    where = "after its last file effect" if last else "between '%s' and the next file effect" % desc
                    r.violation(f, f.loc(x.ast), "crash window in %s: %s a re-opened share computes the end of its data "
                                "region as %s instead of L (L = true lease offset, n = leases before, m = leases kept, "
                                "m < n): ShareFile.__init__ derives _lease_offset/_length from file size and lease "
                                "count, which this operation changes in separate writes - the data length and every "
                                "lease position shift by whole lease records (effects so far: %s)" % (
                                    short(f), where, val, "; ".join(trace)))
                    break
            r.count(len(order))

    # ---------------------------------------------------------------- 6. mutable: record before the count that exposes it
    with ctx.rule("C29.6", "R1", "MutableShareFile: a new extra-lease slot is counted (_write_num_extra_leases) only "
                  "after its record has been written", expected=1) as r:
        mw = idx.func(MSF + "._write_lease_record")
        recw = lambda n: any((call_tail(c) == "write" and c.args and isinstance(c.args[0], ast.Call)
                              and call_tail(c.args[0]) == "serialize") or call_name(c) == "self._write_lease_record"
                             for c in node_calls(n))
        if not mw.cfg().find(recw):
            raise AnchorVanished("MutableShareFile._write_lease_record no longer writes a serialised lease")
        n_inc = 0
        for f in sorted(idx.cls(MSF).methods.values(), key=lambda m: m.name):
            if f.name == "_write_num_extra_leases":
                continue
            mcfg = f.cfg()
            for n in mcfg.find(has_call("_write_num_extra_leases")):
                n_inc += 1
                r.site(f, n.ast, "slot count")
                for (t, w) in dominated(mcfg, n, recw):
                    r.violation(f, f.loc(n.ast), "the extra-lease count is raised before the new record exists: after a "
                                "crash in between, the count names a slot beyond the end of the file and every later "
                                "get_leases/add_lease on the share fails in unserialize (path: %s)" % w.brief(), w)
        if n_inc == 0:
            raise AnchorVanished("no caller of _write_num_extra_leases in MutableShareFile")
