"""C30 HTTP storage API authorization.

Decided: how a request reaches a handler (registration closure), what dominates
the handler call inside the authorizing wrapper, exact-secret extraction, the
upload-secret gate in front of every in-progress BucketWriter, routing of the
lease secrets / write enabler to the backend, absence of server-state
access before authorization, and delivery of a rejection to the client as a
4xx status (DESIGN.md section 5, C30)."""
from sa.h import *

EXPLANATION = (
    "Decided (structural, all paths): (1) the Klein app of HTTPServer is referenced only by "
    "_authorized_route(...) registrations, the converter/error-handler setup and resource(); every route "
    "method is registered through _authorized_route with a constant set of Secrets; inside _authorized_route "
    "the Klein route decorator is applied outside _authorization_decorator(required_secrets), and the "
    "decorator factories return the wrapping functions; (2) in the wrapper `route` the call of the handler "
    "is dominated by timing_safe_compare(Authorization header, swissnum_auth_header(self._swissnum)) being "
    "true and by normal return of _extract_secrets(X-Tahoe-Authorization headers, required_secrets); the "
    "handler receives exactly that result; the false branch raises 401; (3) _extract_secrets returns only "
    "when result.keys() == required_secrets, stores a secret only when it is non-empty and (for lease "
    "secrets) 32 bytes long, and its error handler cannot fall through; (4) get_write_bucket returns the "
    "writer only after validate_upload_secret on the same (storage index, share, secret); "
    "validate_upload_secret returns normally only through 'no such upload' or a true timing_safe_compare of "
    "the stored secret; secrets and writers are added/removed as pairs; StorageIndexUploads.shares is read "
    "only by UploadsInProgress; write_share_data/abort_share_upload require Secrets.UPLOAD and operate only "
    "on the writer from get_write_bucket(si, shnum, authorization[UPLOAD]); the registering methods of "
    "UploadsInProgress are found by role (they store into the writer/secret tables or forward to one that does), "
    "return nothing, and every call of one from a route binds (by position/keyword) the parameter filed as the "
    "secret to authorization[UPLOAD]; (5) handlers read only declared secrets; state-changing "
    "backend calls receive the matching declared secrets (write enabler first), BadWriteEnablerError -> 401; "
    "(6) before both gates of (2) hold, `route` evaluates nothing that mentions self (except "
    "self._swissnum), the handler, or its arguments; (8) `route` reaches its normal exit only after the handler "
    "call returned (or after request.setResponseCode), so an _HTTPError rejection is never swallowed into a "
    "200; every _HTTPError raised by `route` itself carries a constant 4xx code in the code position; "
    "_add_error_handling registers a handle_errors(_HTTPError) handler that calls "
    "request.setResponseCode(failure.value.code) on every path, and HTTPServer installs it on its Klein app; "
    "(7) write-enabler guard adopted from C24.4/C24.5. "
    "Undecided: base64/CBOR value-level behaviour, Klein/werkzeug routing internals (incl. how Klein renders "
    "a None result and dispatches handle_errors), whether the eliot action context manager swallows "
    "exceptions, secrecy of the swissnum in transit, duplicate-header precedence (which of several "
    "Authorization headers is compared), over-rejection (edits that refuse correct credentials), response "
    "bodies / success status codes of the handlers, the lease-secret order inside the storage backend.")
TECHNIQUE = "static analysis: reference closure of the Klein app, CFG dominance with normalised edge facts, who-may-read"

MOD = "allmydata.storage.http_server"
HS = "storage.http_server:HTTPServer"
UIP = "storage.http_server:UploadsInProgress"
ROUTE = "storage.http_server:_authorization_decorator.decorator.route"

HTTP_CODES = {"OK": 200, "CREATED": 201, "NO_CONTENT": 204, "PARTIAL_CONTENT": 206, "BAD_REQUEST": 400,
              "UNAUTHORIZED": 401, "NOT_FOUND": 404, "NOT_ALLOWED": 405, "NOT_ACCEPTABLE": 406, "CONFLICT": 409,
              "REQUESTED_RANGE_NOT_SATISFIABLE": 416, "UNSUPPORTED_MEDIA_TYPE": 415,
              "REQUEST_ENTITY_TOO_LARGE": 413, "INTERNAL_SERVER_ERROR": 500}


def http_code(e):
    """http.X / constant -> int, else None."""
    if isinstance(e, ast.Constant) and isinstance(e.value, int):
        return e.value
    if isinstance(e, ast.Attribute) and isinstance(e.value, ast.Name) and e.value.id == "http":
        return HTTP_CODES.get(e.attr)
    return None


def underlying(fnm, n):
    """(expression, polarity) of a test node after following name copies and `not`."""
    e, pol = n.ast, True
    for _ in range(8):
        if isinstance(e, ast.UnaryOp) and isinstance(e.op, ast.Not):
            e, pol = e.operand, not pol
            continue
        if isinstance(e, ast.Name):
            e2 = fnm.resolve(n, e)
            if e2 is e:
                break
            e = e2
            continue
        break
    return e, pol


def parent_map(tree):
    pm = {}
    for p in ast.walk(tree):
        for c in ast.iter_child_nodes(p):
            pm[c] = p
    return pm


def klein_apps(ci):
    """Class attributes bound to Klein()."""
    out = []
    for name, vals in ci.attrs.items():
        for v in vals:
            if isinstance(v, ast.Call) and call_tail(v) == "Klein":
                out.append(name)
    return out


def route_methods(idx, folder=None):
    """[(FuncInfo, decorator call, secrets value set | None)] for HTTPServer methods registered via _authorized_route."""
    ci = idx.cls(HS)
    folder = folder or get_folder(idx)
    out = []
    for m in ci.methods.values():
        for d in m.decorators():
            if isinstance(d, ast.Call) and call_tail(d) == "_authorized_route":
                sec = arg(d, 1, "required_secrets")
                try:
                    val = folder.fold(sec, ci.module, ci)
                    val = set(val) if isinstance(val, (set, frozenset)) else None
                except NotConstant:
                    val = None
                out.append((m, d, val))
    return out


def secrets_param(fn):
    """Name of the handler's secrets parameter (third: self, request, <secrets>)."""
    ps = first_positional_params(fn)
    if len(ps) < 2:
        raise AnchorVanished("%s has no secrets parameter" % fn.qual)
    return ps[1]


def secret_keys_read(fn, sp):
    """[(Secrets member name, node)] for `sp[Secrets.X]` reads inside fn (incl. nested defs); other uses -> (None, node)."""
    out = []
    for n in ast.walk(fn.node):
        if isinstance(n, ast.Subscript) and isinstance(n.value, ast.Name) and n.value.id == sp:
            s = n.slice
            if isinstance(s, ast.Attribute) and isinstance(s.value, ast.Name) and s.value.id == "Secrets":
                out.append((s.attr, n))
            else:
                out.append((None, n))
    return out


def bound_arg(c, callee, pname):
    """Argument of call `c` bound to parameter `pname` of method `callee` (self excluded), by position or keyword;
    None when the binding is not decided (star arguments, unknown parameter, missing argument)."""
    if any(isinstance(a, ast.Starred) for a in c.args) or any(k.arg is None for k in c.keywords):
        return None
    ps = first_positional_params(callee)
    if pname not in ps:
        return None
    i = ps.index(pname)
    kw = kwarg(c, pname)
    if i < len(c.args):
        return c.args[i] if kw is None else None
    return kw


def run(ctx: Context):
    idx = ctx.idx
    folder = get_folder(idx)
    mod = idx.module(MOD)
    hs = idx.cls(HS)
    secrets_enum = idx.cls("storage.http_common:Secrets")
    member_value = {k: folder.class_attr(secrets_enum, k) for k in secrets_enum.attrs}
    value_member = {v: k for k, v in member_value.items()}

    # ---------------------------------------------------------------- 1 -------
    with ctx.rule("C30.1", "R4", "every route of HTTPServer is registered through _authorized_route; the Klein app is "
                  "not referenced otherwise; route() is applied outside _authorization_decorator(required_secrets)",
                  expected=16) as r:
        apps = klein_apps(hs)
        if len(apps) != 1:
            raise AnchorVanished("HTTPServer no longer has exactly one Klein() class attribute: %s" % apps)
        app = apps[0]
        pm = parent_map(mod.tree)
        # every Klein() construction in the storage HTTP server module
        for n in ast.walk(mod.tree):
            if isinstance(n, ast.Call) and call_tail(n) == "Klein":
                p = pm.get(n)
                ok = isinstance(p, ast.Assign) and pm.get(p) is hs.node
                r.require(ok, MOD + ":HTTPServer", "%s:%d" % (mod.relpath, n.lineno),
                          "a second Klein application is created outside HTTPServer.%s" % app)
        n_reg = 0
        for n in ast.walk(mod.tree):
            isref = (isinstance(n, ast.Name) and n.id == app) or (isinstance(n, ast.Attribute) and n.attr == app)
            if not isref:
                continue
            p = pm.get(n)
            where = "%s:%d" % (mod.relpath, n.lineno)
            if isinstance(n.ctx, ast.Store):
                ok = isinstance(p, ast.Assign) and pm.get(p) is hs.node and isinstance(p.value, ast.Call) \
                    and call_tail(p.value) == "Klein"
                r.require(ok, MOD + ":HTTPServer", where, "the Klein app %s is re-bound" % app)
                continue
            if isinstance(p, ast.Call) and call_tail(p) == "_authorized_route" and p.args and p.args[0] is n:
                n_reg += 1
                continue
            if isinstance(p, ast.Call) and call_tail(p) == "_add_error_handling" and n in p.args:
                continue
            if isinstance(p, ast.Attribute) and p.attr in ("url_map", "resource"):
                continue
            r.violation(MOD + ":HTTPServer", where,
                        "Klein app referenced outside the authorizing registration: %s" % src(None, p if p is not None else n))
        # route methods
        rms = route_methods(idx, folder)
        for (m, d, val) in rms:
            r.site(m, d, "route")
            a0 = arg(d, 0)
            r.require(isinstance(a0, ast.Name) and a0.id == app, m, m.loc(d),
                      "%s is registered on %s, not on the HTTPServer Klein app" % (m.name, src(m, a0)))
            r.require(val is not None and all(v in value_member for v in val), m, m.loc(d),
                      "required secrets of %s are not a constant set of Secrets members: %s" % (
                          m.name, src(m, arg(d, 1, "required_secrets"))))
        r.require(n_reg == len(rms), MOD + ":HTTPServer", mod.relpath,
                  "%d _authorized_route(%s, ..) calls but %d decorated route methods" % (n_reg, app, len(rms)))
        # a method that looks like a handler (has a secrets dict parameter read with Secrets.X) must be a route
        routed = {m.qual for (m, _d, _v) in rms}
        for m in hs.methods.values():
            if m.qual in routed:
                continue
            ps = first_positional_params(m)
            if len(ps) >= 2 and ps[0] == "request" and any(k for (k, _n) in secret_keys_read(m, ps[1])):
                for d in m.decorators():
                    r.violation(m, m.loc(d), "handler %s is decorated with %s instead of _authorized_route" % (
                        m.name, src(m, d)))
        # uses of the app parameters of the two helpers
        ar = idx.func("storage.http_server:_authorized_route")
        hr = idx.func("storage.http_server:_authorized_route.decorator.handle_route")
        dec = idx.func("storage.http_server:_authorized_route.decorator")
        kparam, sparam = ar.params[0], ar.params[1]
        uses = [n for n in ast.walk(ar.node) if isinstance(n, ast.Name) and n.id == kparam]
        decs = hr.decorators()
        i_route = [i for i, d in enumerate(decs) if isinstance(d, ast.Call) and isinstance(d.func, ast.Attribute)
                   and d.func.attr == "route" and isinstance(d.func.value, ast.Name) and d.func.value.id == kparam]
        i_auth = [i for i, d in enumerate(decs) if isinstance(d, ast.Call) and call_tail(d) == "_authorization_decorator"]
        if not i_route:
            raise AnchorVanished("handle_route is no longer decorated with %s.route(..)" % kparam)
        r.site(hr, decs[i_route[0]], "klein registration")
        for u in uses:
            ok = any(u is d.func.value for d in decs if isinstance(d, ast.Call) and isinstance(d.func, ast.Attribute))
            r.require(ok, ar, ar.loc(u), "%s is used outside the decorator list of handle_route" % kparam)
        if r.require(bool(i_auth), hr, hr.loc(), "handle_route is registered without _authorization_decorator: a "
                     "request reaches the handler with no swissnum check"):
            r.require(i_route[0] < i_auth[0], hr, hr.loc(decs[i_auth[0]]),
                      "_authorization_decorator is applied outside %s.route(): Klein registers the unauthorized "
                      "function" % kparam)
            a = arg(decs[i_auth[0]], 0, "required_secrets")
            r.require(isinstance(a, ast.Name) and a.id == sparam, hr, hr.loc(decs[i_auth[0]]),
                      "_authorization_decorator is given %s, not the route's required_secrets" % src(hr, a))
        rd = decs[i_route[0]]
        r.require(isinstance(arg(rd, 0), ast.Name) and arg(rd, 0).id == ar.params[2], hr, hr.loc(rd),
                  "route() is registered for %s, not for the url parameter" % src(hr, arg(rd, 0)))
        # handle_route forwards (app, request, secrets) to the handler
        hps = hr.params
        fparam = dec.params[0]
        fcalls = [c for c in calls_in_func(hr) if isinstance(c.func, ast.Name) and c.func.id == fparam]
        if not fcalls:
            raise AnchorVanished("handle_route no longer calls the wrapped handler")
        for c in fcalls:
            got = [a.id if isinstance(a, ast.Name) else None for a in c.args[:3]]
            r.require(got == hps[:3], hr, hr.loc(c), "handle_route calls the handler with %s" % src(hr, c))
        # decorator factories return the wrappers
        r.site(dec, None, "factory returns")
        for (outer, inner) in (("storage.http_server:_authorization_decorator", "decorator"),
                               ("storage.http_server:_authorization_decorator.decorator", "route")):
            o = idx.func(outer)
            if inner not in o.nested:
                raise AnchorVanished("%s.%s" % (outer, inner))
            rets = o.cfg().find(is_return)
            r.require(bool(rets), o, o.loc(), "%s returns nothing" % short(o))
            for n in rets:
                v = n.ast.value
                r.require(isinstance(v, ast.Name) and v.id == inner, o, o.loc(n.ast),
                          "%s returns %s instead of the authorizing wrapper %s" % (short(o), src(o, v), inner))
        r.site(ar, None, "app references: %d registrations" % n_reg)
        r.site(ar, None, "helper parameters")

    # ---------------------------------------------------------------- 2 + 6 ---
    fn = idx.func(ROUTE)
    dec_fn = fn.parent
    top_fn = dec_fn.parent
    fparam = dec_fn.params[0]
    reqsec = top_fn.params[0]
    selfp, reqp = fn.params[0], fn.params[1]
    cfg = fn.cfg()
    fnorm = FlowNorm(fn)
    want_swiss = norm_src("swissnum_auth_header(%s._swissnum)" % selfp)

    def header_read(e, header):
        """e contains X.requestHeaders.getRawHeaders(<header>, ..) on the request parameter."""
        for c in own_nodes(e):
            if isinstance(c, ast.Call) and call_tail(c) == "getRawHeaders" and c.args \
                    and isinstance(c.args[0], ast.Constant) and isinstance(c.args[0].value, str) \
                    and c.args[0].value.lower() == header \
                    and attr_path(c.func) == "%s.requestHeaders.getRawHeaders" % reqp:
                return True
        return False

    route_defs = def_exprs(fn)

    def from_header(n, e, header):
        """e is the header read, or a local all of whose definitions are that read or constants."""
        res = fnorm.resolve(n, e)
        if header_read(res, header):
            return True
        if isinstance(res, ast.Name):
            ds = route_defs.get(res.id) or []
            return bool(ds) and all(header_read(d, header) or isinstance(d, ast.Constant) for d in ds) \
                and any(header_read(d, header) for d in ds)
        return False

    def swiss_test(n):
        """The test node compares the Authorization header with the swissnum header, timing-safely."""
        if n.kind != "test":
            return None
        e, pol = underlying(fnorm, n)
        if not (isinstance(e, ast.Call) and call_tail(e) == "timing_safe_compare" and len(e.args) == 2 and not e.keywords):
            return None
        forms = [fnorm.norm(n, a) for a in e.args]
        for i in (0, 1):
            if forms[i] == want_swiss and from_header(n, e.args[1 - i], "authorization"):
                return "T" if pol else "F"
        return None

    def swiss_edge(n, lab):
        return isinstance(lab, tuple) and lab[0] == swiss_test(n)

    def extract_call(n):
        if n.kind != "stmt":
            return None
        for c in calls_at(n, "_extract_secrets"):
            a0, a1 = arg(c, 0, "header_values"), arg(c, 1, "required_secrets")
            if a0 is None or a1 is None:
                continue
            if isinstance(a1, ast.Name) and a1.id == reqsec and header_read(fnorm.resolve(n, a0), "x-tahoe-authorization"):
                return c
        return None

    def is_fcall(n):
        return any(isinstance(c.func, ast.Name) and c.func.id == fparam for c in node_calls(n, into_lambda=True))

    def transfer(n, lab, nxt, st):
        sw, ex = st
        if n.kind in ("entry", "exit", "raise"):
            return st
        if swiss_edge(n, lab):
            sw = 1
        if lab != "exc" and extract_call(n) is not None:
            ex = 1
        stored = node_stores(n)
        if reqsec in stored or fparam in stored:
            ex = 0
        return (sw, ex)

    visited, parent = explore(cfg, (0, 0), transfer)

    with ctx.rule("C30.2", "R1", "route: f(self, request, secrets, ..) is dominated by the true edge of "
                  "timing_safe_compare(Authorization, swissnum_auth_header(self._swissnum)) and by normal return of "
                  "_extract_secrets(X-Tahoe-Authorization, required_secrets); the false edge raises 401", expected=3) as r:
        fnodes = cfg.find(is_fcall)
        if not fnodes:
            raise AnchorVanished("route no longer calls the wrapped handler %s" % fparam)
        gates = cfg.find(swiss_test)
        exs = [n for n in cfg.nodes if extract_call(n) is not None]
        r.count(len(visited))
        for n in gates:
            r.site(fn, n.ast, "swissnum gate")
        for n in exs:
            r.site(fn, n.ast, "secret extraction")
        for n in fnodes:
            r.site(fn, n.ast, "handler call")
            for (nid, st) in sorted(visited):
                if nid == n.id and st != (1, 1):
                    w = witness(cfg, parent, (nid, st))
                    what = []
                    if not st[0]:
                        what.append("the timing-safe swissnum comparison")
                    if not st[1]:
                        what.append("successful _extract_secrets(.., required_secrets)")
                    r.violation(fn, fn.loc(n.ast), "the handler is called on a path without %s (path: %s)" % (
                        " and ".join(what), w.brief()), w)
            for c in node_calls(n, into_lambda=True):
                if not (isinstance(c.func, ast.Name) and c.func.id == fparam):
                    continue
                got = [a.id if isinstance(a, ast.Name) else None for a in c.args[:2]]
                r.require(got == [selfp, reqp], fn, fn.loc(c), "handler is called with %s" % src(fn, c))
                a2 = arg(c, 2)
                ok = False
                if a2 is not None:
                    form = fnorm.norm(n, a2)
                    ok = any(fnorm.norm(g, extract_call(g)) == form for g in exs)
                r.require(ok, fn, fn.loc(c), "the handler receives %s, not the result of _extract_secrets(.., "
                          "required_secrets)" % (src(fn, a2) if a2 is not None else "no secrets"))
        # the false edge of the swissnum comparison raises _HTTPError(401) before anything else happens
        for g in gates:
            for (d, lab) in cfg.succ[g.id]:
                if not (isinstance(lab, tuple) and lab[0] != swiss_test(g)):
                    continue

                def stop_at_raise(n, l, nxt, st):
                    if l == "exc" or is_raise(n):
                        return None
                    return 0
                vis, par = explore(cfg, 0, stop_at_raise, start=cfg.nodes[d])
                for (nid, _s) in sorted(vis):
                    m = cfg.nodes[nid]
                    if m.kind == "exit" or is_fcall(m):
                        r.violation(fn, fn.loc(g.ast), "a wrong Authorization header does not end in a raise",
                                    witness(cfg, par, (nid, 0)))
                    if is_raise(m):
                        e = m.ast.exc
                        code = http_code(e.args[0]) if isinstance(e, ast.Call) and call_tail(e) == "_HTTPError" and e.args else None
                        r.require(code == 401, fn, fn.loc(m.ast),
                                  "a wrong Authorization header is answered with %s, not 401 UNAUTHORIZED" % src(fn, e))

    with ctx.rule("C30.6", "R1", "route: nothing that mentions self (other than self._swissnum), the handler or its "
                  "arguments is evaluated before both authorization gates hold", expected=1) as r:
        r.site(fn, None, "pre-authorization region")
        forbidden_names = {fparam}
        a = fn.node.args
        if a.vararg:
            forbidden_names.add(a.vararg.arg)
        if a.kwarg:
            forbidden_names.add(a.kwarg.arg)
        pre = {}
        for (nid, st) in sorted(visited):
            if st != (1, 1) and nid not in pre:
                pre[nid] = st
        r.count(len(pre))
        for nid, st in pre.items():
            n = cfg.nodes[nid]
            if n.kind in ("entry", "exit", "raise"):
                continue
            bad = None
            for e in node_exprs(n):
                par = {}
                for y in own_nodes(e, into_lambda=True):
                    for ch in ast.iter_child_nodes(y):
                        par[ch] = y
                for x in own_nodes(e, into_lambda=True):
                    if not isinstance(x, ast.Name):
                        continue
                    if x.id in forbidden_names:
                        bad = x
                    elif x.id == selfp:
                        p = par.get(x)
                        # self._swissnum is the one permitted read
                        if not (isinstance(p, ast.Attribute) and p.attr == "_swissnum" and isinstance(p.ctx, ast.Load)):
                            bad = x
            if is_fcall(n):
                continue   # reported by C30.2
            if bad is not None:
                r.violation(fn, fn.loc(n.ast), "server state or the handler is touched before authorization: %s "
                            "(path: %s)" % (src(fn, n.ast if n.kind != "with" else n.ast.items[0].context_expr),
                                            witness(cfg, parent, (nid, st)).brief()),
                            witness(cfg, parent, (nid, st)))

    # ---------------------------------------------------------------- 8 -------
    # A rejection (wrong swissnum, bad secrets, wrong upload secret / write enabler raised by the handler) is an
    # _HTTPError travelling out of `route` to the Klein error handler, which turns .code into the status.  If
    # `route` can reach its normal exit without the handler having returned, the rejected request is answered
    # "200 OK, empty body"; if the Klein error handler is missing or ignores .code, it is answered 500 / a fixed code.
    with ctx.rule("C30.8", "R1/R4", "a rejection reaches the client: route returns normally only after the handler "
                  "returned (or a response code was set explicitly); the Klein app has an _HTTPError handler that "
                  "answers with the error's code", expected=3) as r:
        def sets_code(n, req=reqp):
            return any(call_tail(c) == "setResponseCode" and isinstance(c.func, ast.Attribute)
                       and attr_path(c.func.value) == req for c in node_calls(n))
        r.site(fn, None, "normal exits of route")
        for (t, w) in find_path_avoiding(cfg, lambda n: n.kind == "exit",
                                         gate_node=lambda n: is_fcall(n) or sets_code(n)):
            last = [n for (n, _l) in w.path if n.kind in ("stmt", "except", "test")]
            at = last[-1].ast if last else None
            r.violation(fn, fn.loc(at), "route can return normally although the handler did not: a rejected request "
                        "(wrong swissnum / secrets) is answered as a success instead of 401/400 (path: %s)" % w.brief(), w)
        # every rejection raised by route itself carries a client-error status as the code argument
        herr = idx.cls("storage.http_server:_HTTPError")
        init = herr.methods.get("__init__")
        code_kw = first_positional_params(init)[0] if init is not None and first_positional_params(init) else "code"
        for n in cfg.find(is_raise):
            e = n.ast.exc
            if not (isinstance(e, ast.Call) and call_tail(e) == "_HTTPError"):
                continue
            ca = arg(e, 0, code_kw)
            cr = fnorm.resolve(n, ca) if ca is not None else None
            code = http_code(cr) if cr is not None else None
            if code is None and isinstance(cr, (ast.Name, ast.Attribute)) and not (attr_path(cr) or "http.").startswith("http."):
                continue   # a status computed elsewhere: value-level, not decided here
            r.require(code is not None and 400 <= code <= 499, fn, fn.loc(n.ast),
                      "route rejects with %s: the status is not a 4xx code, the client is not told it was refused" % src(fn, e))
        # the Klein error handler
        aeh = idx.func("storage.http_server:_add_error_handling")
        appp = first_positional_params(aeh)[0] if first_positional_params(aeh) else None
        handlers = []
        for h in aeh.nested.values():
            for d in h.decorators():
                if isinstance(d, ast.Call) and call_tail(d) == "handle_errors" and isinstance(d.func, ast.Attribute) \
                        and attr_path(d.func.value) == appp \
                        and any(attr_path(a) == "_HTTPError" for a in d.args):
                    handlers.append((h, d))
        r.require(bool(handlers), aeh, aeh.loc(), "_add_error_handling registers no handle_errors(_HTTPError) handler: "
                  "every rejection becomes a 500")
        for (h, d) in handlers:
            r.site(h, d, "_HTTPError -> status code")
            a = h.node.args
            allp = [x.arg for x in a.posonlyargs + a.args]
            if len(allp) < 3:
                raise AnchorVanished("%s parameters" % h.qual)
            hreq, hfail = allp[1], allp[2]
            hn = FlowNorm(h)
            want_code = norm_src("%s.value.code" % hfail)

            def answers(n, _req=hreq, _hn=hn, _want=want_code):
                for c in node_calls(n):
                    if call_tail(c) == "setResponseCode" and isinstance(c.func, ast.Attribute) \
                            and attr_path(c.func.value) == _req and c.args and _hn.norm(n, c.args[0]) == _want:
                        return True
                return False
            for (t, w) in find_path_avoiding(h.cfg(), lambda n: n.kind == "exit", gate_node=answers,
                                             kill=stores_any([hreq, hfail])):
                r.violation(h, h.loc(), "the _HTTPError handler can finish without %s.setResponseCode(%s.value.code): "
                            "a 401/400 rejection is answered with another status (path: %s)" % (hreq, hfail, w.brief()), w)
        # .. is installed on the HTTPServer app
        installs = [c for st in hs.node.body if not isinstance(st, (ast.FunctionDef, ast.AsyncFunctionDef, ast.ClassDef))
                    for c in ast.walk(st) if isinstance(c, ast.Call) and call_tail(c) == "_add_error_handling"
                    and c.args and isinstance(c.args[0], ast.Name) and c.args[0].id == klein_apps(hs)[0]]
        r.site(MOD + ":HTTPServer", None, "error handling installed: %d" % len(installs))
        r.require(bool(installs), MOD + ":HTTPServer", mod.relpath,
                  "HTTPServer never calls _add_error_handling(%s): _HTTPError rejections are answered with 500" % klein_apps(hs)[0])

    # ---------------------------------------------------------------- 3 -------
    with ctx.rule("C30.3", "R1", "_extract_secrets: return only with result.keys() == required_secrets; a secret is "
                  "stored only when non-empty and, for lease secrets, 32 bytes long; the parse-error handler raises",
                  expected=3) as r:
        ex = idx.func("storage.http_server:_extract_secrets")
        ecfg = ex.cfg()
        en = FlowNorm(ex)
        ps = first_positional_params(ex)
        if len(ps) < 2:
            raise AnchorVanished("_extract_secrets parameters")
        req = ps[1]
        rets = ecfg.find(is_return)
        if not rets:
            raise AnchorVanished("_extract_secrets has no return")
        for n in rets:
            r.site(ex, n.ast, "return")
            v = n.ast.value
            rv = attr_path(v) if v is not None else None
            if not r.require(rv is not None, ex, ex.loc(n.ast), "returns %s" % src(ex, v)):
                continue

            def exact(m, lab, _rv=rv):
                f = en.edge_fact(m, lab)
                return bool(f) and f[0] == "==" and {f[1], f[2]} == {req, "%s.keys()" % _rv}
            for (t, w) in find_path_avoiding(ecfg, lambda x, _n=n: x is _n, gate_edge=exact,
                                             kill=stores_any([rv, req])):
                r.violation(ex, ex.loc(t.ast), "secrets are returned without checking that exactly the required "
                            "set was supplied (path: %s)" % w.brief(), w)
            # stores into the returned dict
            sts = ecfg.find(stores(rv + "[]"))
            if not sts:
                raise AnchorVanished("_extract_secrets never stores into %s" % rv)
            for s in sts:
                r.site(ex, s.ast, "secret store")
                if not (isinstance(s.ast, ast.Assign) and isinstance(s.ast.targets[0], ast.Subscript)):
                    r.violation(ex, ex.loc(s.ast), "unexpected store %s" % src(ex, s.ast))
                    continue
                kform = en.norm(s, s.ast.targets[0].slice)
                vform = en.norm(s, s.ast.value)

                def nonempty(m, lab, _v=vform):
                    f = en.edge_fact(m, lab)
                    if not f:
                        return False
                    return (f[0] == "!=" and {f[1], f[2]} == {"b''", _v}) or (f[0] == "truth" and f[1] == _v) \
                        or (f[0] == "<" and f[1] == "0" and f[2] == "len(%s)" % _v) \
                        or (f[0] == "!=" and {f[1], f[2]} == {"0", "len(%s)" % _v}) \
                        or (f[0] == "==" and {f[1], f[2]} == {"32", "len(%s)" % _v})
                for (t, w) in find_path_avoiding(ecfg, lambda x, _s=s: x is _s, gate_edge=nonempty):
                    r.violation(ex, ex.loc(t.ast), "an empty / undecodable secret can be accepted (path: %s)" % w.brief(), w)

                def lease_ok(m, lab, _k=kform, _v=vform):
                    f = en.edge_fact(m, lab)
                    if not f:
                        return False
                    if f[0] == "==" and {f[1], f[2]} == {"32", "len(%s)" % _v}:
                        return True
                    if f[0] == "not in" and f[1] == _k:
                        got = set(re.findall(r"Secrets\.(\w+)", f[2]))
                        return {"LEASE_RENEW", "LEASE_CANCEL"} <= got
                    return False
                for (t, w) in find_path_avoiding(ecfg, lambda x, _s=s: x is _s, gate_edge=lease_ok):
                    r.violation(ex, ex.loc(t.ast), "a lease secret that is not 32 bytes long can be accepted "
                                "(path: %s)" % w.brief(), w)
        # handlers cannot reach the normal exit
        for h in ecfg.find(lambda n: n.kind == "except"):
            r.site(ex, h.ast, "parse-error handler")
            vis, par = explore(ecfg, 0, lambda n, lab, nxt, st: 0, start=h)
            for (nid, _s) in sorted(vis):
                if ecfg.nodes[nid].kind == "exit":
                    r.violation(ex, ex.loc(h.ast), "a malformed X-Tahoe-Authorization header is swallowed: the "
                                "handler can continue to a normal return", witness(ecfg, par, (nid, 0)))
                    break

    # ---------------------------------------------------------------- 4 -------
    with ctx.rule("C30.4", "R1/R4", "a BucketWriter of an in-progress upload is handed out only after "
                  "validate_upload_secret; write/abort routes require Secrets.UPLOAD and use only that writer",
                  expected=8) as r:
        uip = idx.cls(UIP)
        gw = idx.func(UIP + ".get_write_bucket")
        gp = first_positional_params(gw)
        gn = FlowNorm(gw)
        gcfg = gw.cfg()

        vparams = first_positional_params(idx.func(UIP + ".validate_upload_secret"))

        def validated(n):
            for c in calls_at(n, "validate_upload_secret"):
                got = [arg(c, i, vparams[i]) for i in range(3)]
                if call_name(c) == "self.validate_upload_secret" \
                        and [a.id if isinstance(a, ast.Name) else None for a in got] == gp[:3]:
                    return True
            return False
        rets = gcfg.find(is_return)
        if not rets:
            raise AnchorVanished("get_write_bucket has no return")
        want_ret = norm_src("self._uploads[%s].shares[%s]" % (gp[0], gp[1]))
        for n in rets:
            r.site(gw, n.ast, "writer returned")
            r.require(gn.norm(n, n.ast.value) == want_ret, gw, gw.loc(n.ast),
                      "get_write_bucket returns %s, not the writer of the validated (storage index, share)" % src(gw, n.ast.value))
        for (t, w) in find_path_avoiding(gcfg, is_return, gate_node=validated, kill=stores_any(gp[:3])):
            r.violation(gw, gw.loc(t.ast), "the in-progress BucketWriter is returned without validate_upload_secret("
                        "%s) (path: %s)" % (", ".join(gp[:3]), w.brief()), w)
        # validate_upload_secret
        vu = idx.func(UIP + ".validate_upload_secret")
        vp = first_positional_params(vu)
        vn = FlowNorm(vu)
        vcfg = vu.cfg()
        r.site(vu, None, "validate_upload_secret exits")
        ups = norm_src("self._uploads[%s].upload_secrets" % vp[0])

        def passes(m, lab):
            f = vn.edge_fact(m, lab)
            if not f:
                return False
            if f[0] == "not in" and f[1] == vp[0] and f[2] == "self._uploads":
                return True
            if f[0] == "not in" and f[1] == vp[1] and f[2] == ups:
                return True
            e, _pol = underlying(vn, m) if m.kind == "test" else (None, True)
            if f[0] == "truth" and isinstance(e, ast.Call) and call_tail(e) == "timing_safe_compare" and len(e.args) == 2:
                forms = {vn.norm(m, a) for a in e.args}
                return forms == {"%s[%s]" % (ups, vp[1]), vp[2]}
            return False
        for (t, w) in find_path_avoiding(vcfg, lambda n: n.kind == "exit", gate_edge=passes, kill=stores_any(vp[:3])):
            r.violation(vu, vu.loc(), "validate_upload_secret can return normally although an upload secret is "
                        "stored and was not compared timing-safely with the given one (path: %s)" % w.brief(), w)
        # the registering methods of UploadsInProgress, found by role: a method that stores into the writer / secret
        # tables, or forwards to one that does.  reg[name] = (method, parameters filed as the upload secret).
        reg = {}
        undecided = []   # raised at the end of this rule: a violation found meanwhile wins over "not decided"
        bulk_secrets = set()   # methods filling .upload_secrets with a whole mapping: pairing with .shares not decided
        for m in uip.methods.values():
            mn_ = FlowNorm(m)
            mps = first_positional_params(m)
            n_store, secs = 0, set()
            for n in m.cfg().nodes:
                for c in node_calls(n, into_lambda=True):
                    if isinstance(c.func, ast.Attribute) and isinstance(c.func.value, ast.Attribute) \
                            and c.func.value.attr in ("shares", "upload_secrets") \
                            and c.func.attr in ("update", "setdefault", "__setitem__", "__ior__"):
                        undecided.append("%s fills .%s through %s(): which share is filed under which secret is "
                                         "not decided" % (short(m), c.func.value.attr, c.func.attr))
                        if c.func.value.attr == "upload_secrets" and c.func.attr in ("update", "__ior__"):
                            bulk_secrets.add(m.name)
                if n.kind != "stmt" or not isinstance(n.ast, (ast.Assign, ast.AnnAssign, ast.AugAssign)):
                    continue
                tgts = n.ast.targets if isinstance(n.ast, ast.Assign) else [n.ast.target]
                for t in tgts:
                    for sub in ast.walk(t):
                        if isinstance(sub, ast.Subscript) and isinstance(sub.ctx, ast.Store) \
                                and isinstance(sub.value, ast.Attribute) and sub.value.attr in ("shares", "upload_secrets"):
                            n_store += 1
                            if sub.value.attr == "upload_secrets":
                                v = n.ast.value if isinstance(n.ast, (ast.Assign, ast.AnnAssign)) and sub is t else None
                                f_ = mn_.norm(n, v) if v is not None else None
                                secs.add(f_ if f_ in mps else None)
            if n_store:
                reg[m.name] = (m, secs)
        changed = True
        while changed:
            changed = False
            for m in uip.methods.values():
                if m.name in reg:
                    continue
                mn_ = FlowNorm(m)
                mps = first_positional_params(m)
                secs, hit = set(), False
                for n in m.cfg().nodes:
                    for c in node_calls(n, into_lambda=True):
                        if isinstance(c.func, ast.Attribute) and c.func.attr in reg \
                                and attr_path(c.func.value) == "self":
                            hit = True
                            callee, csecs = reg[c.func.attr]
                            for p_ in csecs:
                                a_ = bound_arg(c, callee, p_) if p_ is not None else None
                                f_ = mn_.norm(n, a_) if a_ is not None else None
                                secs.add(f_ if f_ in mps else None)
                if hit:
                    reg[m.name] = (m, secs)
                    changed = True
        if not reg:
            raise AnchorVanished("no method of UploadsInProgress stores into the writer / secret tables")
        for (m, secs) in reg.values():
            r.site(m, None, "registering method")
            if None in secs:
                undecided.append("%s files a share under a value that is not one of its parameters: the upload "
                                 "secret of the registration is not decided" % short(m))
            # a registering method hands nothing out (the writer leaves only through get_write_bucket)
            for n in m.cfg().find(is_return):
                v = n.ast.value
                r.require(v is None or isinstance(v, ast.Constant), m, m.loc(n.ast),
                          "%s registers writers and returns %s: a BucketWriter can leave the table without "
                          "validate_upload_secret" % (short(m), src(m, v)))
        # pairs: shares / upload_secrets are added and removed together
        for m in uip.methods.values():
            mcfg = m.cfg()
            mn = FlowNorm(m)

            def ev(n, kind, attr):
                """key normal forms added/removed at node n for container attribute `attr`."""
                out = []
                if kind == "add" and n.kind == "stmt" and isinstance(n.ast, ast.Assign):
                    for t in n.ast.targets:
                        if isinstance(t, ast.Subscript) and isinstance(t.value, ast.Attribute) and t.value.attr == attr:
                            out.append((mn.norm(n, t.value.value), mn.norm(n, t.slice), n.ast.value))
                if kind == "del":
                    for c in node_calls(n):
                        if call_tail(c) in ("pop", "__delitem__") and isinstance(c.func.value, ast.Attribute) \
                                and c.func.value.attr == attr and c.args:
                            out.append((mn.norm(n, c.func.value.value), mn.norm(n, c.args[0]), None))
                    if n.kind == "stmt" and isinstance(n.ast, ast.Delete):
                        for t in n.ast.targets:
                            if isinstance(t, ast.Subscript) and isinstance(t.value, ast.Attribute) and t.value.attr == attr:
                                out.append((mn.norm(n, t.value.value), mn.norm(n, t.slice), None))
                return out
            adds = [(n, e) for n in mcfg.nodes for e in ev(n, "add", "shares")]
            for (n, (recv, key, _v)) in adds:
                r.site(m, n.ast, "writer registered")
                stored_writer = _v.id if isinstance(_v, ast.Name) else None

                def sec_added(x, _recv=recv, _key=key, _w=stored_writer):
                    return any(rc == _recv and k == _key and isinstance(v, ast.Name) and v.id in first_positional_params(m)
                               and v.id != _w and v.id != _key for (rc, k, v) in ev(x, "add", "upload_secrets"))
                bad = find_path_from_to_avoiding(mcfg, lambda x, _n=n: x is _n, sec_added)
                bad2 = find_path_avoiding(mcfg, lambda x, _n=n: x is _n, gate_node=sec_added)
                if bad and bad2 and m.name not in bulk_secrets:
                    r.violation(m, m.loc(n.ast), "%s registers a BucketWriter without storing its upload secret under "
                                "the same share number: validate_upload_secret then accepts any secret" % short(m), bad[0][1])
            dels = [(n, e) for n in mcfg.nodes for e in ev(n, "del", "upload_secrets")]
            for (n, (recv, key, _v)) in dels:
                r.site(m, n.ast, "secret forgotten")

                def share_del(x, _recv=recv, _key=key):
                    return any(rc == _recv and k == _key for (rc, k, _v2) in ev(x, "del", "shares"))
                bad = find_path_from_to_avoiding(mcfg, lambda x, _n=n: x is _n, share_del)
                bad2 = find_path_avoiding(mcfg, lambda x, _n=n: x is _n, gate_node=share_del)
                if bad and bad2:
                    r.violation(m, m.loc(n.ast), "%s forgets the upload secret of a share whose BucketWriter stays "
                                "registered: later writes need no secret" % short(m), bad[0][1])
            # clearing / rebinding the secrets table
            for n in mcfg.nodes:
                for c in node_calls(n):
                    if call_tail(c) in ("clear", "popitem") and isinstance(c.func.value, ast.Attribute) \
                            and c.func.value.attr == "upload_secrets":
                        r.violation(m, m.loc(c), "%s clears upload secrets" % short(m))
        # who may read .shares / .upload_secrets / UploadsInProgress._uploads in this module
        n_reads = 0
        for f in idx.funcs.values():
            if f.module is not mod:
                continue
            for x in func_own_nodes(f, into_lambda=True):
                if isinstance(x, ast.Attribute) and x.attr in ("shares", "upload_secrets", "_bucketwriters"):
                    n_reads += 1
                    r.require(f.cls is uip, f, f.loc(x), "%s reaches into the upload table (.%s) without the "
                              "upload-secret check" % (short(f), x.attr))
                if isinstance(x, ast.Attribute) and x.attr == "_uploads" and f.cls is hs:
                    p = None
                    for y in func_own_nodes(f, into_lambda=True):
                        if isinstance(y, ast.Attribute) and y.value is x:
                            p = y
                    ok = (p is not None and (p.attr in ("get_write_bucket", "remove_write_bucket",
                                                        "validate_upload_secret") or p.attr in reg)) or \
                        (isinstance(x.ctx, ast.Store) and f.name == "__init__")
                    r.require(ok, f, f.loc(x), "%s uses self._uploads other than through add/get/remove_write_bucket: %s" % (
                        short(f), src(f, p if p is not None else x)))
        if n_reads < 4:
            raise AnchorVanished("upload table attributes not found")
        r.site(uip.methods["get_write_bucket"], None, "who-may-read upload tables: %d reads" % n_reads)
        # the routes touching an in-progress upload
        rms = {m.name: (m, d, val) for (m, d, val) in route_methods(idx, folder)}
        for name, effects in (("write_share_data", ("write", "close")), ("abort_share_upload", ("abort",))):
            if name not in rms:
                raise AnchorVanished("route %s" % name)
            m, d, val = rms[name]
            r.site(m, d, "upload route")
            r.require(val is not None and member_value["UPLOAD"] in val, m, m.loc(d),
                      "%s does not require Secrets.UPLOAD" % name)
            sp = secrets_param(m)
            hp = first_positional_params(m)
            mn = FlowNorm(m)
            mcfg = m.cfg()
            want = norm_src("self._uploads.get_write_bucket(%s, %s, %s[Secrets.UPLOAD])" % (hp[2], hp[3], sp))
            found = 0
            for n in mcfg.nodes:
                for c in node_calls(n):
                    if call_tail(c) in effects and isinstance(c.func, ast.Attribute) and isinstance(c.func.value, ast.Name) \
                            and c.func.value.id not in (hp[0], "self"):
                        # writer-changing call: receiver must be the validated writer
                        rf = mn.norm(n, c.func.value)
                        found += 1
                        r.require(rf == want, m, m.loc(c), "%s.%s() in %s acts on %s, not on the writer from "
                                  "get_write_bucket(%s, %s, %s[Secrets.UPLOAD])" % (
                                      c.func.value.id, call_tail(c), name, rf, hp[2], hp[3], sp))
            if found < len(effects):
                raise AnchorVanished("%s no longer calls %s on the writer" % (name, "/".join(effects)))
        # allocate_buckets registers new writers under the request's upload secret
        if "allocate_buckets" not in rms:
            raise AnchorVanished("route allocate_buckets")
        m, d, val = rms["allocate_buckets"]
        by_qual = {mm.qual: (mm, dd, vv) for (mm, dd, vv) in rms.values()}
        n_alloc = 0
        for f in idx.funcs.values():
            if f.module is not mod or f.cls is uip:
                continue
            if not any(isinstance(c.func, ast.Attribute) and c.func.attr in reg
                       for c in calls_in_func(f, into_lambda=True)):
                continue
            fnm = FlowNorm(f)
            for n in f.cfg().nodes:
                for c in node_calls(n, into_lambda=True):
                    if not (isinstance(c.func, ast.Attribute) and c.func.attr in reg):
                        continue
                    if call_name(c) != "self._uploads." + c.func.attr:
                        continue   # another object's method of the same name; self._uploads itself is closed above
                    if f.qual not in by_qual:
                        undecided.append("%s registers BucketWriters outside a route handler: the upload secret "
                                         "they are filed under is not decided" % short(f))
                        continue
                    fm, fd, fval = by_qual[f.qual]
                    fsp = secrets_param(fm)
                    callee, csecs = reg[c.func.attr]
                    r.site(f, c, "registration of new writers")
                    if f.qual == m.qual:
                        n_alloc += 1
                    r.require(fval is not None and member_value["UPLOAD"] in fval, f, f.loc(fd),
                              "%s registers writers but does not require Secrets.UPLOAD" % f.name)
                    for p_ in sorted(x for x in csecs if x is not None):
                        a2 = bound_arg(c, callee, p_)
                        r.require(a2 is not None and fnm.norm(n, a2) == norm_src("%s[Secrets.UPLOAD]" % fsp), f, f.loc(c),
                                  "new writers are registered under %s, not under the request's upload secret" % src(f, a2))
        if not n_alloc:
            raise AnchorVanished("allocate_buckets no longer registers its writers")
        r.require(val is not None and member_value["UPLOAD"] in val, m, m.loc(d),
                  "allocate_buckets does not require Secrets.UPLOAD")
        if undecided:
            raise AnalysisError(undecided[0])

    # ---------------------------------------------------------------- 5 -------
    BACKEND = {
        # backend call -> (required members, {argument position/keyword: member})
        "allocate_buckets": ({"LEASE_RENEW", "LEASE_CANCEL", "UPLOAD"},
                             {(1, "renew_secret"): "LEASE_RENEW", (2, "cancel_secret"): "LEASE_CANCEL"}),
        "add_lease": ({"LEASE_RENEW", "LEASE_CANCEL"},
                      {(1, "renew_secret"): "LEASE_RENEW", (2, "cancel_secret"): "LEASE_CANCEL"}),
        "slot_testv_and_readv_and_writev": ({"WRITE_ENABLER", "LEASE_RENEW", "LEASE_CANCEL"}, {}),
    }
    with ctx.rule("C30.5", "R5", "handlers read only declared secrets; state-changing backend calls get the declared "
                  "lease secrets / write enabler in the right positions; BadWriteEnablerError -> 401", expected=15) as r:
        seen_backend = set()
        for (m, d, val) in route_methods(idx, folder):
            r.site(m, d, "declared %s" % (sorted(val) if val is not None else "?"))
            if val is None:
                continue
            declared = {value_member[v] for v in val if v in value_member}
            sp = secrets_param(m)
            for (k, node) in secret_keys_read(m, sp):
                if k is None:
                    r.violation(m, m.loc(node), "%s indexes its secrets with %s" % (m.name, src(m, node)))
                else:
                    r.require(k in declared, m, m.loc(node), "%s reads Secrets.%s which the route does not require: "
                              "every request fails or an unchecked secret is used" % (m.name, k))
            mn = FlowNorm(m)
            for n in m.cfg().nodes:
                for c in node_calls(n, into_lambda=True):
                    t = call_tail(c)
                    if t in BACKEND and call_name(c) == "self._storage_server." + t:
                        need, argmap = BACKEND[t]
                        seen_backend.add(t)
                        r.site(m, c, "backend " + t)
                        r.require(need <= declared, m, m.loc(c), "%s calls %s but the route requires only %s" % (
                            m.name, t, sorted(declared)))
                        for (pos, kw), member in argmap.items():
                            a = arg(c, pos, kw) if kwarg(c, kw) is None else kwarg(c, kw)
                            r.require(a is not None and mn.norm(n, a) == norm_src("%s[Secrets.%s]" % (sp, member)),
                                      m, m.loc(c), "%s passes %s as %s of %s (expected %s[Secrets.%s])" % (
                                          m.name, src(m, a), kw, t, sp, member))
                        if t == "slot_testv_and_readv_and_writev":
                            a = arg(c, 1, "secrets")
                            res = mn.resolve(n, a) if a is not None else None
                            want = [norm_src("%s[Secrets.%s]" % (sp, k)) for k in ("WRITE_ENABLER", "LEASE_RENEW", "LEASE_CANCEL")]
                            got = [mn.norm(n, x) for x in res.elts] if isinstance(res, (ast.Tuple, ast.List)) else None
                            r.require(got == want, m, m.loc(c), "the mutable write passes secrets %s (expected write "
                                      "enabler, renew, cancel from the request)" % (src(m, res) if res is not None else "?"))
                            # BadWriteEnablerError handler -> 401
                            mcfg = m.cfg()
                            hs_ = [h for (h, lab) in mcfg.successors(n) if lab == "exc" and h.kind == "except"
                                   and h.ast.type is not None and "BadWriteEnablerError" in {
                                       x.id if isinstance(x, ast.Name) else x.attr for x in ast.walk(h.ast.type)
                                       if isinstance(x, (ast.Name, ast.Attribute))}]
                            if r.require(bool(hs_), m, m.loc(c), "a wrong write enabler is not translated to a 401 response"):
                                for h in hs_:
                                    for (nx, _l) in mcfg.successors(h):
                                        e = nx.ast.exc if is_raise(nx) else None
                                        code = http_code(e.args[0]) if isinstance(e, ast.Call) and call_tail(e) == "_HTTPError" and e.args else None
                                        r.require(code == 401, m, m.loc(nx.ast), "a wrong write enabler is answered with "
                                                  "%s, not 401" % src(m, nx.ast))
        for t in BACKEND:
            if t not in seen_backend:
                raise AnchorVanished("no route calls self._storage_server.%s" % t)
        # state-changing backend calls only from route handlers (incl. their nested functions)
        routed = [m.qual for (m, _d, _v) in route_methods(idx, folder)]
        for f in idx.funcs.values():
            if f.module is not mod:
                continue
            for c in calls_in_func(f, into_lambda=True):
                if call_tail(c) in BACKEND and "_storage_server" in call_name(c):
                    ok = any(f.qual == q or f.qual.startswith(q + ".") for q in routed)
                    r.require(ok, f, f.loc(c), "%s changes storage state outside an authorized route" % short(f))


# -- write-enabler guard of the mutable write route (shared with C24) ------------------------------
# The HTTP route only forwards the WRITE_ENABLER secret (C30.5); what makes it an authorization is the
# storage server checking it against EVERY existing share of the slot before anything is written.
_run_http_only = run


def run(ctx: Context):   # noqa: F811
    _run_http_only(ctx)
    ctx.include("C24", ["C24.4", "C24.5"], "C30.7")
