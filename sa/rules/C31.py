"""C31 HTTP and direct storage access agree.

Decided (R5 table agreement): the route table extracted from http_server.py and
the request table extracted from http_client.py describe the same protocol;
completion signalling, range clipping and the read-test-write marshalling
compose to the shapes the direct (Foolscap / in-process) path uses
(DESIGN.md section 5, C31)."""
from sa.h import *

EXPLANATION = (
    "Decided (table agreement between independently extracted sides): (1) the set of (HTTP method, path "
    "template) registered by HTTPServer equals the set requested by http_client, and for every pair the set of "
    "secrets the client sends equals the set the route requires (the server demands equality); (2) per pair the "
    "CBOR map keys of the request body (client message literal / attrs fields vs server CDDL schema vs keys the "
    "handler reads) and of the response body (server dict vs client CDDL schema vs keys the client reads) are "
    "equal; (3) the 2xx status codes a handler can produce equal the codes the client treats as success; "
    "write_share_data answers 201 exactly when BucketWriter.write reported completion (and closes the writer), "
    "the client maps 201->finished, 200->unfinished, and the adapter's close() waits for that flag; (4) "
    "read_range clips the end with min(end, share_length), answers 204 when nothing is left, sends "
    "Content-Range(offset, end) and produces end-offset bytes starting at offset; both read handlers pass the "
    "share length and a reader for the same (storage index, share); the client sends Range(offset, offset+length), "
    "maps 204 to b'' and takes stop-start bytes; content types agree; (5) the Authorization / "
    "X-Tahoe-Authorization header names and the '<secret name> <base64>' format are the same on both sides and "
    "request() forwards its secrets unchanged; (6) the _HTTPStorageServer adapter routes renew/cancel/write-enabler "
    "secrets to the matching request parameters and marshals test/write/read vectors so that, composed with "
    "the server's unmarshalling, they equal the tuples the Foolscap adapter sends; 404 on add_lease and "
    "advise_corrupt_share and 401 on a mutable write are translated as on the direct path; (7) write_share_data "
    "writes exactly the bytes [start, stop) of the Content-Range: the offset starts at the range start (0 only "
    "when absent), the block loop runs while `remaining > 0` and is left only when it is not, offset and "
    "remaining both advance by len(data) between blocks, the data comes from request.content, and every return "
    "without an error status was decided by `finished` (409 / 416 paths cannot pass as 'chunk stored'); (8) "
    "client status handling: every normal exit of a request function has seen a 2xx status (errors are raised, "
    "not swallowed), 201/200 lead to finished=True/False, a 206 result comes from the response body read from "
    "position 0, decoded fields go to the same-named result fields, _request serialises the message into the "
    "body it hands to treq; (9) server plumbing: both route wrappers return the handler's result and let "
    "_HTTPError (204 empty read, 401, 404) through, read_range sends ContentRange as the content-range header, "
    "registers the range producer in pull mode and returns the Deferred it fires; (10) add_or_renew_lease adds "
    "the lease with the renew/cancel secrets before answering and raises 404 only when the index has no shares, "
    "abort_share_upload aborts the writer it looked up, BadWriteEnablerError -> 401 and unknown share -> 404 (the "
    "statuses the adapter translates) are raised in exactly those cases; (11) _ignore_404 swallows 404, the "
    "adapter's add_lease swallows only 404, slot_testv_and_readv_and_writev returns (success, reads), "
    "allocate_buckets returns (already_have, writers of allocated), the Foolscap adapter passes write vectors / "
    "new_length through unchanged; (12) the share length the read handlers hand to read_range is the bound the "
    "direct read truncates with: ShareFile.get_length() and the end of data derived from read_share_data's "
    "min(length.., bound) are equal polynomials once the attributes are replaced by what ShareFile.__init__ stores "
    "on the same path, BucketReader.read/get_length delegate to one share file with (offset, length) unchanged, "
    "MutableShareFile.get_length and the truncation in _read_share_data read the data length through the same "
    "method, get_mutable_share_length opens the file of (storage_index, share_number); (13) UploadsInProgress keeps "
    "an upload reachable until its own BucketWriter is removed: every deletion from _uploads is dominated by an "
    "edge on which that entry's share map is empty (no wholesale clear / rebinding), remove_write_bucket deletes "
    "only the (storage index, share number) recorded in _bucketwriters for the closing writer, the registering "
    "method(s) - found by role: whichever method of UploadsInProgress stores into <entry>.shares[..] / "
    "_bucketwriters[..], per share (parameters) or batched (items of a mapping parameter), or hands its writers to "
    "such a method - store every writer they are given under _uploads[si].shares[n] and record the reverse mapping "
    "for the same (si, n) on every path / every iteration, no method stores a fresh StorageIndexUploads into "
    "_uploads[k] (assignment, __setitem__, update({k: ..})) unless `k not in _uploads` holds, get_write_bucket "
    "returns _uploads[si].shares[n] for its own arguments, allocate_buckets registers every (share number, writer) "
    "the backend allocated (loop over the returned dict for a per-share registrar, the dict itself for a batched "
    "one) under its storage index with the upload secret, on every path to the answer; (14) a table operation -> "
    "(route, StorageServer entry point) is derived, naming no operation: a parameter of an _HTTPStorageServer method is a "
    "secret when it (or its components p[0], p[1], ..) reaches a secret keyword of <client>.request, whose (method, path) "
    "gives the route; the same-named _StorageServer method -> callRemote('X') -> FoolscapStorageServer.remote_X -> "
    "self._server.Y(..) gives the entry point Y and the parameter of Y that receives each secret on the direct path; "
    "every path of the route handler to a normal return that set no error status passes (leaving by a non-exceptional "
    "edge) a call <backend attribute>.Y(..) whose secret parameters are authorization[Secrets.<member>] (a tuple of them "
    "for a tuple parameter) - so no path (fast path, fallback after an exception) answers from a backend call that never "
    "sees the secrets, e.g. slot_readv instead of slot_testv_and_readv_and_writev; (15) every normal exit of an "
    "_HTTPStorageServer method with secret parameters has attempted, for each secret, the client call that carries it; "
    "(16) every piece of the PATCH body reaches <bucket>.write and the completion flag is the result of the LAST write or the "
    "eagerly evaluated or of all of them: the flag's definitions are classified (direct write call, <list of results>[-1], "
    "any([..]) / max / sum / `True in [..]`, `write(..) or flag`, `flag |= write(..)` are accepted; any() / all() / next() / "
    "`in` over a generator whose elements perform the writes, all() / min / [0] of the results, a write in the right operand "
    "of and/or or in a conditional-expression branch are violations naming the call), a for loop over the chunk iterator "
    "reaches the completion test only through its exhausted edge (no break on the write result). (3) and (7) are decided both "
    "for the in-line `while remaining > 0` loop and for the iterator shape (a generator function of the package, followed "
    "through the call graph with its parameters bound to the call-site arguments, yields (offset, data) pairs; a list / set / "
    "generator comprehension or a for loop hands each pair to <bucket>.write): the generator's offset starts at the range "
    "start handed in, every yield is guarded by `offset < stop` (or a remaining counter), the generator ends only once "
    "`offset >= stop`, offset advances by len(data) between yields, data is read from request.content, the consumer passes "
    "(offset, data) of the same pair in that order. "
    "Undecided: a write loop moved into a helper that itself calls <bucket>.write, chunk iterators that are not a call "
    "of one package generator (zip / iter(callable, sentinel) / itertools), comprehensions with a filter, generators using "
    "`yield from` (all ANALYSIS-ERROR, not guessed); equivalence of results over operation histories, CBOR/base64/werkzeug value-level behaviour, "
    "timeouts and connection handling; the malformed-request guards of the server (Range / Content-Range / "
    "Authorization / secret-length checks) and the sanity checks of the client (content type, Content-Range "
    "present, body length == stop - start): inverting them makes every request fail at once, weakening them is "
    "invisible with a well-formed peer; which size request.content.read is asked for (min(remaining, 64KiB)); "
    "_ReadRangeProducer's internal accounting; the `required` ranges reported after a chunk (not used by the "
    "adapter); the upload-secret check of validate_upload_secret; whether the close handler that calls "
    "remove_write_bucket is registered; registering methods that fill the tables in bulk (dict.update / constructor "
    "arguments) or enumerate writers other than by `for n, w in <param>.items()` (ANALYSIS-ERROR, not guessed); the actual on-disk lease count / data length values (C31.12 compares "
    "the formulas, not file contents); exact error statuses other than "
    "204/401/404/409/416; the upload secret (no direct counterpart: the Foolscap path has none, so skipping its check is "
    "invisible to a differential comparison); for C31.14 a handler that reaches the entry point only through a helper "
    "method (ANALYSIS-ERROR, not guessed), whether Y itself checks the secrets (C20/C21 territory), and secret-less routes "
    "(reads, listings, corruption reports), whose backend calls legitimately differ from the direct path's.")
TECHNIQUE = ("static analysis: extraction of route/request/schema tables from both sides and comparison; CFG edge facts; "
             "must-precede / must-follow path queries on the handlers, the client functions and the adapter; "
             "route -> backend-operation table composed from both adapters, remote_* and the routes")

SRV = "allmydata.storage.http_server"
CLI = "allmydata.storage.http_client"
HS = "storage.http_server:HTTPServer"
ADAPTER = "storage_client:_HTTPStorageServer"

HTTP_CODES = {"OK": 200, "CREATED": 201, "ACCEPTED": 202, "NO_CONTENT": 204, "PARTIAL_CONTENT": 206,
              "BAD_REQUEST": 400, "UNAUTHORIZED": 401, "NOT_FOUND": 404, "NOT_ALLOWED": 405, "NOT_ACCEPTABLE": 406,
              "CONFLICT": 409, "REQUESTED_RANGE_NOT_SATISFIABLE": 416, "UNSUPPORTED_MEDIA_TYPE": 415,
              "REQUEST_ENTITY_TOO_LARGE": 413, "GONE": 410, "INTERNAL_SERVER_ERROR": 500}


def http_code(e):
    if isinstance(e, ast.Constant) and isinstance(e.value, int) and not isinstance(e.value, bool):
        return e.value
    if isinstance(e, ast.Attribute) and isinstance(e.value, ast.Name) and e.value.id == "http":
        return HTTP_CODES.get(e.attr)
    return None


def code_of_form(s):
    """normal-form string 'http.X' / '201' -> int."""
    if s is None:
        return None
    if s.startswith("http."):
        return HTTP_CODES.get(s[5:])
    return int(s) if s.isdigit() else None


# ------------------------------------------------------------------ CDDL keys
def cddl_keys(schema: str):
    """Literal map keys of a CDDL text: {('t'|'b', name)} (text / byte-string keys)."""
    rules = set(re.findall(r"^\s*([A-Za-z_][\w-]*)\s*=(?!>)", schema, re.M))
    out = set()
    for m in re.finditer(r"""(?:"([^"]+)"|'([^']+)'|([A-Za-z_][\w-]*))\s*(?::|=>)""", schema):
        t, b, bare = m.groups()
        if t is not None:
            out.add(("t", t))
        elif b is not None:
            out.add(("b", b))
        elif bare not in rules:
            out.add(("t", bare))
    return out


def schema_table(m):
    """_SCHEMAS = {"name": Schema("..."), ..} -> {name: text}."""
    vals = m.assigns.get("_SCHEMAS")
    if not vals or not isinstance(vals[-1], ast.Dict):
        raise AnchorVanished("%s._SCHEMAS is not a dict literal" % m.name)
    out = {}
    for k, v in zip(vals[-1].keys, vals[-1].values):
        if isinstance(k, ast.Constant) and isinstance(v, ast.Call) and v.args and isinstance(v.args[0], ast.Constant) \
                and isinstance(v.args[0].value, str):
            out[k.value] = v.args[0].value
        else:
            raise AnalysisError("%s._SCHEMAS entry %s is not Schema(<literal>)" % (m.name, ast.unparse(k) if k else "?"))
    return out


def schema_ref(e):
    """_SCHEMAS["x"] -> "x"."""
    if isinstance(e, ast.Subscript) and isinstance(e.value, ast.Name) and e.value.id == "_SCHEMAS" \
            and isinstance(e.slice, ast.Constant):
        return e.slice.value
    return None


def key_of(c):
    if isinstance(c, ast.Constant) and isinstance(c.value, str):
        return ("t", c.value)
    if isinstance(c, ast.Constant) and isinstance(c.value, bytes):
        return ("b", c.value.decode("latin-1"))
    return None


def const_subscripts(fn, skip_bases=("_SCHEMAS",)):
    """Constant str/bytes subscript *reads* inside fn (incl. comprehensions, nested defs)."""
    out = set()
    for n in ast.walk(fn.node):
        if isinstance(n, ast.Subscript) and isinstance(n.ctx, ast.Load) and key_of(n.slice) is not None:
            if isinstance(n.value, ast.Name) and n.value.id in skip_bases:
                continue
            out.add(key_of(n.slice))
    return out


class Keys:
    """Deep literal keys of the value built by an expression inside a function."""

    def __init__(self, idx, fn):
        self.idx = idx
        self.fn = fn
        self.defs = def_exprs(fn)
        self.seen = set()

    def const(self, e):
        if isinstance(e, ast.Name):
            ds = self.defs.get(e.id) or []
            if len(ds) == 1:
                return key_of(ds[0])
            return None
        return key_of(e)

    def of(self, e, depth=6):
        out = set()
        if e is None or depth < 0 or id(e) in self.seen:
            return out
        self.seen.add(id(e))
        if isinstance(e, ast.Dict):
            for k, v in zip(e.keys, e.values):
                kk = self.const(k) if k is not None else None
                if kk is not None:
                    out.add(kk)
                out |= self.of(v, depth - 1)
        elif isinstance(e, (ast.List, ast.Tuple, ast.Set)):
            for x in e.elts:
                out |= self.of(x, depth - 1)
        elif isinstance(e, (ast.ListComp, ast.SetComp, ast.GeneratorExp)):
            out |= self.of(e.elt, depth - 1)
        elif isinstance(e, ast.DictComp):
            kk = self.const(e.key)
            if kk is not None:
                out.add(kk)
            out |= self.of(e.value, depth - 1)
        elif isinstance(e, ast.Name):
            for d in self.defs.get(e.id, []):
                out |= self.of(d, depth - 1)
        elif isinstance(e, ast.Await):
            out |= self.of(e.value, depth - 1)
        elif isinstance(e, ast.Call):
            cg = get_callgraph(self.idx)
            tgt = cg.resolve(self.fn, e) if isinstance(e.func, ast.Attribute) and attr_path(e.func.value) == "self" else []
            if tgt:
                for t in tgt:
                    sub = Keys(self.idx, t)
                    for n in t.cfg().find(is_return):
                        out |= sub.of(n.ast.value, depth - 1)
            elif call_tail(e) in ("set", "list", "dict", "cast", "sorted", "frozenset", "tuple"):
                for a in e.args:
                    out |= self.of(a, depth - 1)
        return out


# ------------------------------------------------------------------ server side
def canon_server_path(url: str) -> str:
    def conv(m):
        name = m.group(1).split("(")[0]
        return {"storage_index": "{si}", "int": "{n}"}.get(name, "{%s}" % name)
    return re.sub(r"<([^:>]+):[^>]+>", conv, url)


class ServerRoute:
    def __init__(self, fn, dec, methods, url, secrets):
        self.fn, self.dec, self.methods, self.url, self.secrets = fn, dec, methods, url, secrets
        self.path = canon_server_path(url)


def server_routes(idx):
    folder = get_folder(idx)
    hs = idx.cls(HS)
    out = []
    for m in hs.methods.values():
        for d in m.decorators():
            if isinstance(d, ast.Call) and call_tail(d) == "_authorized_route":
                try:
                    sec = folder.fold(arg(d, 1, "required_secrets"), hs.module, hs)
                    url = folder.fold(arg(d, 2, "url"), hs.module, hs)
                    methods = folder.fold(kwarg(d, "methods"), hs.module, hs) if kwarg(d, "methods") is not None else ["GET"]
                except NotConstant as e:
                    raise AnalysisError("route %s is not constant: %s" % (m.qual, e))
                if not isinstance(url, str) or not isinstance(sec, (set, frozenset)):
                    raise AnalysisError("route %s: unexpected url/secrets" % m.qual)
                out.append(ServerRoute(m, d, sorted(methods), url, set(sec)))
    if not out:
        raise AnchorVanished("no _authorized_route registrations in HTTPServer")
    return out


# ------------------------------------------------------------------ client side
class ClientRequest:
    def __init__(self, fn, call, node, method, paths, secrets, fnorm):
        self.fn, self.call, self.node, self.method, self.paths, self.secrets, self.fnorm = \
            fn, call, node, method, paths, secrets, fnorm


def client_funcs(idx):
    cm = idx.module(CLI)
    return [f for f in idx.funcs.values() if f.module is cm and not isinstance(f.node, ast.Lambda)]


def template_of(idx, fn, fnorm, node, e, type_values):
    """Abstract value(s) of a URL expression: list of canonical path strings."""
    e = fnorm.resolve(node, e)
    if isinstance(e, ast.Call) and call_tail(e) == "relative_url" and e.args:
        return template_of(idx, fn, fnorm, node, e.args[0], type_values)
    if isinstance(e, ast.Constant) and isinstance(e.value, str):
        return [e.value]
    if isinstance(e, ast.BinOp) and isinstance(e.op, ast.Add):
        ls = template_of(idx, fn, fnorm, node, e.left, type_values)
        rs = template_of(idx, fn, fnorm, node, e.right, type_values)
        return [a + b for a in ls for b in rs]
    if isinstance(e, ast.Call) and call_tail(e) == "_encode_si" and len(e.args) == 1:
        return ["{si}"]
    if isinstance(e, ast.Call) and isinstance(e.func, ast.Attribute) and e.func.attr == "format" \
            and isinstance(e.func.value, ast.Constant) and isinstance(e.func.value.value, str) and not e.keywords:
        tpl = e.func.value.value
        parts = tpl.split("{}")
        if len(parts) != len(e.args) + 1:
            raise AnalysisError("%s: format placeholders do not match arguments in %s" % (fn.qual, ast.unparse(e)))
        outs = [parts[0]]
        for a, rest in zip(e.args, parts[1:]):
            vals = template_of(idx, fn, fnorm, node, a, type_values)
            outs = [o + v + rest for o in outs for v in vals]
        return outs
    if isinstance(e, ast.Name):
        if e.id in type_values:
            return sorted(type_values[e.id])
        return ["{n}"]
    if isinstance(e, ast.JoinedStr):
        outs = [""]
        for v in e.values:
            if isinstance(v, ast.Constant):
                outs = [o + v.value for o in outs]
            else:
                vals = template_of(idx, fn, fnorm, node, v.value, type_values)
                outs = [o + x for o in outs for x in vals]
        return outs
    raise AnalysisError("%s: cannot evaluate URL expression %s" % (fn.qual, ast.unparse(e)))


def constant_param_values(idx, fn):
    """For a module-level client function: {param: set of str constants passed by callers inside http_client}."""
    out = {}
    if fn.cls is not None or fn.parent is not None:
        return out
    ps = fn.params
    for g in client_funcs(idx):
        for c in calls_in_func(g, fn.name):
            if not isinstance(c.func, ast.Name):
                continue
            for i, p in enumerate(ps):
                a = arg(c, i, p)
                if isinstance(a, ast.Constant) and isinstance(a.value, str):
                    out.setdefault(p, set()).add(a.value)
    return out


def secret_param_table(idx):
    """StorageClient._request: {parameter name: Secrets member name} from the header loop."""
    rq = idx.func("storage.http_client:StorageClient._request")
    table = {}
    loops = [n for n in func_own_nodes(rq) if isinstance(n, (ast.For, ast.AsyncFor))]
    for lp in loops:
        if isinstance(lp.iter, (ast.List, ast.Tuple)):
            for el in lp.iter.elts:
                if isinstance(el, ast.Tuple) and len(el.elts) == 2 and isinstance(el.elts[1], ast.Name) \
                        and isinstance(el.elts[0], ast.Attribute) and attr_path(el.elts[0]).startswith("Secrets."):
                    table[el.elts[1].id] = el.elts[0].attr
            if table:
                return rq, lp, table
    raise AnchorVanished("secrets-to-header loop not found in StorageClient._request")


def client_requests(idx):
    folder = get_folder(idx)
    sec_enum = idx.cls("storage.http_common:Secrets")
    _rq, _lp, sec_params = secret_param_table(idx)
    out = []
    for fn in client_funcs(idx):
        if fn.cls is not None and fn.cls.name == "StorageClient":
            continue
        cfg = None
        for c in calls_in_func(fn, "request"):
            if not (isinstance(c.func, ast.Attribute) and attr_path(c.func.value) in ("self._client", "client")):
                continue
            cfg = cfg or fn.cfg()
            fnorm = FlowNorm(fn)
            node = [n for n in cfg.nodes if any(x is c for x in node_calls(n))]
            if not node:
                raise AnalysisError("request call not in CFG of %s" % fn.qual)
            node = node[0]
            m = arg(c, 0, "method")
            if not (isinstance(m, ast.Constant) and isinstance(m.value, str)):
                raise AnalysisError("%s: HTTP method is not a literal" % fn.qual)
            tv = constant_param_values(idx, fn)
            paths = template_of(idx, fn, fnorm, node, arg(c, 1, "url"), tv)
            secrets = set()
            for k in c.keywords:
                if k.arg in sec_params:
                    if isinstance(k.value, ast.Constant) and k.value.value is None:
                        continue
                    secrets.add(folder.class_attr(sec_enum, sec_params[k.arg]))
            out.append(ClientRequest(fn, c, node, m.value, paths, secrets, fnorm))
    if not out:
        raise AnchorVanished("no client.request(..) calls in http_client")
    return out


def pairs(idx):
    srv = server_routes(idx)
    cli = client_requests(idx)
    s_tab = {}
    for s in srv:
        for m in s.methods:
            s_tab[(m, s.path)] = s
    c_tab = {}
    for c in cli:
        for p in c.paths:
            c_tab[(c.method, p)] = c
    return srv, cli, s_tab, c_tab


# ------------------------------------------------------------------ status codes
def success_edges(fn, fnorm, resp="response"):
    """Client: {code: [(node,label)]} for edges on which `response.code == http.X` holds."""
    out = {}
    for n in fn.cfg().nodes:
        if n.kind != "test":
            continue
        for lab in (("T", n.ast), ("F", n.ast)):
            f = fnorm.edge_fact(n, lab)
            if f and f[0] == "==":
                for a, b in ((f[1], f[2]), (f[2], f[1])):
                    if b.endswith(".code") and code_of_form(a) is not None:
                        out.setdefault(code_of_form(a), []).append((n, lab))
    return out


def edge_reaches_return(cfg, n, lab):
    """The edge (n, lab) can reach a normal exit without passing an exceptional edge."""
    for (d, l) in cfg.succ[n.id]:
        if C._lbl_eq(l, lab):
            vis, _ = explore(cfg, 0, lambda a, lb, c, s: None if lb == "exc" else 0, start=cfg.nodes[d])
            if any(cfg.nodes[i].kind == "exit" for (i, _s) in vis):
                return True
    return False


def client_success_codes(req):
    """Set of ints, or '2xx' when the function relies on decode_cbor's 2xx check only."""
    fn = req.fn
    se = success_edges(fn, req.fnorm)
    cfg = fn.cfg()
    ok = {code for code, edges in se.items() if any(edge_reaches_return(cfg, n, lab) for (n, lab) in edges)}
    if ok:
        return ok
    if any(200 <= code < 300 for code in se):
        # the function singles out a success status, but that edge cannot reach a normal return:
        # the status is treated as a failure (e.g. `if response.code != http.OK: return decode(..) else: raise`)
        return set()
    if calls_in_func(fn, "decode_cbor"):
        return "2xx"
    raise AnalysisError("%s neither tests response.code nor decodes with decode_cbor" % fn.qual)


def set_codes(fn):
    """(node, code) for request.setResponseCode(http.X) nodes in fn's CFG."""
    out = []
    for n in fn.cfg().nodes:
        for c in calls_at(n, "setResponseCode"):
            if c.args and http_code(c.args[0]) is not None:
                out.append((n, http_code(c.args[0])))
    return out


def raised_codes(fn):
    out = []
    for n in fn.cfg().find(raises("_HTTPError")):
        e = n.ast.exc
        if isinstance(e, ast.Call) and e.args and http_code(e.args[0]) is not None:
            out.append((n, http_code(e.args[0])))
    return out


def server_success_codes(idx, route, range_sent):
    """2xx codes the handler can answer with (200 when a return is reachable with no status set)."""
    fn = route.fn
    cfg = fn.cfg()
    codes = {c for (_n, c) in set_codes(fn) + raised_codes(fn) if 200 <= c < 300}
    implicit = find_path_avoiding(cfg, is_return, gate_node=has_call("setResponseCode"))
    sm = idx.module(SRV)
    for (n, _w) in implicit:
        v = n.ast.value
        helpers = [sm.funcs[c.func.id] for c in (own_nodes(v) if v is not None else [])
                   if isinstance(c, ast.Call) and isinstance(c.func, ast.Name) and c.func.id in sm.funcs]
        helpers = [h for h in helpers if set_codes(h) or raised_codes(h)]
        if helpers:
            for h in helpers:
                codes |= read_range_codes(h, range_sent)
        else:
            codes.add(200)
    return codes


def read_range_codes(rr, range_sent):
    cfg = rr.cfg()
    fnorm = FlowNorm(rr)
    codes = set()
    reqp = rr.params[0]

    def no_range(n, lab):
        f = fnorm.edge_fact(n, lab)
        return bool(f) and f[0] == "is" and {f[1], f[2]} == {"None", "%s.getHeader('range')" % reqp}

    def tr(n, lab, nxt, st):
        if lab == "exc" and not is_raise(n):
            return None
        if range_sent and no_range(n, lab):
            return None
        if any(True for _c in calls_at(n, "setResponseCode")):
            return 1
        return st
    vis, _p = explore(cfg, 0, tr)
    sc = dict((n.id, c) for (n, c) in set_codes(rr))
    rc = dict((n.id, c) for (n, c) in raised_codes(rr))
    for (nid, st) in vis:
        n = cfg.nodes[nid]
        if nid in sc and 200 <= sc[nid] < 300:
            codes.add(sc[nid])
        if nid in rc and 200 <= rc[nid] < 300:
            codes.add(rc[nid])
        if is_return(n) and st == 0 and not calls_at(n, "setResponseCode"):
            codes.add(200)
    return codes


# ------------------------------------------------------------------ attrs classes of the client
def class_fields(ci):
    out = []
    for st in ci.node.body:
        if isinstance(st, ast.AnnAssign) and isinstance(st.target, ast.Name) and not st.target.id.startswith("_"):
            out.append((st.target.id, st.annotation))
    return out


def wire_keys_of_class(idx, ci, seen=None):
    """Keys that attrs.asdict (or the class's own asdict()) produces for ci, recursively -> ({keys}, {field: key})."""
    seen = seen or set()
    if ci.qual in seen:
        return set(), {}
    seen.add(ci.qual)
    fields = class_fields(ci)
    rename = {f: f for (f, _a) in fields}
    own = ci.methods.get("asdict")
    if own is not None:
        for n in func_own_nodes(own):
            if isinstance(n, ast.Assign) and len(n.targets) == 1 and isinstance(n.targets[0], ast.Subscript) \
                    and isinstance(n.targets[0].slice, ast.Constant) and isinstance(n.value, ast.Call) \
                    and call_tail(n.value) == "pop" and n.value.args and isinstance(n.value.args[0], ast.Constant):
                old = n.value.args[0].value
                if old in rename:
                    rename[old] = n.targets[0].slice.value
    keys = {("t", k) for k in rename.values()}
    cm = ci.module
    for (_f, ann) in fields:
        for x in ast.walk(ann):
            if isinstance(x, ast.Name) and x.id in cm.classes and x.id != ci.name:
                sub, _r = wire_keys_of_class(idx, cm.classes[x.id], seen)
                keys |= sub
    return keys, rename


def run(ctx: Context):
    idx = ctx.idx
    folder = get_folder(idx)
    sm, cmod = idx.module(SRV), idx.module(CLI)
    srv, cli, s_tab, c_tab = pairs(idx)
    sec_enum = idx.cls("storage.http_common:Secrets")
    member_value = {k: folder.class_attr(sec_enum, k) for k in sec_enum.attrs}

    # ---------------------------------------------------------------- 1 -------
    with ctx.rule("C31.1", "R5", "route table of http_server == request table of http_client: (method, path template) "
                  "and the set of secrets sent == required", expected=12) as r:
        for key in sorted(set(s_tab) | set(c_tab)):
            s, c = s_tab.get(key), c_tab.get(key)
            if s is not None and c is not None:
                r.site(s.fn, s.dec, "%s %s <-> %s" % (key[0], key[1], short(c.fn)))
                r.require(s.secrets == c.secrets, c.fn, c.fn.loc(c.call),
                          "%s sends secrets %s but route %s %s (%s) requires exactly %s" % (
                              short(c.fn), sorted(c.secrets), key[0], key[1], s.fn.name, sorted(s.secrets)))
            elif s is None:
                r.violation(c.fn, c.fn.loc(c.call), "the client requests %s %s, which no HTTPServer route serves "
                            "(routes: %s)" % (key[0], key[1], ", ".join("%s %s" % k for k in sorted(s_tab))))
            else:
                r.violation(s.fn, s.fn.loc(s.dec), "route %s %s (%s) is requested by no client function; the client "
                            "requests %s" % (key[0], key[1], s.fn.name, ", ".join("%s %s" % k for k in sorted(c_tab))))
        r.count(len(s_tab) + len(c_tab))
        # _authorized_route hands its url / methods through to Klein unchanged
        ar = idx.func("storage.http_server:_authorized_route")
        hr = idx.func("storage.http_server:_authorized_route.decorator.handle_route")
        rd = [d for d in hr.decorators() if isinstance(d, ast.Call) and call_tail(d) == "route"]
        if not rd:
            raise AnchorVanished("klein route decorator of handle_route")
        a0 = arg(rd[0], 0)
        r.require(isinstance(a0, ast.Name) and a0.id == ar.params[2], hr, hr.loc(rd[0]),
                  "the URL registered with Klein is %s, not the url given to _authorized_route" % src(hr, a0))
        kw = ar.node.args.kwarg.arg if ar.node.args.kwarg else None
        r.require(kw is not None and any(k.arg is None and isinstance(k.value, ast.Name) and k.value.id == kw
                                         for k in rd[0].keywords), hr, hr.loc(rd[0]),
                  "the methods=.. keyword of a route is not forwarded to Klein")

    paired = [(s_tab[k], c_tab[k], k) for k in sorted(set(s_tab) & set(c_tab))]
    s_schemas, c_schemas = schema_table(sm), schema_table(cmod)

    # ---------------------------------------------------------------- 2 -------
    with ctx.rule("C31.2", "R5", "CBOR message keys agree: client message == server request schema == keys the handler "
                  "reads; server response dict == client response schema >= keys the client reads", expected=10) as r:
        done = set()
        for (s, c, key) in paired:
            tag = (s.fn.qual, c.fn.qual)
            if tag in done:
                continue
            done.add(tag)
            # -- request body
            rs = [schema_ref(arg(x, 2, "schema")) for x in calls_in_func(s.fn, "read_encoded")]
            msg = kwarg(c.call, "message_to_serialize")
            if rs or msg is not None:
                r.site(s.fn, None, "request body %s <-> %s" % (s.fn.name, short(c.fn)))
                if not r.require(bool(rs) and msg is not None, c.fn, c.fn.loc(c.call),
                                 "%s %s: %s" % (key[0], key[1], "the client sends a body the handler never reads" if msg is not None
                                                else "the handler reads a CBOR body the client never sends")):
                    continue
                if rs[0] not in s_schemas:
                    raise AnalysisError("%s uses unknown schema %r" % (s.fn.qual, rs[0]))
                want = cddl_keys(s_schemas[rs[0]])
                got = Keys(idx, c.fn).of(msg)
                # attrs classes named in the annotations of the client function's parameters
                for a in c.fn.node.args.args:
                    if a.annotation is None:
                        continue
                    for x in ast.walk(a.annotation):
                        if isinstance(x, ast.Name) and x.id in cmod.classes:
                            ks, _rn = wire_keys_of_class(idx, cmod.classes[x.id])
                            got |= ks
                r.require(got == want, c.fn, c.fn.loc(c.call), "request body of %s %s: client sends keys %s, server "
                          "schema %r has %s" % (key[0], key[1], fmt(got - want), rs[0], fmt(want - got)))
                read = const_subscripts(s.fn)
                r.require(read == want, s.fn, s.fn.loc(), "%s reads keys %s that its schema lacks / ignores schema "
                          "keys %s" % (s.fn.name, fmt(read - want), fmt(want - read)))
            # -- response body
            cs = [schema_ref(arg(x, 1, "schema")) for x in calls_in_func(c.fn, "decode_cbor")]
            sends = calls_in_func(s.fn, "_send_encoded")
            if cs or sends:
                r.site(s.fn, None, "response body %s <-> %s" % (s.fn.name, short(c.fn)))
                if not r.require(bool(cs) and bool(sends), s.fn, s.fn.loc(),
                                 "%s %s: %s" % (key[0], key[1], "the client decodes a CBOR response the handler never sends"
                                                if cs else "the handler sends a CBOR response the client ignores")):
                    continue
                if cs[0] not in c_schemas:
                    raise AnalysisError("%s uses unknown schema %r" % (c.fn.qual, cs[0]))
                want = cddl_keys(c_schemas[cs[0]])
                got = set()
                for x in sends:
                    got |= Keys(idx, s.fn).of(arg(x, 1, "data"))
                r.require(got == want, s.fn, s.fn.loc(sends[0]), "response body of %s %s: server sends keys %s, client "
                          "schema %r expects %s" % (key[0], key[1], fmt(got - want), cs[0], fmt(want - got)))
                read = const_subscripts(c.fn)
                r.require(read <= want, c.fn, c.fn.loc(), "%s reads response keys %s that the schema does not contain" % (
                    short(c.fn), fmt(read - want)))
                top = {k for k in want}
                if isinstance(arg(sends[0], 1, "data"), ast.Dict):
                    top = {Keys(idx, s.fn).const(k) for k in arg(sends[0], 1, "data").keys}
                    r.require(top <= read or not top, c.fn, c.fn.loc(), "%s drops response fields %s" % (
                        short(c.fn), fmt(top - read)))

    # ---------------------------------------------------------------- 3 -------
    with ctx.rule("C31.3", "R5/R1", "2xx codes a handler can produce == codes the client accepts; 201 iff the upload "
                  "completed, client finished flag and adapter close() follow it", expected=15) as r:
        done = set()
        for (s, c, key) in paired:
            range_sent = sends_header(c, "range")
            sc = server_success_codes(idx, s, range_sent)
            cc = client_success_codes(c)
            r.site(s.fn, None, "%s %s server %s client %s" % (key[0], key[1], sorted(sc), cc if cc == "2xx" else sorted(cc)))
            if cc == "2xx":
                r.require(all(200 <= x < 300 for x in sc) and bool(sc), s.fn, s.fn.loc(), "no success code")
                continue
            r.require(sc <= cc, c.fn, c.fn.loc(c.call), "%s %s: the handler %s can answer %s, which %s treats as a "
                      "failure" % (key[0], key[1], s.fn.name, sorted(sc - cc), short(c.fn)))
            r.require(cc <= sc, c.fn, c.fn.loc(c.call), "%s %s: %s waits for status %s, which the handler %s never "
                      "sends" % (key[0], key[1], short(c.fn), sorted(cc - sc), s.fn.name))
        # completion signalling, server side
        w = idx.func(HS + ".write_share_data")
        wcfg = w.cfg()
        wn = FlowNorm(w)
        created = [n for (n, code) in set_codes(w) if code == 201]
        oks = [n for (n, code) in set_codes(w) if code == 200]
        if not created:
            raise AnchorVanished("write_share_data never answers 201")
        wpipe = WritePipe(idx, w)
        wpol = write_finished_edges(wpipe)
        if not wpipe.fin_names and not any(wpipe.is_fin_expr(n.ast) for n in wcfg.nodes if n.kind == "test"):
            raise AnchorVanished("write_share_data does not keep the result of bucket.write()")

        def fin_edge(pol):
            return lambda n, lab: wpol(n, lab) is pol
        r.site(w, created[0].ast, "201 <=> finished")
        for n in created:
            for (t, wt) in find_path_avoiding(wcfg, lambda x, _n=n: x is _n, gate_edge=fin_edge(True)):
                r.violation(w, w.loc(t.ast), "201 CREATED is answered although BucketWriter.write did not report "
                            "completion (path: %s)" % wt.brief(), wt)
        for n in oks:
            for (t, wt) in find_path_avoiding(wcfg, lambda x, _n=n: x is _n, gate_edge=fin_edge(False)):
                r.violation(w, w.loc(t.ast), "200 OK (unfinished) is answered on a path where the upload may be "
                            "complete (path: %s)" % wt.brief(), wt)
        # every normal return after the data loop has a status decided by `finished`
        closes = [n for n in wcfg.nodes if any(call_tail(c) == "close" and attr_path(c.func.value) != "request"
                                               for c in node_calls(n))]
        r.require(bool(closes), w, w.loc(), "a completed upload is never closed")
        for n in closes:
            for (t, wt) in find_path_avoiding(wcfg, lambda x, _n=n: x is _n, gate_edge=fin_edge(True)):
                r.violation(w, w.loc(t.ast), "the BucketWriter is closed although the upload is incomplete", wt)
        for n in created:
            bad = find_path_avoiding(wcfg, lambda x, _n=n: x is _n, gate_node=lambda x: x in closes)
            bad2 = find_path_from_to_avoiding(wcfg, lambda x, _n=n: x is _n, lambda x: x in closes)
            if bad and bad2:
                r.violation(w, w.loc(n.ast), "201 CREATED is answered without closing the BucketWriter: the share "
                            "stays in incoming/", bad[0][1])
        # the true edge of `finished` must lead to 201 (not fall through to 200)
        for n in wcfg.nodes:
            for lab in (("T", n.ast), ("F", n.ast)):
                if fin_edge(True)(n, lab):
                    for (st, wt) in edge_must_pass(wcfg, n, lab, lambda x: x in created):
                        r.violation(w, w.loc(n.ast), "a completed upload can be answered without 201 CREATED", wt)
        # client side: finished flag
        wc = idx.func("storage.http_client:StorageClientImmutables._write_share_chunk")
        wcn = FlowNorm(wc)
        ccfg = wc.cfg()
        ups = [(n, c) for n in ccfg.nodes for c in calls_at(n, "UploadProgress")]
        if not ups:
            raise AnchorVanished("_write_share_chunk no longer builds UploadProgress")
        r.site(wc, ups[0][1], "finished flag")
        for (n, c) in ups:
            fa = kwarg(c, "finished") or arg(c, 0)
            nm = fa.id if isinstance(fa, ast.Name) else None
            if not r.require(nm is not None, wc, wc.loc(c), "finished=%s" % src(wc, fa)):
                continue
            for st in ccfg.find(stores(nm)):
                v = assign_value(st, nm)
                if not (isinstance(v, ast.Constant) and isinstance(v.value, bool)):
                    r.violation(wc, wc.loc(st.ast), "finished is computed as %s" % src(wc, v))
                    continue
                want = 201 if v.value else 200

                def code_edge(m, lab, _want=want):
                    f = wcn.edge_fact(m, lab)
                    return bool(f) and f[0] == "==" and ((f[2].endswith(".code") and code_of_form(f[1]) == _want)
                                                         or (f[1].endswith(".code") and code_of_form(f[2]) == _want))
                for (t, wt) in find_path_avoiding(ccfg, lambda x, _s=st: x is _s, gate_edge=code_edge):
                    r.violation(wc, wc.loc(t.ast), "finished=%s is reported without status %d (path: %s)" % (
                        v.value, want, wt.brief()), wt)
        # adapter: close() waits for the finished flag set by write()
        bw = idx.cls("storage_client:_HTTPBucketWriter")
        wr, cl = bw.methods.get("write"), bw.methods.get("close")
        if wr is None or cl is None:
            raise AnchorVanished("_HTTPBucketWriter.write/close")
        r.site(wr, None, "adapter completion")
        wrn = FlowNorm(wr)
        wrcfg = wr.cfg()
        cbs = [n for n in wrcfg.nodes if any(call_name(c) == "self.finished.callback" for c in node_calls(n))]
        r.require(bool(cbs), wr, wr.loc(), "_HTTPBucketWriter.write never fires the finished Deferred: close() hangs")
        for n in cbs:
            wdefs2 = def_exprs(wr)

            def fin(m, lab):
                f = wrn.edge_fact(m, lab)
                if not (f and f[0] == "truth" and f[1].endswith(".finished")):
                    return False
                base = f[1][: -len(".finished")]
                return "write_share_chunk" in base or any(
                    any(isinstance(x, ast.Call) and call_tail(x) == "write_share_chunk" for x in ast.walk(d))
                    for d in wdefs2.get(base, []))
            for (t, wt) in find_path_avoiding(wrcfg, lambda x, _n=n: x is _n, gate_edge=fin):
                r.violation(wr, wr.loc(t.ast), "close() is released before the server reported completion", wt)
        for n in cl.cfg().find(is_return):
            r.require(attr_path(n.ast.value) == "self.finished", cl, cl.loc(n.ast),
                      "_HTTPBucketWriter.close returns %s instead of the completion Deferred" % src(cl, n.ast.value))

    # ---------------------------------------------------------------- 4 -------
    with ctx.rule("C31.4", "R1/R5", "read_range clips with min(end, share_length), 204 when empty, Content-Range and "
                  "producer agree; handlers pass the share's length/reader; client Range(offset, offset+length), "
                  "204 -> b'', stop-start bytes", expected=6) as r:
        rr = idx.func("storage.http_server:read_range")
        rcfg = rr.cfg()
        rn = FlowNorm(rr)
        rp = rr.params
        prods = [(n, c) for n in rcfg.nodes for c in node_calls(n) if call_tail(c) == "_ReadRangeProducer"]
        if not prods:
            raise AnchorVanished("read_range no longer creates _ReadRangeProducer")
        pcls = idx.cls("storage.http_server:_ReadRangeProducer")
        pf = [f for (f, _a) in class_fields(pcls)]
        for (n, c) in prods:
            r.site(rr, c, "range producer")
            a_start = arg(c, pf.index("start"), "start") if "start" in pf else None
            a_rem = arg(c, pf.index("remaining"), "remaining") if "remaining" in pf else None
            if a_start is None or a_rem is None:
                raise AnchorVanished("_ReadRangeProducer(start, remaining)")
            a_rem = rn.resolve(n, a_rem)
            if not r.require(isinstance(a_rem, ast.BinOp) and isinstance(a_rem.op, ast.Sub) and isinstance(a_rem.left, ast.Name)
                             and rn.norm(n, a_rem.right) == rn.norm(n, a_start), rr, rr.loc(c),
                             "the producer is asked for %s bytes from %s (expected end - start)" % (src(rr, a_rem), src(rr, a_start))):
                continue
            endv = a_rem.left.id
            startform = rn.norm(n, a_start)

            def clip(m, _e=endv):
                v = assign_value(m, _e)
                if not (isinstance(v, ast.Call) and isinstance(v.func, ast.Name) and v.func.id == "min" and len(v.args) == 2):
                    return False
                names = {a.id for a in v.args if isinstance(a, ast.Name)}
                return names == {_e, rp[2]}
            other_end_stores = lambda m, _e=endv: _e in node_stores(m) and not clip(m)
            # the clip must come after the value parsed from the header
            bad = find_path_avoiding(rcfg, lambda x, _n=n: x is _n, gate_node=clip, kill=other_end_stores)
            for (t, wt) in bad:
                r.violation(rr, rr.loc(t.ast), "the range end is not clipped to the share length (min(%s, %s)) before "
                            "reading (path: %s)" % (endv, rp[2], wt.brief()), wt)

            def nonempty(m, lab, _e=endv, _s=startform):
                f = rn.edge_fact(m, lab)
                if not f:
                    return False
                if f[0] == "<" and f[1] == _s and f[2] == _e:
                    return True
                return f[0] == "<" and f[1] == "0" and f[2] == norm_src("%s - (%s)" % (_e, "S")).replace("S", _s)
            bad = find_path_avoiding(rcfg, lambda x, _n=n: x is _n, gate_edge=nonempty, kill=lambda m, _e=endv: _e in node_stores(m))
            for (t, wt) in bad:
                r.violation(rr, rr.loc(t.ast), "a read starting at or past the (clipped) end reaches the producer "
                            "instead of being answered with 204 (path: %s)" % wt.brief(), wt)
            # Content-Range(offset, end) and 206 on the same path
            crs = [(m, x) for m in rcfg.nodes for x in node_calls(m) if call_tail(x) == "ContentRange"]
            r.require(bool(crs), rr, rr.loc(), "no Content-Range header is sent with a partial read")
            for (m, x) in crs:
                ok = len(x.args) >= 3 and rn.norm(m, x.args[1]) == startform and isinstance(x.args[2], ast.Name) and x.args[2].id == endv
                r.require(ok, rr, rr.loc(x), "Content-Range is %s but the producer sends [%s, %s)" % (src(rr, x), src(rr, a_start), endv))
                for (t, wt) in find_path_avoiding(rcfg, lambda y, _m=m: y is _m, gate_node=clip, kill=other_end_stores):
                    r.violation(rr, rr.loc(t.ast), "Content-Range is computed before the end is clipped", wt)
            for (t, wt) in find_path_avoiding(rcfg, lambda x, _n=n: x is _n,
                                              gate_node=lambda m: any(code == 206 for (q, code) in set_codes(rr) if q is m)):
                r.violation(rr, rr.loc(t.ast), "a partial read is not answered with 206", wt)
        # the empty case answers 204
        r.site(rr, None, "empty read -> 204")
        r.require(any(code == 204 for (_n, code) in raised_codes(rr) + set_codes(rr)), rr, rr.loc(),
                  "read_range never answers 204 for an empty read; the client maps only 204 to b''")
        # handlers: length and reader of the same share
        for hname, want_len, want_reader in (
                ("read_share_chunk", r"^self\._storage_server\.get_buckets\(%(si)s\)\[%(sh)s\]\.get_length\(\)$",
                 r"^self\._storage_server\.get_buckets\(%(si)s\)\[%(sh)s\]\.read$"),
                ("read_mutable_chunk", r"^self\._storage_server\.get_mutable_share_length\(%(si)s, %(sh)s\)$", None)):
            h = idx.func(HS + "." + hname)
            hp = first_positional_params(h)
            hn = FlowNorm(h)
            d = {"si": re.escape(hp[2]), "sh": re.escape(hp[3])}
            calls = [(n, c) for n in h.cfg().nodes for c in calls_at(n, "read_range")]
            if not calls:
                raise AnchorVanished("%s no longer calls read_range" % hname)
            for (n, c) in calls:
                r.site(h, c, "read handler")
                ln = hn.norm(n, arg(c, 2, "share_length"))
                r.require(re.match(want_len % d, ln) is not None, h, h.loc(c),
                          "%s clips reads to %s, not to the length of share (%s, %s)" % (hname, ln, hp[2], hp[3]))
                rd = arg(c, 1, "read_data")
                if want_reader is not None:
                    rf = hn.norm(n, rd)
                    r.require(re.match(want_reader % d, rf) is not None, h, h.loc(c), "%s reads through %s" % (hname, rf))
                else:
                    inner = h.nested.get(rd.id) if isinstance(rd, ast.Name) else None
                    if inner is None:
                        raise AnchorVanished("%s reader function" % hname)
                    ip = inner.params
                    want = norm_src("self._storage_server.slot_readv(%s, [%s], [(%s, %s)])[%s][0]" % (
                        hp[2], hp[3], ip[0], ip[1], hp[3]))
                    rets = inner.cfg().find(is_return)
                    r.require(bool(rets) and all(N(inner).norm(x.ast.value) == want for x in rets), inner, inner.loc(),
                              "the mutable reader returns %s (expected %s)" % (
                                  "; ".join(src(inner, x.ast.value) for x in rets), want))
            # content type agreed with the client
            cts = [c for c in calls_in_func(h, "setHeader") if len(c.args) == 2 and isinstance(c.args[0], ast.Constant)
                   and str(c.args[0].value).lower() == "content-type"]
            r.require(bool(cts), h, h.loc(), "%s sets no content-type" % hname)
        # client
        rc = idx.func("storage.http_client:read_share_chunk")
        rcn = FlowNorm(rc)
        ccfg = rc.cfg()
        cp = rc.params
        req = [x for x in cli if x.fn is rc]
        if not req:
            raise AnchorVanished("read_share_chunk request")
        r.site(rc, req[0].call, "client range request")
        rngs = [x for x in own_nodes(req[0].call) if isinstance(x, ast.Call) and call_tail(x) == "Range"]
        ok = False
        off, ln = cp[-2], cp[-1]
        for x in rngs:
            if len(x.args) >= 2 and isinstance(x.args[1], ast.List) and len(x.args[1].elts) == 1 \
                    and isinstance(x.args[1].elts[0], ast.Tuple) and len(x.args[1].elts[0].elts) == 2:
                a, b = x.args[1].elts[0].elts
                ok = rcn.norm(req[0].node, a) == off and rcn.norm(req[0].node, b) == norm_src("%s + %s" % (off, ln)) \
                    and isinstance(x.args[0], ast.Constant) and x.args[0].value == "bytes"
        r.require(ok, rc, rc.loc(req[0].call), "the Range header is not bytes [%s, %s + %s): %s" % (
            off, off, ln, "; ".join(src(rc, x) for x in rngs) or "no Range(..)"))
        se = success_edges(rc, rcn)
        r.site(rc, None, "client 204/206 handling")
        for (n, lab) in se.get(204, []):
            for (d, l) in ccfg.succ[n.id]:
                if C._lbl_eq(l, lab):
                    nx = ccfg.nodes[d]
                    r.require(is_return(nx) and isinstance(nx.ast.value, ast.Constant) and nx.ast.value.value == b"",
                              rc, rc.loc(nx.ast), "204 (empty read) is mapped to %s, the direct path returns b''" % src(rc, nx.ast))
        r.require(204 in se, rc, rc.loc(), "the client does not handle 204 (read at or past the end of the share)")
        # content type
        ctc = [f for n in ccfg.nodes if n.kind == "test" for f in [rcn.edge_fact(n, ("T", n.ast))]
               if f and f[0] in ("!=", "==") and "get_content_type" in (f[1] + f[2])]
        want_ct = {c.args[1].value for hname in ("read_share_chunk", "read_mutable_chunk")
                   for c in calls_in_func(idx.func(HS + "." + hname), "setHeader")
                   if len(c.args) == 2 and isinstance(c.args[0], ast.Constant) and str(c.args[0].value).lower() == "content-type"
                   and isinstance(c.args[1], ast.Constant)}
        for f in ctc:
            lit = [x for x in (f[1], f[2]) if x.startswith("'")]
            r.require(bool(lit) and {lit[0].strip("'")} == want_ct, rc, rc.loc(),
                      "the client insists on content type %s, the read handlers send %s" % (lit, sorted(want_ct)))
        # supposed length = stop - start, and no more than asked
        lims = [(n, c) for n in ccfg.nodes for c in node_calls(n) if call_tail(c) == "limited_content"]
        for (n, c) in lims:
            a = arg(c, 2, "max_length")
            if a is None:
                continue
            form = rcn.norm(n, a)
            r.require(re.match(r"^\(?-1\*(.+)\.start \+ \1\.stop\)?$", form) is not None, rc, rc.loc(c),
                      "the body length is taken as %s, not Content-Range stop - start" % form)

    # ---------------------------------------------------------------- 5 -------
    with ctx.rule("C31.5", "R5", "Authorization / X-Tahoe-Authorization header names and formats agree; request() "
                  "forwards its secrets unchanged", expected=4) as r:
        gh = idx.func("storage.http_client:StorageClient._get_headers")
        ah = [c for c in calls_in_func(gh, "addRawHeader") if c.args and isinstance(c.args[0], ast.Constant)
              and str(c.args[0].value).lower() == "authorization"]
        r.site(gh, ah[0] if ah else None, "Authorization header")
        if r.require(bool(ah), gh, gh.loc(), "the client sends no Authorization header"):
            r.require(len(ah[0].args) == 2 and N(gh).norm(ah[0].args[1]) == norm_src("swissnum_auth_header(self._swissnum)"),
                      gh, gh.loc(ah[0]), "the Authorization header is %s; the server compares with "
                      "swissnum_auth_header(self._swissnum)" % src(gh, ah[0]))
        rq, lp, table = secret_param_table(idx)
        r.site(rq, lp, "secret headers")
        rqn = FlowNorm(rq)
        # the treq request carries the headers object built by _get_headers
        tq = [(n, c) for n in rq.cfg().nodes for c in node_calls(n) if call_name(c) == "self._treq.request"]
        if not tq:
            raise AnchorVanished("self._treq.request in StorageClient._request")
        for (n, c) in tq:
            h = kwarg(c, "headers")
            hdefs = def_exprs(rq).get(h.id, []) if isinstance(h, ast.Name) else []
            r.require(any(isinstance(d, ast.Call) and call_name(d) == "self._get_headers" for d in hdefs), rq, rq.loc(c),
                      "the request is sent with headers %s that do not come from _get_headers (no Authorization)" % src(rq, h))
            ma, ua = arg(c, 0), arg(c, 1)
            r.require(isinstance(ma, ast.Name) and ma.id == rq.params[1] and isinstance(ua, ast.Name) and ua.id == rq.params[2],
                      rq, rq.loc(c), "treq is called with %s" % src(rq, c))
        want_members = set(member_value)
        r.require(set(table.values()) == want_members, rq, rq.loc(lp), "the client can send secrets %s; the server knows %s" % (
            sorted(table.values()), sorted(want_members)))
        for p, mname in table.items():
            r.require(p in rq.params, rq, rq.loc(lp), "%s is not a parameter of _request" % p)
            wire = str(member_value.get(mname, "?")).replace("-", "_")
            r.require(wire in p or p in wire, rq, rq.loc(lp), "the %s argument is sent under the secret name %r "
                      "(Secrets.%s)" % (p, member_value.get(mname), mname))
        hdr = [c for n in ast.walk(lp) if isinstance(n, ast.Call) and call_tail(n) == "addRawHeader" for c in [n]]
        srv_route = idx.func("storage.http_server:_authorization_decorator.decorator.route")
        srv_names = {c.args[0].value.lower() for c in calls_in_func(srv_route, "getRawHeaders")
                     if c.args and isinstance(c.args[0], ast.Constant)}
        if r.require(bool(hdr), rq, rq.loc(lp), "no X-Tahoe-Authorization header is added"):
            c = hdr[0]
            nm = c.args[0].value.lower() if c.args and isinstance(c.args[0], ast.Constant) else None
            r.require(nm in srv_names and nm != "authorization", rq, rq.loc(c),
                      "secrets are sent in header %r; the server reads %s" % (nm, sorted(srv_names)))
            v = c.args[1] if len(c.args) > 1 else None
            tv = [t.id for t in lp.target.elts] if isinstance(lp.target, ast.Tuple) else []
            ok = isinstance(v, ast.BinOp) and isinstance(v.op, ast.Mod) and isinstance(v.left, ast.Constant) \
                and v.left.value in (b"%s %s", "%s %s") and isinstance(v.right, ast.Tuple) and len(v.right.elts) == 2 and len(tv) == 2
            if ok:
                a, b = v.right.elts
                ok = attr_path(a.func.value if isinstance(a, ast.Call) and isinstance(a.func, ast.Attribute) else a) == tv[0] + ".value" \
                    and any(isinstance(x, ast.Call) and call_tail(x) == "b64encode" and x.args and isinstance(x.args[0], ast.Name)
                            and x.args[0].id == tv[1] for x in own_nodes(b))
            r.require(ok, rq, rq.loc(c), "secret header value is %s; the server parses '<Secrets value> <base64>'" % src(rq, v))
        # server parses with split(" ", 1) / enum by value / b64decode
        ex = idx.func("storage.http_server:_extract_secrets")
        r.site(ex, None, "server parse")
        r.require(bool(calls_in_func(ex, "b64decode")) and any(
            isinstance(c.func, ast.Attribute) and c.args and isinstance(c.args[0], ast.Constant) and c.args[0].value == " "
            for c in calls_in_func(ex, "split")), ex, ex.loc(), "the server no longer parses '<name> <base64>' secrets")
        keymaps = [n for n in ast.walk(ex.node) if isinstance(n, ast.DictComp) and attr_path(n.key) is not None
                   and attr_path(n.key).endswith(".value")]
        r.require(bool(keymaps), ex, ex.loc(), "secret names are no longer looked up by Secrets value")
        # request() forwards to _request
        rf = idx.func("storage.http_client:StorageClient.request")
        fw = calls_in_func(rf, "_request")
        r.site(rf, fw[0] if fw else None, "request -> _request")
        if not fw:
            raise AnchorVanished("StorageClient.request no longer calls _request")
        tparams = rq.params[1:]
        for c in fw:
            for i, p in enumerate(tparams):
                if p in ("kwargs",):
                    continue
                a = arg(c, i, p)
                if p in rf.params:
                    r.require(isinstance(a, ast.Name) and a.id == p, rf, rf.loc(c),
                              "request() passes %s as %s of _request" % (src(rf, a) if a is not None else "nothing", p))

    # ---------------------------------------------------------------- 6 -------
    with ctx.rule("C31.6", "R5", "_HTTPStorageServer adapter: secrets reach the matching request parameters; vector "
                  "marshalling composed with the server's unmarshalling equals the Foolscap adapter's tuples; 404/401 "
                  "translations", expected=9) as r:
        ad = idx.cls(ADAPTER)
        tracer = Tracer(idx)
        # secrets
        expect = [("add_lease", "renew_secret", "lease_renew_secret"), ("add_lease", "cancel_secret", "lease_cancel_secret"),
                  ("allocate_buckets", "renew_secret", "lease_renew_secret"),
                  ("allocate_buckets", "cancel_secret", "lease_cancel_secret"),
                  ("slot_testv_and_readv_and_writev", "secrets[0]", "write_enabler_secret"),
                  ("slot_testv_and_readv_and_writev", "secrets[1]", "lease_renew_secret"),
                  ("slot_testv_and_readv_and_writev", "secrets[2]", "lease_cancel_secret")]
        for (meth, source, want) in expect:
            m = ad.methods.get(meth)
            if m is None:
                raise AnchorVanished("%s.%s" % (ADAPTER, meth))
            got = tracer.trace(m, source)
            r.site(m, None, "%s -> %s" % (source, sorted(got)))
            r.require(got == {want}, m, m.loc(), "%s.%s: %s reaches the HTTP request as %s (expected %s)" % (
                ad.name, meth, source, sorted(got) or "nothing", want))
        # the upload secret given to create() is the one the bucket writers use
        ab = ad.methods["allocate_buckets"]
        abn = FlowNorm(ab)
        cr = [(n, c) for n in ab.cfg().nodes for c in node_calls(n, into_lambda=True) if call_tail(c) == "create"]
        bwc = [(n, c) for n in ab.cfg().nodes for c in node_calls(n, into_lambda=True) if call_tail(c) == "_HTTPBucketWriter"]
        if not cr or not bwc:
            raise AnchorVanished("allocate_buckets create()/_HTTPBucketWriter")
        createf = idx.func("storage.http_client:StorageClientImmutables.create")
        up_i = first_positional_params(createf).index("upload_secret")
        a_up = arg(cr[0][1], up_i, "upload_secret")
        for (n, c) in bwc:
            b_up = kwarg(c, "upload_secret")
            r.require(a_up is not None and b_up is not None and isinstance(a_up, ast.Name) and isinstance(b_up, ast.Name)
                      and a_up.id == b_up.id, ab, ab.loc(c), "the bucket writers use upload secret %s, the allocation "
                      "used %s" % (src(ab, b_up), src(ab, a_up)))
        # vectors
        tw = ad.methods["slot_testv_and_readv_and_writev"]
        r.site(tw, None, "vector marshalling")
        srv_h = idx.func(HS + ".mutable_read_test_write")
        fool = idx.func("storage_client:_StorageServer.slot_testv_and_readv_and_writev")
        vm = VectorMaps(idx, tw, srv_h, fool, r)
        vm.check()
        # translations
        al = ad.methods["add_lease"]
        r.site(al, None, "404/401 translations")
        alcfg = al.cfg()
        aln = FlowNorm(al)
        swallow = False
        for n in alcfg.nodes:
            if n.kind == "test":
                f = aln.edge_fact(n, ("T", n.ast))
                if f and f[0] == "==" and {code_of_form(f[1]), code_of_form(f[2])} & {404} and edge_reaches_return(alcfg, n, ("T", n.ast)):
                    swallow = True
        r.require(swallow, al, al.loc(), "add_lease on an unknown storage index raises over HTTP; the direct path "
                  "silently does nothing")
        ign = idx.func("storage_client:_ignore_404")
        for meth in ("advise_corrupt_share",):
            m = ad.methods[meth]
            regs = [c for c in calls_in_func(m, "addErrback") if c.args and isinstance(c.args[0], ast.Name) and c.args[0].id == ign.name]
            r.require(bool(regs), m, m.loc(), "advise_corrupt_share for an unknown share fails over HTTP; the direct "
                      "path ignores it")
        twcfg = tw.cfg()
        twn = FlowNorm(tw)
        ok401 = False
        for n in twcfg.nodes:
            if n.kind == "test":
                f = twn.edge_fact(n, ("T", n.ast))
                if f and f[0] == "==" and 401 in (code_of_form(f[1]), code_of_form(f[2])):
                    for (d, l) in twcfg.succ[n.id]:
                        if C._lbl_eq(l, ("T", n.ast)) and raises("RemoteException")(twcfg.nodes[d]):
                            ok401 = True
        r.require(ok401, tw, tw.loc(), "a 401 from the mutable write is not translated to RemoteException (the direct "
                  "path raises BadWriteEnablerError as a remote failure)")

    # ---------------------------------------------------------------- 7 -------
    with ctx.rule("C31.7", "R1", "write_share_data writes exactly the bytes [start, stop) of the Content-Range: offset starts "
                  "at start, the loop runs while bytes remain, both counters advance by len(data); every return without "
                  "an error status was decided by `finished`", expected=5) as r:
        w = idx.func(HS + ".write_share_data")
        wcfg = w.cfg()
        wn = FlowNorm(w)
        reqp = first_positional_params(w)[0]
        writes = [(n, c) for n in wcfg.nodes for c in calls_at(n, "write")
                  if attr_path(c.func.value) not in (None, reqp) and not attr_path(c.func.value).startswith(reqp + ".")]
        if not writes:
            raise AnchorVanished("write_share_data no longer calls <bucket>.write")
        wpipe = WritePipe(idx, w)
        pol = write_finished_edges(wpipe)
        fin_tests = [n for n in wcfg.nodes if n.kind == "test" and pol(n, ("T", n.ast)) is not None]
        if not fin_tests:
            raise AnchorVanished("write_share_data no longer tests the result of <bucket>.write")
        if wpipe.iter is not None:
            # the pieces come from a chunk generator consumed by a comprehension / for loop
            chunk_iterator_write(idx, r, w, wn, wcfg, wpipe, fin_tests)
            writes = []
        for (n, c) in writes:
            r.site(w, c, "bucket.write(offset, data)")
            a_off, a_data = arg(c, 0, "offset"), arg(c, 1, "data")
            if not r.require(isinstance(a_off, ast.Name) and isinstance(a_data, ast.Name), w, w.loc(c),
                             "the share is written with %s (expected <offset variable>, <data variable>)" % src(w, c)):
                continue
            offv, datav = a_off.id, a_data.id
            # data comes from the request body
            ddefs = def_exprs(w).get(datav, [])
            r.require(bool(ddefs) and all(isinstance(d, ast.Call) and call_tail(d) == "read"
                                          and attr_path(d.func.value) == reqp + ".content" for d in ddefs),
                      w, w.loc(c), "the data written (%s) is not what was read from %s.content: %s" % (
                          datav, reqp, "; ".join(src(w, d) for d in ddefs) or "no definition"))
            # remaining = <content range>.stop - offset
            rems = []
            for m in wcfg.nodes:
                if m.kind == "stmt" and isinstance(m.ast, (ast.Assign, ast.AnnAssign)):
                    tg = m.ast.targets[0] if isinstance(m.ast, ast.Assign) and len(m.ast.targets) == 1 else getattr(m.ast, "target", None)
                    v = m.ast.value
                    if isinstance(tg, ast.Name) and isinstance(v, ast.BinOp) and isinstance(v.op, ast.Sub) \
                            and isinstance(v.right, ast.Name) and v.right.id == offv:
                        lf = wn.norm(m, v.left)
                        if lf.endswith(".stop") and "parse_content_range_header(" in lf:
                            rems.append((m, tg.id, lf[: -len(".stop")]))
            if not rems:
                raise AnchorVanished("write_share_data: <remaining> = <content range>.stop - %s" % offv)
            remv, base = rems[0][1], rems[0][2]
            r.site(w, rems[0][0].ast, "remaining = stop - offset")
            # offset: initial value and steps
            r.site(w, None, "offset initial value / steps")
            n_init = 0
            for m in wcfg.find(stores(offv)):
                st = step_of(w, m, offv)
                if st is not None:
                    r.require(st == ("+", norm_src("len(%s)" % datav)), w, w.loc(m.ast),
                              "the write offset is advanced by %s%s, not by len(%s)" % (st[0], st[1], datav))
                    continue
                v = assign_value(m, offv)
                n_init += 1
                core = v
                is0 = lambda e: isinstance(e, ast.Constant) and e.value == 0 and not isinstance(e.value, bool)
                if isinstance(v, ast.BoolOp) and isinstance(v.op, ast.Or) and len(v.values) == 2 and is0(v.values[1]):
                    core = v.values[0]          # `start or 0`: a missing start means 0
                elif isinstance(v, ast.IfExp):
                    tf = N(w).cmp(v.test, True)
                    for (val, other, ops) in ((v.body, v.orelse, ("is not", "truth")), (v.orelse, v.body, ("is", "false"))):
                        if is0(other) and tf[0] in ops and N(w).norm(val) in (tf[1], tf[2]):
                            core = val          # `start if start is not None else 0`
                ok = core is not None and not isinstance(core, ast.BoolOp) and wn.norm(m, core) == base + ".start"
                r.require(ok, w, w.loc(m.ast), "the write offset starts at %s, not at the start of the Content-Range" % (
                    src(w, v) if v is not None else "?"))
            r.require(n_init >= 1, w, w.loc(), "the write offset %s has no initial value" % offv)
            for m in wcfg.find(stores(remv)):
                st = step_of(w, m, remv)
                if st is not None:
                    r.require(st == ("-", norm_src("len(%s)" % datav)), w, w.loc(m.ast),
                              "the remaining count is changed by %s%s, not by -len(%s)" % (st[0], st[1], datav))

            # loop guard: the write is reached only while bytes remain
            def rem_form(m, _r=remv):
                # the normaliser replaces a local by its definition where that is unique (e.g. in front of the loop)
                return {_r, wn.norm(m, ast.Name(id=_r, ctx=ast.Load()))}

            def more(m, lab):
                f = wn.edge_fact(m, lab)
                rf = rem_form(m) if f else set()
                return bool(f) and ((f[0] == "<" and f[1] == "0" and f[2] in rf) or (f[0] == "truth" and f[1] in rf)
                                    or (f[0] == "!=" and ((f[1] == "0" and f[2] in rf) or (f[2] == "0" and f[1] in rf))))

            def done(m, lab):
                f = wn.edge_fact(m, lab)
                rf = rem_form(m) if f else set()
                return bool(f) and ((f[0] == "<=" and f[1] in rf and f[2] == "0") or (f[0] == "false" and f[1] in rf)
                                    or (f[0] == "==" and ((f[1] == "0" and f[2] in rf) or (f[2] == "0" and f[1] in rf))))
            r.site(w, None, "loop guard")
            for (t, wt) in find_path_avoiding(wcfg, lambda x, _n=n: x is _n, gate_edge=more, kill=stores(remv)):
                r.violation(w, w.loc(t.ast), "the share is written on a path where `%s > 0` was not established: bytes of "
                            "the range are skipped or written twice (path: %s)" % (remv, wt.brief()), wt)
            for (t, wt) in find_path_avoiding(wcfg, lambda x: x in fin_tests, gate_edge=done, kill=stores(remv), start=n):
                r.violation(w, w.loc(t.ast), "after a write the completion status is decided although bytes of the range may "
                            "remain (`%s <= 0` not established; path: %s)" % (remv, wt.brief()), wt)
            guards = [m for m in wcfg.nodes if m.kind == "test" and (more(m, ("T", m.ast)) or more(m, ("F", m.ast)))]
            for (var, sign) in ((remv, "-"), (offv, "+")):
                stepn = lambda m, _v=var, _s=sign: (step_of(w, m, _v) or ("", ""))[0] == _s
                for (t, wt) in find_path_avoiding(wcfg, lambda x: x in guards or x in fin_tests, gate_node=stepn, start=n):
                    r.violation(w, w.loc(n.ast), "after writing a block `%s` is not advanced by len(%s) before the next block "
                                "/ the completion test (path: %s)" % (var, datav, wt.brief()), wt)
        # error returns carry an error status
        r.site(w, None, "early returns")
        err_status = lambda m: any(not (200 <= code < 300) for (q, code) in set_codes(w) if q is m)
        for (t, wt) in find_path_avoiding(wcfg, is_exit, gate_node=err_status,
                                          gate_edge=lambda m, lab: pol(m, lab) is not None):
            r.violation(w, w.loc(), "write_share_data can return without an error status on a path that never looked at "
                        "`finished`: the client takes the implicit 200 for 'chunk stored, upload unfinished' (path: %s)" % wt.brief(), wt)

    # ---------------------------------------------------------------- 8 -------
    with ctx.rule("C31.8", "R1/R5", "client: every normal exit of a request function has seen a 2xx status; 201/200 lead to "
                  "finished=True/False; the 206 body is returned from position 0; decoded fields map to the same-named "
                  "result fields; _request serialises the message into the body", expected=16) as r:
        for c in cli:
            r.site(c.fn, c.call, "exits of %s" % short(c.fn))
            for (t, wt) in find_path_avoiding(c.fn.cfg(), is_exit, gate_node=has_call("decode_cbor"),
                                              gate_edge=success_edge_pred(c.fnorm), start=c.node):
                r.violation(c.fn, c.fn.loc(c.call), "%s can return normally although the response status was not a success "
                            "code: the HTTP error is swallowed where the direct path raises (path: %s)" % (short(c.fn), wt.brief()), wt)
        # 201 -> finished True, 200 -> finished False
        wc = idx.func("storage.http_client:StorageClientImmutables._write_share_chunk")
        wcn = FlowNorm(wc)
        ccfg = wc.cfg()
        ups = [(n, c) for n in ccfg.nodes for c in calls_at(n, "UploadProgress")]
        if not ups:
            raise AnchorVanished("_write_share_chunk no longer builds UploadProgress")
        r.site(wc, ups[0][1], "201/200 -> finished")
        se = success_edges(wc, wcn)
        for (n, c) in ups:
            fa = kwarg(c, "finished") or arg(c, 0)
            if not isinstance(fa, ast.Name):
                continue        # reported by C31.3
            for (code, val) in ((201, True), (200, False)):
                if not r.require(code in se, wc, wc.loc(), "_write_share_chunk does not distinguish status %d" % code):
                    continue
                sets = lambda m, _v=val, _nm=fa.id: _nm in node_stores(m) and isinstance(assign_value(m, _nm), ast.Constant) \
                    and assign_value(m, _nm).value is _v
                for (m, lab) in se[code]:
                    for (t, wt) in from_edge(ccfg, m, lab, lambda x, _n=n: x is _n, gate=sets):
                        r.violation(wc, wc.loc(m.ast), "status %d reaches UploadProgress without finished=%s being set "
                                    "(path: %s)" % (code, val, wt.brief()), wt)
        # read_share_chunk: body of a 206
        rc = idx.func("storage.http_client:read_share_chunk")
        rcn = FlowNorm(rc)
        rcfg2 = rc.cfg()
        req = [x for x in cli if x.fn is rc]
        if not req:
            raise AnchorVanished("read_share_chunk request")
        respv = [nm for nm in node_stores(req[0].node) if "." not in nm and not nm.endswith("[]")]
        if len(respv) != 1:
            raise AnchorVanished("read_share_chunk: response variable")
        respv = respv[0]
        r.site(rc, None, "206 body")
        se = success_edges(rc, rcn)
        r.require(206 in se, rc, rc.loc(), "read_share_chunk does not handle 206")
        for (m, lab) in se.get(206, []):
            for (t, wt) in from_edge(rcfg2, m, lab, is_return):
                v = t.ast.value
                deps = depends_on(rc, v) if v is not None else set()
                r.require(v is not None and any(d == respv or d.startswith(respv + ".") for d in deps), rc, rc.loc(t.ast),
                          "a 206 answer is returned as %s, which does not come from the response body" % (
                              src(rc, v) if v is not None else "None"))
        bodies = [(n, nm) for n in rcfg2.nodes for nm in node_stores(n) if "." not in nm and not nm.endswith("[]")
                  and any(call_tail(x) == "limited_content" for x in node_calls(n))]
        if not bodies:
            raise AnchorVanished("read_share_chunk no longer collects the body with limited_content")
        for (bn, bv) in bodies:
            r.site(rc, bn.ast, "body position")

            def seek_state(m, _b=bv):
                """'S' when node m rewinds the body to 0, 'X' when it moves it elsewhere / consumes it, None otherwise."""
                out = None
                for x in node_calls(m):
                    if isinstance(x.func, ast.Attribute) and attr_path(x.func.value) == _b:
                        if x.func.attr == "seek":
                            a0 = x.args[0] if x.args else None
                            a1 = x.args[1] if len(x.args) > 1 else kwarg(x, "whence")
                            zero = isinstance(a0, ast.Constant) and a0.value == 0 and not isinstance(a0.value, bool)
                            begin = a1 is None or (isinstance(a1, ast.Constant) and a1.value == 0) \
                                or (attr_path(a1) or "").split(".")[-1] == "SEEK_SET"
                            out = "S" if (zero and begin) else "X"
                        elif x.func.attr in ("read", "readline", "readlines", "read1", "readinto", "write", "truncate"):
                            out = "X"
                return out

            def tr(m, lab, nx, st):
                if lab == "exc":
                    return None
                if m is not bn and any(nm == bv for nm in node_stores(m)):
                    return None
                s = seek_state(m)
                return s if s is not None else st
            vis, par = explore(rcfg2, "S", tr, start=bn)
            flagged = set()
            for (nid, st) in sorted(vis):
                m = rcfg2.nodes[nid]
                if m is bn or st == "S" or nid in flagged:
                    continue
                if any(isinstance(x.func, ast.Attribute) and attr_path(x.func.value) == bv and x.func.attr == "read"
                       for x in node_calls(m)):
                    flagged.add(nid)
                    wt = witness(rcfg2, par, (nid, st))
                    r.violation(rc, rc.loc(m.ast), "%s.read() is reached with the body not positioned at 0 (after a seek "
                                "elsewhere / an earlier read): bytes of the chunk are lost (path: %s)" % (bv, wt.brief()), wt)
        # decoded fields -> result fields
        for (q, cls, want) in (
                ("storage.http_client:StorageClientMutables._read_test_write_chunks", "ReadTestWriteResult",
                 {"success": "success", "reads": "data"}),
                ("storage.http_client:StorageClientImmutables._create", "ImmutableCreateResult",
                 {"already_have": "already-have", "allocated": "allocated"})):
            f = idx.func(q)
            cs = calls_in_func(f, cls)
            if not cs:
                raise AnchorVanished("%s(..) in %s" % (cls, q))
            ci = cmod.classes.get(cls)
            if ci is None:
                raise AnchorVanished("http_client.%s" % cls)
            fields = [x for (x, _a) in class_fields(ci)]
            fnm = FlowNorm(f)
            node_of = {id(x): n for n in f.cfg().nodes for x in node_calls(n)}
            for x in cs:
                r.site(f, x, "%s fields" % cls)
                got = {}
                for i, fld in enumerate(fields):
                    a = arg(x, i, fld)
                    if a is not None and id(x) in node_of:
                        a = fnm.resolve(node_of[id(x)], a)
                    got[fld] = subscript_key(a) if a is not None else None
                r.require(got == want, f, f.loc(x), "%s is built as %s from the decoded response; the server's keys mean %s" % (
                    cls, got, want))
        # _request: message -> body
        rq = idx.func("storage.http_client:StorageClient._request")
        rqn = FlowNorm(rq)
        qcfg = rq.cfg()
        mp_ = "message_to_serialize"
        if mp_ not in rq.params:
            raise AnchorVanished("_request(message_to_serialize)")
        tq = [(n, c) for n in qcfg.nodes for c in node_calls(n) if call_name(c) == "self._treq.request"]
        if not tq:
            raise AnchorVanished("self._treq.request in StorageClient._request")
        kwn = rq.node.args.kwarg.arg if rq.node.args.kwarg else None
        r.site(rq, tq[0][1], "message body")

        def stores_body(m):
            a = m.ast
            if not (m.kind == "stmt" and isinstance(a, ast.Assign) and len(a.targets) == 1):
                return False
            t = a.targets[0]
            if not (isinstance(t, ast.Subscript) and isinstance(t.value, ast.Name) and t.value.id == kwn
                    and isinstance(t.slice, ast.Constant) and t.slice.value == "data"):
                return False
            nms = names_in(a.value) | set(depends_on(rq, a.value))
            return mp_ in nms and "dumps" in nms
        present = [(m, lab) for m in qcfg.nodes if m.kind == "test" for lab in (("T", m.ast), ("F", m.ast))
                   for f in [rqn.edge_fact(m, lab)] if f and ((f[0] == "is not" and {f[1], f[2]} == {"None", mp_})
                                                               or (f[0] == "truth" and f[1] == mp_))]
        for (n, c) in tq:
            r.require(kwn is not None and any(k.arg is None and isinstance(k.value, ast.Name) and k.value.id == kwn
                                              for k in c.keywords), rq, rq.loc(c),
                      "treq.request is not given **%s: the serialised body is never sent" % kwn)
            if present:
                for (m, lab) in present:
                    for (t, wt) in from_edge(qcfg, m, lab, lambda x, _n=n: x is _n, gate=stores_body):
                        r.violation(rq, rq.loc(m.ast), "a request with a message reaches treq without %s['data'] = "
                                    "dumps(%s): the body is not sent (path: %s)" % (kwn, mp_, wt.brief()), wt)
            else:
                for (t, wt) in find_path_avoiding(qcfg, lambda x, _n=n: x is _n, gate_node=stores_body):
                    r.violation(rq, rq.loc(t.ast), "the message is never serialised into the request body (path: %s)" % wt.brief(), wt)

    # ---------------------------------------------------------------- 9 -------
    with ctx.rule("C31.9", "R1", "server plumbing: the route wrappers return the handler's result and let _HTTPError (204/4xx) "
                  "through; read_range sends Content-Range as that header, registers the range producer in pull mode and "
                  "returns its Deferred", expected=5) as r:
        for (q, secrets_from) in (("storage.http_server:_authorized_route.decorator.handle_route", None),
                                  ("storage.http_server:_authorization_decorator.decorator.route", "_extract_secrets")):
            f = idx.func(q)
            fc = f.cfg()
            fnm = FlowNorm(f)
            hparam = f.parent.params[0] if f.parent is not None and f.parent.params else None
            if hparam is None:
                raise AnchorVanished("%s: wrapped handler parameter" % q)
            r.site(f, None, "wrapper returns handler result")
            rets = fc.find(is_return)
            r.require(bool(rets), f, f.loc(), "%s never returns the handler's result" % short(f))
            va = f.node.args.vararg.arg if f.node.args.vararg else None
            kwa = f.node.args.kwarg.arg if f.node.args.kwarg else None
            for n in rets:
                v = fnm.resolve(n, n.ast.value) if n.ast.value is not None else None
                ok = isinstance(v, ast.Call) and isinstance(v.func, ast.Name) and v.func.id == hparam
                if ok:
                    pos = [a for a in v.args if not isinstance(a, ast.Starred)]
                    ok = len(pos) == 3 and all(isinstance(a, ast.Name) for a in pos) \
                        and pos[0].id == f.params[0] and pos[1].id == f.params[1]
                    if ok and secrets_from is None:
                        ok = pos[2].id == f.params[2]
                    elif ok:
                        ds = def_exprs(f).get(pos[2].id, [])
                        ok = bool(ds) and all(isinstance(d, ast.Call) and call_tail(d) == secrets_from for d in ds)
                    ok = ok and any(isinstance(a, ast.Starred) and isinstance(a.value, ast.Name) and a.value.id == va for a in v.args) \
                        and any(k.arg is None and isinstance(k.value, ast.Name) and k.value.id == kwa for k in v.keywords)
                r.require(ok, f, f.loc(n.ast), "%s returns %s instead of %s(%s, %s, <secrets>, *%s, **%s): the handler's "
                          "body / Deferred is lost" % (short(f), src(f, n.ast.value) if n.ast.value is not None else "None",
                                                       hparam, f.params[0], f.params[1], va, kwa))
            for (t, wt) in find_path_avoiding(fc, is_exit, gate_node=is_return):
                r.violation(f, f.loc(), "%s can end without returning the handler's result (path: %s)" % (short(f), wt.brief()), wt)
            # _HTTPError must reach Klein's error handler (status 204 / 4xx) or be turned into that status here
            for h in fc.nodes:
                if h.kind == "except" and catches(h, "_HTTPError"):
                    r.site(f, h.ast, "except _HTTPError")
                    en = h.ast.name
                    sets_code = lambda m, _e=en: any(c.args and attr_path(c.args[0]) == "%s.code" % _e
                                                     for c in calls_at(m, "setResponseCode"))
                    for (t, wt) in find_path_avoiding(fc, is_exit, gate_node=sets_code, start=h):
                        r.violation(f, f.loc(h.ast), "%s catches _HTTPError and can return normally: a 204 (empty read) / 401 / "
                                    "404 raised by a handler is answered as 200 (path: %s)" % (short(f), wt.brief()), wt)
        rr = idx.func("storage.http_server:read_range")
        rcfg = rr.cfg()
        reqp = rr.params[0]
        pcls = idx.cls("storage.http_server:_ReadRangeProducer")
        pf = [f for (f, _a) in class_fields(pcls)]
        prods = [(n, c) for n in rcfg.nodes for c in node_calls(n) if call_tail(c) == "_ReadRangeProducer"]
        if not prods:
            raise AnchorVanished("read_range no longer creates _ReadRangeProducer")
        for (n, c) in prods:
            r.site(rr, c, "producer registration")
            # registered as the request's pull producer
            regs = []
            if isinstance(n.ast, ast.Assign) and len(n.ast.targets) == 1 and isinstance(n.ast.targets[0], ast.Name) and n.ast.value is c:
                pv = n.ast.targets[0].id
                regs = [(m, x) for m in rcfg.nodes for x in calls_at(m, "registerProducer")
                        if isinstance(arg(x, 0, "producer"), ast.Name) and arg(x, 0, "producer").id == pv]
            else:
                regs = [(m, x) for m in rcfg.nodes for x in calls_at(m, "registerProducer") if arg(x, 0, "producer") is c]
            regs = [(m, x) for (m, x) in regs if attr_path(x.func.value) == reqp]
            if r.require(bool(regs), rr, rr.loc(c), "the range producer is not registered as the producer of %s "
                         "(registerProducer(<producer>, False))" % reqp):
                for (m, x) in regs:
                    s = arg(x, 1, "streaming")
                    r.require(isinstance(s, ast.Constant) and not s.value, rr, rr.loc(x),
                              "_ReadRangeProducer is a pull producer but is registered with streaming=%s: resumeProducing is "
                              "never called and the read hangs" % (src(rr, s) if s is not None else "?"))
            # the Deferred the producer fires is what the handler returns
            a_res = arg(c, pf.index("result"), "result") if "result" in pf else None
            if not isinstance(a_res, ast.Name):
                raise AnchorVanished("_ReadRangeProducer(result=<name>)")
            vis, _par = explore(rcfg, 0, lambda a, lb, nx, st: None if (lb == "exc" or is_return(a)) else 0, start=n)
            for (nid, _s) in sorted(vis):
                m = rcfg.nodes[nid]
                if is_return(m):
                    r.require(isinstance(m.ast.value, ast.Name) and m.ast.value.id == a_res.id, rr, rr.loc(m.ast),
                              "after registering the range producer read_range returns %s, not the Deferred %s the producer "
                              "fires when done: the response is finished before the data is written" % (
                                  src(rr, m.ast.value) if m.ast.value is not None else "None", a_res.id))
            for (t, wt) in find_path_avoiding(rcfg, is_exit, gate_node=is_return, start=n):
                r.violation(rr, rr.loc(), "read_range can end without returning the producer's Deferred (path: %s)" % wt.brief(), wt)
        crs = [(m, x) for m in rcfg.nodes for x in node_calls(m) if call_tail(x) == "ContentRange"]
        r.site(rr, crs[0][1] if crs else None, "Content-Range header")
        for (m, x) in crs:
            hs = [y for y in calls_at(m, "setHeader") if len(y.args) == 2 and isinstance(y.args[0], ast.Constant)
                  and str(y.args[0].value).lower() == "content-range" and any(z is x for z in ast.walk(y.args[1]))
                  and attr_path(y.func.value) == reqp]
            if not hs and isinstance(m.ast, ast.Assign) and len(m.ast.targets) == 1 and isinstance(m.ast.targets[0], ast.Name):
                hv = m.ast.targets[0].id
                hs = [y for k in rcfg.nodes for y in calls_at(k, "setHeader") if len(y.args) == 2
                      and isinstance(y.args[0], ast.Constant) and str(y.args[0].value).lower() == "content-range"
                      and hv in names_in(y.args[1]) and attr_path(y.func.value) == reqp]
            r.require(bool(hs), rr, rr.loc(x), "%s is not sent as the value of the content-range header of %s; the client "
                      "takes the chunk length from that header" % (src(rr, x), reqp))

    # ---------------------------------------------------------------- 10 ------
    with ctx.rule("C31.10", "R1", "handlers do the storage-server operation before answering success, and raise the error "
                  "statuses the adapter translates (404 lease / corrupt-share, 401 bad write enabler) exactly in those cases",
                  expected=5) as r:
        # add_or_renew_lease
        al = idx.func(HS + ".add_or_renew_lease")
        alc = al.cfg()
        aln = FlowNorm(al)
        ap = first_positional_params(al)      # request, authorization, storage_index
        backend = idx.func("storage.server:StorageServer.add_lease")
        bp = first_positional_params(backend)
        nmz = N(al)

        def lease_call(m):
            for x in calls_at(m, "add_lease"):
                if attr_path(x.func.value) != "self._storage_server":
                    continue
                got = [arg(x, i, p) for i, p in enumerate(bp[:3])]
                if all(g is not None for g in got) and [nmz.norm(g) for g in got] == [
                        norm_src(ap[2]), norm_src("%s[Secrets.LEASE_RENEW]" % ap[1]), norm_src("%s[Secrets.LEASE_CANCEL]" % ap[1])]:
                    return True
            return False
        r.site(al, None, "lease is added before 204")
        for (t, wt) in find_path_avoiding(alc, is_exit, gate_node=lease_call):
            r.violation(al, al.loc(), "add_or_renew_lease can answer success without self._storage_server.add_lease(%s, "
                        "%s[Secrets.LEASE_RENEW], %s[Secrets.LEASE_CANCEL]): the direct path adds the lease (path: %s)" % (
                            ap[2], ap[1], ap[1], wt.brief()), wt)

        def no_shares(m, lab):
            f = aln.edge_fact(m, lab)
            if not f:
                return False
            e = f[1] if f[0] == "false" else (f[2] if f[0] == "==" and f[1] == "0" else (f[1] if f[0] == "==" and f[2] == "0" else None))
            return e is not None and "self._storage_server." in e and "(%s)" % ap[2] in e
        for m in alc.nodes:
            if raise_code(m) == 404:
                for (t, wt) in find_path_avoiding(alc, lambda x, _m=m: x is _m, gate_edge=no_shares):
                    r.violation(al, al.loc(m.ast), "404 is raised although the storage index may have shares: the adapter "
                                "swallows 404, so the lease is silently not added (path: %s)" % wt.brief(), wt)
        # abort_share_upload
        ab = idx.func(HS + ".abort_share_upload")
        abc = ab.cfg()
        bparams = first_positional_params(ab)
        bdefs = def_exprs(ab)
        want_b = norm_src("self._uploads.get_write_bucket(%s, %s, %s[Secrets.UPLOAD])" % (bparams[2], bparams[3], bparams[1]))

        def aborts(m):
            for x in calls_at(m, "abort"):
                rv = x.func.value
                if isinstance(rv, ast.Name):
                    ds = bdefs.get(rv.id, [])
                    if ds and all(N(ab).norm(d) == want_b for d in ds):
                        return True
                elif N(ab).norm(rv) == want_b:
                    return True
            return False
        r.site(ab, None, "upload is aborted before 200")
        for (t, wt) in find_path_avoiding(abc, is_exit, gate_node=aborts):
            r.violation(ab, ab.loc(), "abort_share_upload can answer success without aborting the BucketWriter found by %s "
                        "(path: %s)" % (want_b, wt.brief()), wt)
        # BadWriteEnablerError -> 401 ; unknown share -> 404
        for (q, exc, code, why) in (
                (HS + ".mutable_read_test_write", "BadWriteEnablerError", 401,
                 "the adapter translates only 401 into the RemoteException the direct path raises"),
                (HS + ".advise_corrupt_share_immutable", "KeyError", 404,
                 "the adapter ignores only 404, as the direct path ignores unknown shares")):
            f = idx.func(q)
            fc = f.cfg()
            hs = [h for h in fc.nodes if h.kind == "except" and (handler_names(h) or set()) & {exc}]
            r.site(f, hs[0].ast if hs else None, "%s -> %d" % (exc, code))
            if not r.require(bool(hs), f, f.loc(), "%s does not turn %s into status %d; %s" % (short(f), exc, code, why)):
                continue
            for h in hs:
                sets_code = lambda m, _c=code: any(cd == _c for (qn, cd) in set_codes(f) if qn is m)
                vis, par = explore(fc, 0, lambda a, lb, nx, st: None if (is_raise(a) or (sets_code(a) and lb != "exc")) else 0, start=h)
                for (nid, st) in sorted(vis):
                    m = fc.nodes[nid]
                    if is_exit(m) or (is_raise(m) and raise_code(m) != code):
                        r.violation(f, f.loc(h.ast), "%s: after %s the handler %s instead of answering %d; %s (path: %s)" % (
                            short(f), exc, "returns normally" if is_exit(m) else "raises %s" % src(f, m.ast.exc) if m.ast.exc is not None
                            else "re-raises", code, why, witness(fc, par, (nid, st)).brief()), witness(fc, par, (nid, st)))
                        break
        am = idx.func(HS + ".advise_corrupt_share_mutable")
        amc = am.cfg()
        amn = FlowNorm(am)
        mpz = first_positional_params(am)
        r.site(am, None, "404 only for unknown shares")

        def absent(m, lab):
            f = amn.edge_fact(m, lab)
            return bool(f) and f[0] == "not in" and f[1] == mpz[3] and "self._storage_server." in f[2] and "(%s)" % mpz[2] in f[2]
        for m in amc.nodes:
            if raise_code(m) == 404:
                for (t, wt) in find_path_avoiding(amc, lambda x, _m=m: x is _m, gate_edge=absent):
                    r.violation(am, am.loc(m.ast), "404 is raised although the share may exist: the adapter ignores 404, so the "
                                "corruption report is silently dropped (path: %s)" % wt.brief(), wt)

    # ---------------------------------------------------------------- 11 ------
    with ctx.rule("C31.11", "R5", "adapter results: 404 (and only 404) is swallowed where the direct path is silent; "
                  "read-test-write returns (success, reads); allocate_buckets returns (already_have, writers of allocated); "
                  "the Foolscap adapter passes write vectors and new_length through unchanged", expected=5) as r:
        ad = idx.cls(ADAPTER)
        ign = idx.func("storage_client:_ignore_404")
        ic = ign.cfg()
        inn = FlowNorm(ign)
        r.site(ign, None, "404 swallowed")
        e404 = [(m, lab) for m in ic.nodes if m.kind == "test" for lab in (("T", m.ast), ("F", m.ast))
                if code_edge_pred(inn, 404)(m, lab)]
        r.require(bool(e404), ign, ign.loc(), "_ignore_404 no longer tests for status 404")
        for (m, lab) in e404:
            for (t, wt) in from_edge(ic, m, lab, lambda x: is_return(x) or is_exit(x)):
                if is_return(t) and not (t.ast.value is None or (isinstance(t.ast.value, ast.Constant) and t.ast.value.value is None)):
                    r.violation(ign, ign.loc(t.ast), "a 404 failure is passed on (%s) instead of being swallowed; the direct "
                                "path ignores corruption reports for unknown shares (path: %s)" % (src(ign, t.ast), wt.brief()), wt)
        al = ad.methods.get("add_lease")
        if al is None:
            raise AnchorVanished("%s.add_lease" % ADAPTER)
        alc = al.cfg()
        aln = FlowNorm(al)
        hs = [h for h in alc.nodes if h.kind == "except"]
        r.site(al, hs[0].ast if hs else None, "only 404 swallowed")
        for h in hs:
            for (t, wt) in find_path_avoiding(alc, is_exit, gate_edge=code_edge_pred(aln, 404), start=h):
                r.violation(al, al.loc(h.ast), "add_lease swallows an HTTP error other than 404; the direct path raises it "
                            "(path: %s)" % wt.brief(), wt)
        # read-test-write result
        tw = ad.methods.get("slot_testv_and_readv_and_writev")
        if tw is None:
            raise AnchorVanished("%s.slot_testv_and_readv_and_writev" % ADAPTER)
        twc = tw.cfg()
        twn = FlowNorm(tw)
        r.site(tw, None, "(success, reads)")
        outs = [(n, n.ast.value) for n in twc.find(is_return)] + \
               [(n, c.args[0]) for n in twc.nodes for c in calls_at(n, "returnValue") if c.args]
        r.require(bool(outs), tw, tw.loc(), "slot_testv_and_readv_and_writev returns nothing")
        twd = def_exprs(tw)
        for (n, v) in outs:
            v2 = twn.resolve(n, v) if v is not None else None
            ok = isinstance(v2, ast.Tuple) and len(v2.elts) == 2 and all(isinstance(e, ast.Attribute) and isinstance(e.value, ast.Name)
                                                                        for e in v2.elts)
            if ok:
                a, b = v2.elts
                ok = a.attr == "success" and b.attr == "reads" and a.value.id == b.value.id and any(
                    any(isinstance(x, ast.Call) and call_tail(x) == "read_test_write_chunks" for x in ast.walk(d))
                    for d in twd.get(a.value.id, []))
            r.require(ok, tw, tw.loc(n.ast), "the HTTP read-test-write returns %s; the direct path returns (success, "
                      "{share: [data..]}) = (<result>.success, <result>.reads)" % (src(tw, v) if v is not None else "None"))
        for (t, wt) in find_path_avoiding(twc, is_exit, gate_node=lambda m: is_return(m) or bool(calls_at(m, "returnValue"))):
            r.violation(tw, tw.loc(), "slot_testv_and_readv_and_writev can end without a result (path: %s)" % wt.brief(), wt)
        # allocate_buckets result
        abm = ad.methods.get("allocate_buckets")
        if abm is None:
            raise AnchorVanished("%s.allocate_buckets" % ADAPTER)
        abn = FlowNorm(abm)
        r.site(abm, None, "(already_have, {allocated: writer})")
        outs = [(n, n.ast.value) for n in abm.cfg().find(is_return) if n.ast.value is not None] + \
               [(n, c.args[0]) for n in abm.cfg().nodes for c in calls_at(n, "returnValue") if c.args]
        r.require(bool(outs), abm, abm.loc(), "allocate_buckets returns nothing")
        for (n, v) in outs:
            v2 = abn.resolve(n, v)
            ok = isinstance(v2, ast.Tuple) and len(v2.elts) == 2 and isinstance(v2.elts[0], ast.Attribute) \
                and v2.elts[0].attr == "already_have"
            if ok:
                d2 = abn.resolve(n, v2.elts[1])
                ok = isinstance(d2, ast.DictComp) and len(d2.generators) == 1 and isinstance(d2.generators[0].iter, ast.Attribute) \
                    and d2.generators[0].iter.attr == "allocated" \
                    and attr_path(d2.generators[0].iter.value) == attr_path(v2.elts[0].value) \
                    and isinstance(d2.key, ast.Name) and isinstance(d2.generators[0].target, ast.Name) \
                    and d2.key.id == d2.generators[0].target.id
                if ok:
                    bw = [x for x in ast.walk(d2.value) if isinstance(x, ast.Call) and call_tail(x) == "_HTTPBucketWriter"]
                    sn = (kwarg(bw[0], "share_number") or arg(bw[0], 2)) if bw else None
                    ok = isinstance(sn, ast.Name) and sn.id == d2.key.id
            r.require(ok, abm, abm.loc(n.ast), "allocate_buckets returns %s; the direct path returns (already_have, {n: writer of "
                      "share n for n in allocated})" % src(abm, v))
        # Foolscap adapter: identity on write vectors / new_length
        fool = idx.func("storage_client:_StorageServer.slot_testv_and_readv_and_writev")
        r.site(fool, None, "direct path passes (testv, writev, new_length)")
        dcs = [x for x in ast.walk(fool.node) if isinstance(x, ast.DictComp) and isinstance(x.value, ast.Tuple)]
        if not dcs:
            raise AnchorVanished("wire_format_tw_vectors comprehension in %s" % fool.qual)
        for dc in dcs:
            tg = dc.generators[0].target
            ok = isinstance(tg, ast.Tuple) and len(tg.elts) == 2 and all(isinstance(e, ast.Name) for e in tg.elts) \
                and isinstance(dc.key, ast.Name) and dc.key.id == tg.elts[0].id and len(dc.value.elts) == 3
            if ok:
                vname = tg.elts[1].id

                def sub_i(e, _v=vname):
                    if isinstance(e, ast.Subscript) and isinstance(e.value, ast.Name) and e.value.id == _v \
                            and isinstance(e.slice, ast.Constant):
                        return e.slice.value
                    return None
                e0, e1, e2 = dc.value.elts
                src0 = sub_i(e0.generators[0].iter) if isinstance(e0, ast.ListComp) and len(e0.generators) == 1 else sub_i(e0)
                ok = src0 == 0 and sub_i(e1) == 1 and sub_i(e2) == 2
            r.require(ok, fool, fool.loc(dc), "the Foolscap adapter sends %s per share; the HTTP path was compared against "
                      "(tests of value[0], value[1], value[2])" % src(fool, dc.value))

    # ---------------------------------------------------------------- 12 ------
    with ctx.rule("C31.12", "R5", "the share length the HTTP read handlers clip Range reads with is the end-of-data bound the "
                  "direct read truncates with: ShareFile.get_length() == the bound of read_share_data (as polynomials over "
                  "what __init__ stores), BucketReader delegates both to one share file, MutableShareFile.get_length and "
                  "_read_share_data use the same length source, get_mutable_share_length asks the share (si, shnum)",
                  expected=4) as r:
        immutable_length_agreement(idx, r)
        bucket_reader_delegation(idx, r)
        mutable_length_agreement(idx, r)

    # ---------------------------------------------------------------- 13 ------
    with ctx.rule("C31.13", "R1", "UploadsInProgress: an in-progress share upload stays reachable for the HTTP handlers until "
                  "its own BucketWriter is removed - a storage-index entry leaves _uploads only when it has no shares left, "
                  "remove_write_bucket drops only the closing writer's share, the registering method(s) (found by role, per-share "
                  "or batched) record every writer and never replace an existing entry with a fresh one, get_write_bucket "
                  "looks up (storage_index, share_number), allocate_buckets registers every allocated writer", expected=5) as r:
        uploads_tracking(idx, r)

    # ---------------------------------------------------------------- 14 / 15 -
    ops = secret_operations(idx, cli, s_tab)
    with ctx.rule("C31.14", "R1/R5", "every path of a route handler that answers successfully reaches the StorageServer entry "
                  "point the direct (Foolscap remote_*) operation uses, with the request's secrets in the parameters the direct "
                  "path fills; no path answers from a backend call that skips the secret checks (table route -> operation "
                  "derived from the two adapters, remote_* and the routes)", expected=3) as r:
        handlers_reach_direct_operation(idx, r, ops)
    with ctx.rule("C31.15", "R1", "every normal return of an _HTTPStorageServer method that takes secrets has made the HTTP "
                  "request that carries them (no answer assembled from secret-less requests)", expected=3) as r:
        adapters_send_secrets(idx, r, ops)

    # ---------------------------------------------------------------- 16 ------
    with ctx.rule("C31.16", "R1", "write_share_data: every piece of the request body reaches <bucket>.write (the consumer of "
                  "the chunk iterator is exhaustive, no write sits in a short-circuited position) and the completion flag "
                  "is the result of the LAST write or the eagerly evaluated or of all of them", expected=2) as r:
        every_chunk_is_written(idx, r)


def fmt(keys):
    return "{" + ", ".join(sorted(("b" if k == "b" else "") + repr(v) for (k, v) in keys if (k, v) is not None)) + "}" \
        if keys else "{}"


def sends_header(req, name):
    h = kwarg(req.call, "headers")
    if h is None:
        return False
    for x in own_nodes(h):
        if isinstance(x, ast.Dict):
            for k in x.keys:
                if isinstance(k, ast.Constant) and isinstance(k.value, str) and k.value.lower() == name:
                    return True
    return False


def edge_must_pass(cfg, n, lab, gate):
    """Paths leaving (n, lab) that reach the normal exit without a gate node -> [(state, Witness)]."""
    out = []
    for (d, l) in cfg.succ[n.id]:
        if not C._lbl_eq(l, lab):
            continue

        def tr(a, lb, nx, st):
            if lb == "exc" or gate(a):
                return None
            return 0
        if gate(cfg.nodes[d]):
            continue
        vis, par = explore(cfg, 0, tr, start=cfg.nodes[d])
        for (nid, st) in sorted(vis):
            if cfg.nodes[nid].kind == "exit":
                out.append((st, witness(cfg, par, (nid, st))))
                break
    return out


class Tracer:
    """Follow a value of an adapter method positionally through http_client wrappers to the keyword of .request()."""

    def __init__(self, idx):
        self.idx = idx
        self.cm = idx.module(CLI)

    def callee(self, fn, call):
        """Resolve a call to a function/method of http_client by method name (client classes are small and distinct)."""
        t = call_tail(call)
        if isinstance(call.func, ast.Attribute):
            recv = attr_path(call.func.value)
            if recv == "self" and fn.cls is not None and t in fn.cls.methods:
                return fn.cls.methods[t]
            cands = [ci.methods[t] for ci in self.cm.classes.values() if t in ci.methods and ci.name.startswith("StorageClient")]
            # disambiguate by the constructor that produced the receiver, when visible
            if len(cands) > 1 and recv is not None:
                ds = def_exprs(fn).get(recv, [])
                names = {call_tail(d) for d in ds if isinstance(d, ast.Call)}
                c2 = [c for c in cands if c.cls.name in names]
                if c2:
                    cands = c2
            return cands[0] if len(cands) == 1 else None
        if isinstance(call.func, ast.Name) and t in self.cm.funcs:
            return self.cm.funcs[t]
        return None

    def carriers(self, fn, source, depth=6):
        """The calls of fn that hand `source` (parameter name or 'param[i]') on - directly or through http_client
        wrappers - to a parameter of <client>.request(..) -> [(node, call, {request parameter..}, [(client fn, request
        call)..])]."""
        fnorm = FlowNorm(fn)
        out = []
        if depth < 0:
            return out
        for n in fn.cfg().nodes:
            for c in node_calls(n, into_lambda=True):
                hits = []
                for i, a in enumerate(c.args):
                    if isinstance(a, ast.Starred):
                        break
                    if self.same(fnorm, n, a, source):
                        hits.append((i, None))
                for k in c.keywords:
                    if k.arg and self.same(fnorm, n, k.value, source):
                        hits.append((None, k.arg))
                if not hits:
                    continue
                kws, reqs = set(), []
                if call_tail(c) == "request" and isinstance(c.func, ast.Attribute) \
                        and attr_path(c.func.value) in ("self._client", "client"):
                    rq = self.idx.func("storage.http_client:StorageClient.request")
                    ps = first_positional_params(rq)
                    for (i, kw) in hits:
                        kws.add(kw if kw is not None else (ps[i] if i < len(ps) else "?"))
                    reqs.append((fn, c))
                else:
                    tgt = self.callee(fn, c)
                    if tgt is None:
                        continue
                    ps = first_positional_params(tgt) if tgt.cls is not None else tgt.params
                    for (i, kw) in hits:
                        p = kw if kw is not None else (ps[i] if i < len(ps) else None)
                        if p is not None and p in ps:
                            for (_n, _c, k2, r2) in self.carriers(tgt, p, depth - 1):
                                kws |= k2
                                reqs += r2
                if kws:
                    out.append((n, c, kws, reqs))
        return out

    def trace(self, fn, source, depth=6):
        """source: parameter name or 'param[i]' -> the request(..) parameters it reaches."""
        out = set()
        for (_n, _c, kws, _r) in self.carriers(fn, source, depth):
            out |= kws
        return out

    @staticmethod
    def same(fnorm, n, a, source):
        if isinstance(a, ast.Name) and a.id == source:
            return True
        if "[" in source:
            try:
                return fnorm.norm(n, a) == source and not isinstance(a, ast.Constant)
            except Exception:
                return False
        return False


class VectorMaps:
    """Index maps of the test/write/read vectors through client marshalling and server unmarshalling."""

    def __init__(self, idx, adapter_fn, server_fn, foolscap_fn, r):
        self.idx, self.a, self.s, self.f, self.r = idx, adapter_fn, server_fn, foolscap_fn, r
        self.cm = idx.module(CLI)

    # client: comprehension  Cls(field=name, ..) for (names..) in X   ->  {index: wire key}
    def client_map(self, clsname):
        ci = self.cm.classes.get(clsname)
        if ci is None:
            raise AnchorVanished("http_client.%s" % clsname)
        _keys, rename = wire_keys_of_class(self.idx, ci)
        for n in ast.walk(self.a.node):
            if isinstance(n, (ast.ListComp, ast.GeneratorExp)) and isinstance(n.elt, ast.Call) and call_tail(n.elt) == clsname:
                tgt = n.generators[0].target
                names = [t.id if isinstance(t, ast.Name) else None for t in tgt.elts] if isinstance(tgt, ast.Tuple) else []
                fields = [f for (f, _a) in class_fields(ci)]
                out = {}
                for i, a in enumerate(n.elt.args):
                    if isinstance(a, ast.Name) and a.id in names and i < len(fields):
                        out[names.index(a.id)] = rename[fields[i]]
                for k in n.elt.keywords:
                    if isinstance(k.value, ast.Name) and k.value.id in names and k.arg in rename:
                        out[names.index(k.value.id)] = rename[k.arg]
                return out, len(names)
        raise AnchorVanished("%s(..) comprehension in %s" % (clsname, self.a.qual))

    # server: [( d["k0"], d["k1"], const, ..) for d in X["key"]]  ->  (source key, {wire key: index}, {index: const})
    def server_maps(self):
        out = {}
        for n in ast.walk(self.s.node):
            if isinstance(n, ast.ListComp) and isinstance(n.elt, ast.Tuple) and len(n.generators) == 1 \
                    and isinstance(n.generators[0].target, ast.Name):
                var = n.generators[0].target.id
                it = n.generators[0].iter
                srckey = it.slice.value if isinstance(it, ast.Subscript) and isinstance(it.slice, ast.Constant) else None
                km, consts = {}, {}
                for j, e in enumerate(n.elt.elts):
                    if isinstance(e, ast.Subscript) and isinstance(e.value, ast.Name) and e.value.id == var \
                            and isinstance(e.slice, ast.Constant):
                        km[e.slice.value] = j
                    elif isinstance(e, ast.Constant):
                        consts[j] = e.value
                out[srckey] = (km, consts, len(n.elt.elts), n)
        return out

    def foolscap_test_map(self):
        for n in ast.walk(self.f.node):
            if isinstance(n, ast.ListComp) and isinstance(n.elt, ast.Tuple) and isinstance(n.generators[0].target, ast.Tuple):
                names = [t.id for t in n.generators[0].target.elts if isinstance(t, ast.Name)]
                m, consts = {}, {}
                for j, e in enumerate(n.elt.elts):
                    if isinstance(e, ast.Name) and e.id in names:
                        m[names.index(e.id)] = j
                    elif isinstance(e, ast.Constant):
                        consts[j] = e.value
                return m, consts, len(n.elt.elts)
        raise AnchorVanished("test-vector comprehension in %s" % self.f.qual)

    def check(self):
        r, a, s = self.r, self.a, self.s
        smaps = self.server_maps()
        fm, fconsts, flen = self.foolscap_test_map()
        for (clsname, key, expect, econsts, elen) in (
                ("TestVector", "test", fm, fconsts, flen),
                ("WriteVector", "write", {0: 0, 1: 1}, {}, 2),
                ("ReadVector", "read-vector", {0: 0, 1: 1}, {}, 2)):
            cmap, n_in = self.client_map(clsname)
            if key not in smaps:
                r.violation(s, s.loc(), "the handler does not rebuild the %r vectors as tuples" % key)
                continue
            km, consts, ln, node = smaps[key]
            composed = {i: km.get(k) for i, k in cmap.items()}
            r.require(composed == expect and consts == econsts and ln == elen and n_in == len(expect), s, s.loc(node),
                      "%s vectors: element i of the caller's tuple arrives at index %s of a %d-tuple with constants %s on the "
                      "HTTP path; the direct path gives %s / %d / %s" % (key, composed, ln, consts, expect, elen, econsts))
        # (test, write, new_length) triple
        ci = self.cm.classes.get("TestWriteVectors")
        if ci is None:
            raise AnchorVanished("http_client.TestWriteVectors")
        _k, rename = wire_keys_of_class(self.idx, ci)
        an = FlowNorm(a)
        trip = None
        for n in a.cfg().nodes:
            if n.kind == "iter" and isinstance(n.ast.target, ast.Tuple) and len(n.ast.target.elts) == 2 \
                    and isinstance(n.ast.target.elts[1], ast.Tuple):
                trip = [t.id for t in n.ast.target.elts[1].elts if isinstance(t, ast.Name)]
        if trip is None or len(trip) != 3:
            raise AnchorVanished("(test, write, new_length) unpacking in %s" % a.qual)
        cons = [(n, c) for n in a.cfg().nodes for c in calls_at(n, "TestWriteVectors")]
        if not cons:
            raise AnchorVanished("TestWriteVectors(..) in %s" % a.qual)
        defs = def_exprs(a)
        cmap = {}
        for (n, c) in cons:
            for k in c.keywords:
                val = an.resolve(n, k.value)
                src_names = set(leaves(val))
                if isinstance(val, ast.Name):
                    for d in defs.get(val.id, []):
                        src_names |= leaves(d)
                hit = [i for i, t in enumerate(trip) if t in src_names]
                if len(hit) == 1 and k.arg in rename:
                    cmap[hit[0]] = rename[k.arg]
        # server triple: value tuple of the dict comprehension
        striple = None
        for n in ast.walk(s.node):
            if isinstance(n, ast.DictComp) and isinstance(n.value, ast.Tuple) and len(n.value.elts) == 3:
                striple = n
        if striple is None:
            r.violation(s, s.loc(), "the handler does not rebuild (test, write, new_length) triples")
            return
        skeys = {}
        for j, e in enumerate(striple.value.elts):
            for x in ast.walk(e):
                if isinstance(x, ast.Subscript) and isinstance(x.slice, ast.Constant) and isinstance(x.value, ast.Name) \
                        and isinstance(striple.generators[0].target, ast.Tuple) \
                        and x.value.id == striple.generators[0].target.elts[1].id:
                    skeys[x.slice.value] = j
        composed = {i: skeys.get(k) for i, k in cmap.items()}
        r.require(composed == {0: 0, 1: 1, 2: 2}, s, s.loc(striple), "(test, write, new_length): element i of the caller's "
                  "triple arrives at index %s on the HTTP path (client keys %s, server keys %s)" % (composed, cmap, skeys))
        # share number keys pass through unchanged on both sides
        kk = striple.key
        tk = striple.generators[0].target.elts[0] if isinstance(striple.generators[0].target, ast.Tuple) else None
        r.require(isinstance(kk, ast.Name) and isinstance(tk, ast.Name) and kk.id == tk.id, s, s.loc(striple),
                  "share numbers are re-keyed by %s" % src(s, kk))


# ------------------------------------------------------------------ helpers of the gap-review rules (C31.7 ..)
def is_exit(n):
    return n.kind == "exit"


def success_edge_pred(fnorm):
    """Gate edge: `<x>.code == <2xx>` holds."""
    def g(n, lab):
        f = fnorm.edge_fact(n, lab)
        if not (f and f[0] == "=="):
            return False
        for a, b in ((f[1], f[2]), (f[2], f[1])):
            c = code_of_form(a)
            if b.endswith(".code") and c is not None and 200 <= c < 300:
                return True
        return False
    return g


def code_edge_pred(fnorm, code):
    def g(n, lab):
        f = fnorm.edge_fact(n, lab)
        if not (f and f[0] == "=="):
            return False
        return (f[2].endswith(".code") and code_of_form(f[1]) == code) or (f[1].endswith(".code") and code_of_form(f[2]) == code)
    return g


def from_edge(cfg, n, lab, ends, gate=lambda m: False, gate_edge=None, follow_exc=False):
    """Paths that leave n by the edge `lab` and reach a node satisfying `ends` without passing a gate node / gate edge
    -> [(end node, Witness)]."""
    out = []
    for (d, l) in cfg.succ[n.id]:
        if not C._lbl_eq(l, lab):
            continue
        first = cfg.nodes[d]

        def tr(a, lb, nx, st):
            if lb == "exc" and not follow_exc:
                return None
            if gate(a) and lb != "exc":
                return None
            if gate_edge is not None and gate_edge(a, lb):
                return None
            return 0
        vis, par = explore(cfg, 0, tr, start=first)
        for (nid, st) in sorted(vis):
            m = cfg.nodes[nid]
            if ends(m) and not (gate(m) and not is_exit(m)):
                out.append((m, witness(cfg, par, (nid, st))))
    return out


def handler_names(n):
    """Names of the exception classes an `except` node catches (None = bare except)."""
    t = n.ast.type
    if t is None:
        return None
    elts = t.elts if isinstance(t, ast.Tuple) else [t]
    return {e.id if isinstance(e, ast.Name) else (e.attr if isinstance(e, ast.Attribute) else "?") for e in elts}


def catches(n, name):
    hn = handler_names(n)
    return hn is None or bool(hn & {name, "Exception", "BaseException"})


def step_of(fn, n, var):
    """(sign, normal form of the amount) when node n is `var += e` / `var -= e` / `var = var +- e`; else None."""
    a = n.ast
    if n.kind != "stmt":
        return None
    nm = N(fn)
    if isinstance(a, ast.AugAssign) and isinstance(a.target, ast.Name) and a.target.id == var \
            and isinstance(a.op, (ast.Add, ast.Sub)):
        return ("+" if isinstance(a.op, ast.Add) else "-", nm.norm(a.value))
    if isinstance(a, ast.Assign) and len(a.targets) == 1 and isinstance(a.targets[0], ast.Name) and a.targets[0].id == var \
            and isinstance(a.value, ast.BinOp) and isinstance(a.value.op, (ast.Add, ast.Sub)):
        l, rr = a.value.left, a.value.right
        if isinstance(l, ast.Name) and l.id == var:
            return ("+" if isinstance(a.value.op, ast.Add) else "-", nm.norm(rr))
        if isinstance(rr, ast.Name) and rr.id == var and isinstance(a.value.op, ast.Add):
            return ("+", nm.norm(l))
    return None


# ------------------------------------------------------------------ the write pipeline of write_share_data (C31.3 / .7 / .16)
def _is_neg1(e):
    return (isinstance(e, ast.UnaryOp) and isinstance(e.op, ast.USub) and isinstance(e.operand, ast.Constant)
            and e.operand.value == 1) or (isinstance(e, ast.Constant) and e.value == -1 and not isinstance(e.value, bool))


class IterShape:
    """The chunks come from an iterator: `<consumer> for <target> in <call of generator gen>` feeds <bucket>.write."""

    def __init__(self, consumer, target, call, gen, wcall):
        self.consumer, self.target, self.call, self.gen, self.wcall = consumer, target, call, gen, wcall


class WritePipe:
    """How write_share_data moves the request body into <bucket>.write(..) and derives the completion flag.

    classify(expr) -> (kind, node, message):
      'last'      the result of the last write (a direct `<bucket>.write(..)` call, `<eager results>[-1]`)
      'or'        the eager or of all write results (any([..]), max(..), sum(..), `True in [..]`, `w(..) or flag`, `flag |= w(..)`)
      'seq-eager' / 'seq-lazy'  the sequence of write results, materialised / produced on demand
      'bad'       derived from the writes in a way that skips chunks or is not the last result (message says how)
      None        not derived from the writes / not understood."""

    def __init__(self, idx, w):
        self.idx, self.w = idx, w
        self.reqp = first_positional_params(w)[0]
        self.defs = def_exprs(w)
        self.parents = {}
        for p in ast.walk(w.node):
            for c in ast.iter_child_nodes(p):
                self.parents[id(c)] = p
        self.writes = [c for c in func_own_nodes(w) if self.is_write(c)]
        self.fin_names = set()
        self.fin_defs = []          # (name, def expr, kind, node, msg)
        for nm, ds in self.defs.items():
            for d in ds:
                k, node, msg = self.classify(d)
                if k in ("last", "or", "bad"):
                    self.fin_names.add(nm)
                    self.fin_defs.append((nm, d, k, node, msg))
        self.undecided = [(nm, d) for nm, ds in self.defs.items() for d in ds
                          if nm not in self.fin_names and "." not in nm and self.classify(d)[0] is None
                          and any(self.is_write(x) for x in ast.walk(d))]
        self.iter = self._iter_shape()

    # -- recognisers
    def is_write(self, c):
        if not (isinstance(c, ast.Call) and call_tail(c) == "write" and isinstance(c.func, ast.Attribute)):
            return False
        rp = attr_path(c.func.value)
        return rp is not None and rp != self.reqp and not rp.startswith(self.reqp + ".")

    def _elt_is_write(self, e):
        if isinstance(e, ast.Call) and isinstance(e.func, ast.Name) and e.func.id == "bool" and len(e.args) == 1:
            e = e.args[0]
        return self.is_write(e)

    def classify(self, e, depth=0):
        none = (None, e, "")
        if e is None or depth > 8:
            return none
        if isinstance(e, ast.Name):
            ds = self.defs.get(e.id, [])
            if len(ds) == 1 and e.id not in self.w.params:
                return self.classify(ds[0], depth + 1)
            return none
        if self.is_write(e):
            return ("last", e, "")
        if isinstance(e, (ast.ListComp, ast.SetComp, ast.GeneratorExp)):
            lazy = isinstance(e, ast.GeneratorExp)
            if self._elt_is_write(e.elt):
                return ("seq-lazy" if lazy else "seq-eager", e, "")
            if len(e.generators) == 1 and isinstance(e.elt, ast.Name) and isinstance(e.generators[0].target, ast.Name) \
                    and e.elt.id == e.generators[0].target.id and not e.generators[0].ifs:
                k, n, m = self.classify(e.generators[0].iter, depth + 1)
                if k in ("seq-eager", "seq-lazy"):
                    return (k if lazy else "seq-eager", n, m)
                if k == "bad":
                    return (k, n, m)
            return none
        if isinstance(e, ast.Call) and isinstance(e.func, ast.Name) and e.args:
            f = e.func.id
            k, n, m = self.classify(e.args[0], depth + 1)
            if k == "bad":
                return (k, n, m)
            if f == "bool" and k in ("last", "or"):
                return (k, n, m)
            if k not in ("seq-eager", "seq-lazy"):
                return none
            what = src(self.w, e.func) + "(..)"
            if f in ("list", "tuple"):
                return ("seq-eager", n, m)
            if f == "iter":
                return ("seq-lazy", n, m)
            if f == "any":
                if k == "seq-eager":
                    return ("or", n, m)
                return ("bad", e, "any() over a generator whose elements perform the writes short-circuits: once one piece "
                        "reports the share complete the remaining pieces of the request body are never read, conflict-checked "
                        "or written")
            if f == "all":
                return ("bad", e, "all() over the write results %s: completion needs only the LAST write to report it" % (
                    "stops consuming the body at the first piece that leaves the share incomplete, so the remaining pieces "
                    "are never written" if k == "seq-lazy" else "is false whenever an earlier piece left the share incomplete"))
            if f == "next":
                return ("bad", e, "next() takes only the first write: the remaining pieces of the body are never written")
            if f == "min":
                return ("bad", e, "min() of the write results is the and of all of them, not the result of the last write")
            if f in ("max", "sum"):
                return ("or", n, m)
            return none
        if isinstance(e, ast.Subscript):
            k, n, m = self.classify(e.value, depth + 1)
            if k == "bad":
                return (k, n, m)
            if k == "seq-eager":
                if _is_neg1(e.slice):
                    return ("last", n, m)
                return ("bad", e, "the completion flag is element [%s] of the write results, not the result of the last write" % (
                    src(self.w, e.slice)))
            return none
        if isinstance(e, ast.Compare) and len(e.ops) == 1 and isinstance(e.ops[0], ast.In) \
                and isinstance(e.left, ast.Constant) and e.left.value is True:
            k, n, m = self.classify(e.comparators[0], depth + 1)
            if k == "seq-eager" or k == "bad":
                return ("or" if k == "seq-eager" else k, n, m)
            if k == "seq-lazy":
                return ("bad", e, "`True in <generator>` stops consuming at the first write that reports completion: the "
                        "remaining pieces of the request body are never written")
            return none
        if isinstance(e, ast.BoolOp):
            ks = [self.classify(v, depth + 1) for v in e.values]
            for i, v in enumerate(e.values):
                if i > 0 and any(self.is_write(x) for x in ast.walk(v)):
                    return ("bad", e, "<bucket>.write(..) is the right operand of `%s`: it is skipped when %s, so a piece of "
                            "the body is never written" % ("or" if isinstance(e.op, ast.Or) else "and", src(self.w, e.values[0])))
            if ks[0][0] == "bad":
                return ks[0]
            if isinstance(e.op, ast.Or) and ks[0][0] in ("last", "or") and all(
                    isinstance(v, ast.Name) or (isinstance(v, ast.Constant) and v.value is False) for v in e.values[1:]):
                return ("or", ks[0][1], "")
            if isinstance(e.op, ast.And) and len(e.values) == 2 and ks[0][0] == "seq-eager" and ks[1][0] in ("last", "bad"):
                return ks[1]
            return none
        if isinstance(e, ast.IfExp):
            kt, kb = self.classify(e.test, depth + 1), self.classify(e.body, depth + 1)
            if any(self.is_write(x) for x in ast.walk(e.body)) or any(self.is_write(x) for x in ast.walk(e.orelse)):
                return ("bad", e, "<bucket>.write(..) is evaluated only when %s: a piece of the body can be skipped" % src(self.w, e.test))
            if kt[0] == "seq-eager" and kb[0] in ("last", "bad") and isinstance(e.orelse, ast.Constant) and e.orelse.value is False:
                return kb
            return none
        if isinstance(e, ast.BinOp) and isinstance(e.op, ast.BitOr):
            for a, b in ((e.left, e.right), (e.right, e.left)):
                k, n, m = self.classify(a, depth + 1)
                if k in ("last", "or", "bad") and (isinstance(b, ast.Name) or self.classify(b, depth + 1)[0] in ("last", "or")):
                    return ("or" if k != "bad" else k, n, m)
            return none
        return none

    def is_fin_expr(self, e):
        """A tested expression that is the completion flag: a name holding it, or the reduction itself."""
        if isinstance(e, ast.Name):
            return e.id in self.fin_names
        return self.classify(e)[0] in ("last", "or", "bad") and not self.is_write(e)

    # -- the iterator shape
    def _enclosing(self, c):
        """Innermost loop-like construct around the call: ('comp', comprehension node) | ('for', For) | ('while', While) | None."""
        x = c
        while id(x) in self.parents:
            p = self.parents[id(x)]
            if isinstance(p, (ast.ListComp, ast.SetComp, ast.GeneratorExp, ast.DictComp)):
                return ("comp", p, x)
            if isinstance(p, (ast.For, ast.AsyncFor)) and x is not p.iter:
                return ("for", p, x)
            if isinstance(p, ast.While):
                return ("while", p, x)
            if p is self.w.node:
                return None
            x = p
        return None

    def _iter_shape(self):
        shapes = []
        for c in self.writes:
            enc = self._enclosing(c)
            if enc is None or enc[0] == "while":
                continue
            kind, node, child = enc
            if kind == "comp":
                if isinstance(node, ast.DictComp) or not self._elt_is_write(node.elt) or child is not node.elt:
                    raise AnalysisError("write_share_data: <bucket>.write(..) inside %s is not the element of a list / set / "
                                        "generator comprehension - not decided" % src(self.w, node))
                if len(node.generators) != 1 or node.generators[0].ifs or node.generators[0].is_async:
                    raise AnalysisError("write_share_data: the comprehension around <bucket>.write(..) filters or nests its "
                                        "chunks (%s) - whether every chunk is written is not decided" % src(self.w, node))
                target, it = node.generators[0].target, node.generators[0].iter
            else:
                target, it = node.target, node.iter
            if isinstance(it, ast.Name) and len(self.defs.get(it.id, [])) == 1:
                it = self.defs[it.id][0]
            gens = get_callgraph(self.idx).resolve(self.w, it) if isinstance(it, ast.Call) else []
            gens = [g for g in gens if any(isinstance(x, (ast.Yield, ast.YieldFrom)) for x in func_own_nodes(g))]
            if len(gens) != 1:
                raise AnalysisError("write_share_data: the chunks written by %s come from %s, which is not a call of one "
                                    "generator function of the package - not decided" % (src(self.w, c), src(self.w, it)))
            shapes.append(IterShape(node, target, it, gens[0], c))
        if shapes and len(shapes) != len(self.writes):
            raise AnalysisError("write_share_data mixes an iterator-fed <bucket>.write with a loop-fed one - not decided")
        if len(shapes) > 1:
            raise AnalysisError("write_share_data has several iterator-fed <bucket>.write calls - not decided")
        return shapes[0] if shapes else None


def write_finished_edges(pipe):
    """write_share_data: predicate (n, lab) -> polarity (True/False) of the `finished` test edge, or None."""

    def pol(n, lab):
        if n.kind != "test" or not isinstance(lab, tuple):
            return None
        e, p = n.ast, True
        while isinstance(e, ast.UnaryOp) and isinstance(e.op, ast.Not):
            e, p = e.operand, not p
        if isinstance(e, ast.Compare) and len(e.ops) == 1 and isinstance(e.ops[0], (ast.Is, ast.Eq)) \
                and isinstance(e.comparators[0], ast.Constant) and e.comparators[0].value in (True, False):
            p = p if e.comparators[0].value else not p
            e = e.left
        if pipe.is_fin_expr(e):
            return (lab[0] == "T") == p
        return None
    return pol


def strip_or_zero(fn, v):
    """`X or 0` / `X if X is not None else 0` -> X (a missing range start means 0); anything else unchanged."""
    is0 = lambda e: isinstance(e, ast.Constant) and e.value == 0 and not isinstance(e.value, bool)
    if isinstance(v, ast.BoolOp) and isinstance(v.op, ast.Or) and len(v.values) == 2 and is0(v.values[1]):
        return v.values[0]
    if isinstance(v, ast.IfExp):
        tf = N(fn).cmp(v.test, True)
        for (val, other, ops) in ((v.body, v.orelse, ("is not", "truth")), (v.orelse, v.body, ("is", "false"))):
            if is0(other) and tf[0] in ops and N(fn).norm(val) in (tf[1], tf[2]):
                return val
    return v


def chunk_iterator_write(idx, r, w, wn, wcfg, pipe, fin_tests):
    """C31.7 for the iterator shape: the generator yields exactly the pieces of [start, stop) read from the request body,
    the consumer hands each (offset, data) pair to <bucket>.write unchanged."""
    it = pipe.iter
    G, c = it.gen, it.wcall
    reqp = pipe.reqp
    gcfg, gn = G.cfg(), FlowNorm(G)
    gparams = first_positional_params(G)
    wnode = [n for n in wcfg.nodes if any(x is c for x in node_calls(n))]
    if not wnode:
        raise AnalysisError("write call not in the CFG of write_share_data")
    wnode = wnode[0]
    bind = {p: arg(it.call, i, p) for i, p in enumerate(gparams)}
    stored_in_g = set()
    for m in gcfg.nodes:
        stored_in_g |= set(node_stores(m))

    def bound_form(e):
        """normal form, in terms of write_share_data, of a parameter-rooted path of the generator."""
        p = attr_path(e)
        if p is None:
            return None
        head, _, rest = p.partition(".")
        if head not in bind or bind[head] is None or head in stored_in_g:
            return None
        return wn.norm(wnode, bind[head]) + ("." + rest if rest else "")

    r.site(w, c, "bucket.write(offset, data) fed by %s" % short(G))
    # -- the yields and the roles of their components
    yields = []
    for m in gcfg.nodes:
        if m.kind != "stmt" or isinstance(m.ast, (ast.FunctionDef, ast.AsyncFunctionDef, ast.ClassDef)):
            continue
        for y in ast.walk(m.ast):
            if isinstance(y, ast.YieldFrom):
                raise AnalysisError("%s delegates with `yield from` - not decided" % short(G))
            if isinstance(y, ast.Yield):
                yields.append((m, y))
    if not yields:
        raise AnchorVanished("%s yields nothing" % short(G))
    tg = it.target
    if not (isinstance(tg, ast.Tuple) and len(tg.elts) == 2 and all(isinstance(x, ast.Name) for x in tg.elts)):
        raise AnalysisError("write_share_data: the chunk iterator is consumed as %s, not as an (offset, data) pair" % src(w, tg))
    gdefs = def_exprs(G)

    def is_body_read(d):
        return isinstance(d, ast.Call) and call_tail(d) == "read" and isinstance(d.func, ast.Attribute) \
            and bound_form(d.func.value) == reqp + ".content"
    roles = None
    for (m, y) in yields:
        v = y.value
        if not (isinstance(v, ast.Tuple) and len(v.elts) == 2 and all(isinstance(x, ast.Name) for x in v.elts)):
            raise AnalysisError("%s yields %s, not a pair of variables - not decided" % (short(G), src(G, v) if v is not None else "None"))
        dpos = [i for i, x in enumerate(v.elts) if gdefs.get(x.id) and all(is_body_read(d) for d in gdefs[x.id])]
        if len(dpos) != 1:
            r.violation(G, G.loc(y), "%s yields %s: %s of its components is what was read from %s.content" % (
                short(G), src(G, v), "neither" if not dpos else "each", reqp))
            return
        ro = (v.elts[1 - dpos[0]].id, v.elts[dpos[0]].id, dpos[0])
        if roles is not None and ro != roles:
            raise AnalysisError("%s yields pairs of different shapes - not decided" % short(G))
        roles = ro
    offv, datav, dpos = roles
    a_off, a_data = arg(c, 0, "offset"), arg(c, 1, "data")
    want_off, want_data = tg.elts[1 - dpos].id, tg.elts[dpos].id
    if not r.require(isinstance(a_off, ast.Name) and isinstance(a_data, ast.Name) and a_off.id == want_off and a_data.id == want_data, w, w.loc(c),
                     "the share is written with %s (expected %s.write(%s, %s): the offset and the data of the same piece "
                     "yielded by %s)" % (src(w, c), src(w, c.func.value), want_off, want_data, short(G))):
        return
    # -- the range handed to the generator
    stops = [p for p in gparams if bind.get(p) is not None and p not in stored_in_g
             and wn.norm(wnode, bind[p]).endswith(".stop") and "parse_content_range_header(" in wn.norm(wnode, bind[p])]
    if not stops:
        raise AnchorVanished("write_share_data hands no <content range>.stop to %s" % short(G))
    stopv = stops[0]
    base = wn.norm(wnode, bind[stopv])[: -len(".stop")]
    r.site(w, it.call, "chunk iterator over [start, stop)")
    # optional `remaining = stop - offset` inside the generator
    remv = None
    for m in gcfg.nodes:
        if m.kind == "stmt" and isinstance(m.ast, (ast.Assign, ast.AnnAssign)):
            t0 = m.ast.targets[0] if isinstance(m.ast, ast.Assign) and len(m.ast.targets) == 1 else getattr(m.ast, "target", None)
            v = m.ast.value
            if isinstance(t0, ast.Name) and isinstance(v, ast.BinOp) and isinstance(v.op, ast.Sub) \
                    and isinstance(v.right, ast.Name) and v.right.id == offv and isinstance(v.left, ast.Name) and v.left.id == stopv:
                remv = t0.id
    # -- offset: initial value and steps
    r.site(G, None, "offset initial value / steps")
    n_init = 0
    for m in gcfg.find(stores(offv)):
        st = step_of(G, m, offv)
        if st is not None:
            r.require(st == ("+", norm_src("len(%s)" % datav)), G, G.loc(m.ast),
                      "the write offset is advanced by %s%s, not by len(%s)" % (st[0], st[1], datav))
            continue
        v = assign_value(m, offv)
        n_init += 1
        core = strip_or_zero(G, v) if v is not None else None
        ok = False
        if isinstance(core, ast.Name) and core.id in bind and bind[core.id] is not None and core.id not in stored_in_g:
            a = wn.resolve(wnode, bind[core.id])
            core2 = strip_or_zero(w, a)
            ok = core2 is not None and not isinstance(core2, ast.BoolOp) and wn.norm(wnode, core2) == base + ".start"
            shown = "%s = %s" % (core.id, src(w, a))
        else:
            shown = src(G, v) if v is not None else "?"
        r.require(ok, G, G.loc(m.ast), "the write offset starts at %s, not at the start of the Content-Range" % shown)
    r.require(n_init >= 1, G, G.loc(), "the write offset %s has no initial value" % offv)
    if remv is not None:
        for m in gcfg.find(stores(remv)):
            st = step_of(G, m, remv)
            if st is not None:
                r.require(st == ("-", norm_src("len(%s)" % datav)), G, G.loc(m.ast),
                          "the remaining count is changed by %s%s, not by -len(%s)" % (st[0], st[1], datav))

    # -- loop guard
    def forms(m, v):
        return {v, gn.norm(m, ast.Name(id=v, ctx=ast.Load()))} if v is not None else set()

    def more(m, lab):
        f = gn.edge_fact(m, lab)
        if not f:
            return False
        of, sf, rf = forms(m, offv), forms(m, stopv), forms(m, remv)
        if f[0] == "<" and f[1] in of and f[2] in sf:
            return True
        if f[0] == "!=" and ((f[1] in of and f[2] in sf) or (f[2] in of and f[1] in sf)):
            return True
        if f[0] == "<" and f[1] == "0" and f[2] == norm_src("%s - %s" % (stopv, offv)):
            return True
        return (f[0] == "<" and f[1] == "0" and f[2] in rf) or (f[0] == "truth" and f[1] in rf) \
            or (f[0] == "!=" and ((f[1] == "0" and f[2] in rf) or (f[2] == "0" and f[1] in rf)))

    def done(m, lab):
        f = gn.edge_fact(m, lab)
        if not f:
            return False
        of, sf, rf = forms(m, offv), forms(m, stopv), forms(m, remv)
        if f[0] == "<=" and f[1] in sf and f[2] in of:
            return True
        if f[0] == "==" and ((f[1] in of and f[2] in sf) or (f[2] in of and f[1] in sf)):
            return True
        if f[0] == "<=" and f[2] == "0" and f[1] == norm_src("%s - %s" % (stopv, offv)):
            return True
        return (f[0] == "<=" and f[1] in rf and f[2] == "0") or (f[0] == "false" and f[1] in rf) \
            or (f[0] == "==" and ((f[1] == "0" and f[2] in rf) or (f[2] == "0" and f[1] in rf)))
    r.site(G, None, "loop guard")
    counters = [offv] + ([remv] if remv else [])
    killp = stores_any(counters)
    guards = [m for m in gcfg.nodes if m.kind == "test" and (more(m, ("T", m.ast)) or more(m, ("F", m.ast)))]
    for (ym, y) in yields:
        for (t, wt) in find_path_avoiding(gcfg, lambda x, _n=ym: x is _n, gate_edge=more, kill=killp):
            r.violation(G, G.loc(t.ast), "a piece is yielded on a path where `%s < %s` (bytes of the range remain) was not "
                        "established: bytes of the range are skipped or written twice (path: %s)" % (offv, stopv, wt.brief()), wt)
        for (t, wt) in find_path_avoiding(gcfg, is_exit, gate_edge=done, kill=killp, start=ym):
            r.violation(G, G.loc(ym.ast), "after a piece the iterator can end although bytes of the range may remain "
                        "(`%s >= %s` not established; path: %s)" % (offv, stopv, wt.brief()), wt)
        for (var, sign) in [(offv, "+")] + ([(remv, "-")] if remv else []):
            stepn = lambda m, _v=var, _s=sign: (step_of(G, m, _v) or ("", ""))[0] == _s
            for (t, wt) in find_path_avoiding(gcfg, lambda x: x in guards, gate_node=stepn, start=ym):
                r.violation(G, G.loc(ym.ast), "after yielding a piece `%s` is not advanced by len(%s) before the next piece "
                            "(path: %s)" % (var, datav, wt.brief()), wt)
    # a generator that can end before its first guard (early return) skips the whole range
    for (t, wt) in find_path_avoiding(gcfg, is_exit, gate_edge=done):
        r.violation(G, G.loc(), "%s can end without `%s >= %s` being established: bytes of the range are not written "
                    "(path: %s)" % (short(G), offv, stopv, wt.brief()), wt)


def every_chunk_is_written(idx, r):
    """C31.16."""
    w = idx.func(HS + ".write_share_data")
    pipe = WritePipe(idx, w)
    wcfg = w.cfg()
    if not pipe.writes:
        raise AnchorVanished("write_share_data no longer calls <bucket>.write")
    # (a) the completion flag is the last write's result / the eager or of all of them
    for (nm, d) in pipe.undecided:
        raise AnalysisError("write_share_data: how `%s = %s` derives from the <bucket>.write results is not decided" % (nm, src(w, d)))
    if not pipe.fin_defs and not any(pipe.is_fin_expr(n.ast) for n in wcfg.nodes if n.kind == "test"):
        raise AnchorVanished("write_share_data does not keep the result of <bucket>.write()")
    r.site(w, None, "completion flag = result of the last write / eager or of all")
    for (nm, d, k, node, msg) in pipe.fin_defs:
        r.count(1)
        if k == "bad":
            r.violation(w, w.loc(node), "write_share_data: `%s = %s`: %s" % (nm, src(w, d), msg))
    for n in wcfg.nodes:
        if n.kind == "test" and not isinstance(n.ast, ast.Name):
            k, node, msg = pipe.classify(n.ast)
            if k == "bad":
                r.violation(w, w.loc(node), "write_share_data tests `%s`: %s" % (src(w, n.ast), msg))
    # (b) the consumer of the chunk iterator is exhaustive
    if pipe.iter is not None:
        it = pipe.iter
        r.site(w, it.consumer, "consumer of the chunk iterator is exhaustive")
        if isinstance(it.consumer, (ast.For, ast.AsyncFor)):
            pol = write_finished_edges(pipe)
            fin_tests = [n for n in wcfg.nodes if n.kind == "test" and pol(n, ("T", n.ast)) is not None]
            wnode = [n for n in wcfg.nodes if any(x is it.wcall for x in node_calls(n))][0]
            done = lambda m, lab: m.kind == "iter" and m.ast is it.consumer and lab == "done"
            for (t, wt) in find_path_avoiding(wcfg, lambda x: x in fin_tests, gate_edge=done, start=wnode):
                r.violation(w, w.loc(t.ast), "the loop over %s can be left after a write without exhausting the iterator: the "
                            "remaining pieces of the request body are never written (path: %s)" % (src(w, it.call), wt.brief()), wt)
        else:
            r.count(1)      # comprehension: exhaustiveness is decided by the reduction classified under (a)
    else:
        r.site(w, pipe.writes[0], "<bucket>.write(..) evaluated unconditionally inside its statement")


def raise_code(n):
    """HTTP code of `raise _HTTPError(http.X ..)` at node n, else None."""
    if not raises("_HTTPError")(n):
        return None
    e = n.ast.exc
    if isinstance(e, ast.Call) and e.args:
        return http_code(e.args[0])
    return None


def subscript_key(e):
    """X["k"] -> "k" (str/bytes constant subscripts only)."""
    if isinstance(e, ast.Subscript) and isinstance(e.slice, ast.Constant) and isinstance(e.slice.value, (str, bytes)):
        return e.slice.value
    return None


# ------------------------------------------------------------------ C31.12 / C31.13 helpers
def single_defs(fn):
    """local name -> its only defining expression (parameters and opaque bindings excluded)."""
    ps = set(fn.params)
    return {k: v[0] for k, v in all_defs(fn).items() if len(v) == 1 and v[0] is not None and k not in ps}


def deref(sd, e, depth=4):
    """Follow plain-name copies: a Name with one definition -> its defining expression."""
    while isinstance(e, ast.Name) and e.id in sd and depth > 0:
        e = sd[e.id]
        depth -= 1
    return e


def deep_walk(sd, e, depth=4):
    """All AST nodes of e, entering the single definition of every local name met."""
    out, todo, seen = [], [(e, depth)], set()
    while todo:
        x, d = todo.pop()
        for y in ast.walk(x):
            out.append(y)
            if isinstance(y, ast.Name) and y.id in sd and d > 0 and y.id not in seen:
                seen.add(y.id)
                todo.append((sd[y.id], d - 1))
    return out


def poly_or_none(nm, e):
    try:
        return nm.poly(e)
    except Exception:
        return None


def poly_subst(p, mapping):
    out = Poly()
    for k, c in p.t.items():
        term = Poly.const(c)
        for a in k:
            term = term * (mapping[a] if a in mapping else Poly.atom(a))
        out = out + term
    return out


def self_attr_atoms(p):
    return {a for a in p.atoms() if re.match(r"^self\.[A-Za-z_]\w*$", a)}


def reach_set(cfg, n):
    vis, _p = explore(cfg, 0, lambda a, lb, nx, st: 0, start=n)
    return {nid for (nid, _s) in vis}


def return_values(fn):
    return [(n, n.ast.value) for n in fn.cfg().find(is_return) if n.ast.value is not None]


def immutable_length_agreement(idx, r):
    """ShareFile: get_length() (what http read_share_chunk hands to read_range as share_length) and the bound
    read_share_data truncates with (the direct BucketReader.read) are the same quantity once the attributes are
    replaced by what __init__ stores in them."""
    sf = idx.cls("storage.immutable:ShareFile")
    init = idx.func("storage.immutable:ShareFile.__init__")
    gl = idx.func("storage.immutable:ShareFile.get_length")
    rs = idx.func("storage.immutable:ShareFile.read_share_data")
    rp = first_positional_params(rs)
    if len(rp) < 2:
        raise AnchorVanished("ShareFile.read_share_data(offset, length)")
    off, ln = rp[0], rp[1]
    nrs, sd = N(rs), single_defs(rs)
    # bytes handed to <file>.read(..) are limited by min(<.. length ..>, bound)
    fed = []
    for c in calls_in_func(rs, "read"):
        if c.args:
            fed += deep_walk(sd, c.args[0])
    clips = []
    for x in fed:
        if isinstance(x, ast.Call) and isinstance(x.func, ast.Name) and x.func.id == "min" and len(x.args) == 2 and not x.keywords:
            ps = [poly_or_none(nrs, a) for a in x.args]
            if None in ps:
                continue
            wl = [i for i, p in enumerate(ps) if ln in p.atoms()]
            if len(wl) == 1:
                a, b = ps[wl[0]], ps[1 - wl[0]]
                # min(length + k, b): at most b - k bytes from `offset` on, i.e. the data ends at b - k + offset
                clips.append((x, b - a + Poly.atom(ln) + Poly.atom(off)))
    if not clips:
        raise AnchorVanished("ShareFile.read_share_data no longer limits the bytes it reads with min(%s.., <bound>)" % ln)
    rets = return_values(gl)
    if not rets:
        raise AnchorVanished("ShareFile.get_length returns nothing")
    ngl = N(gl)
    lens = []
    for (n, v) in rets:
        p = poly_or_none(ngl, v)
        if p is None:
            raise AnalysisError("ShareFile.get_length returns %s: not arithmetic over the share file's attributes" % src(gl, v))
        lens.append((n, v, p))
    # what the attributes hold: stores of self.<attr> in the class
    st = {}
    for m in sf.methods.values():
        for n in m.cfg().nodes:
            for pth in node_stores(n):
                if re.match(r"^self\.[A-Za-z_]\w*$", pth):
                    st.setdefault(pth, []).append((m, n, assign_value(n, pth)))
    ninit = N(init)
    needed, todo = set(), set()
    for (_x, d) in clips:
        todo |= self_attr_atoms(d)
    for (_n, _v, p) in lens:
        todo |= self_attr_atoms(p)
    vals = {}
    while todo:
        a = todo.pop()
        if a in needed or a not in st:
            continue
        needed.add(a)
        vals[a] = []
        for (m, n, v) in st[a]:
            if m is not init:
                raise AnalysisError("%s is also assigned in %s: the share length is not a function of __init__ alone" % (a, short(m)))
            p = poly_or_none(ninit, v) if v is not None else None
            if p is None:
                raise AnalysisError("%s is bound to a value the polynomial normal form cannot express (%s)" % (a, init.loc(n.ast)))
            vals[a].append((n, p))
            todo |= self_attr_atoms(p)
    icfg = init.cfg()
    reach = {}

    def together(n1, n2):
        for x in (n1, n2):
            if x.id not in reach:
                reach[x.id] = reach_set(icfg, x)
        return n1 is n2 or n2.id in reach[n1.id] or n1.id in reach[n2.id]
    attrs = sorted(needed)
    combos = [[]]
    for a in attrs:
        combos = [cb + [(a, n, p)] for cb in combos for (n, p) in vals[a] if all(together(n, n0) for (_a, n0, _p) in cb)]
    if not combos:
        raise AnalysisError("no path of ShareFile.__init__ assigns all of %s" % ", ".join(attrs))
    r.site(gl, None, "immutable share length == bound of the direct read (%d initialisation path(s))" % len(combos))
    r.count(len(combos) * len(clips) * len(lens))

    def full(p, mapping):
        for _i in range(6):
            if not (self_attr_atoms(p) & set(mapping)):
                break
            p = poly_subst(p, mapping)
        return p
    for cb in combos:
        mapping = {a: p for (a, _n, p) in cb}
        for (x, d) in clips:
            dd = full(d, mapping)
            if {off, ln} & dd.atoms():
                raise AnalysisError("cannot derive the end of the share data from %s in read_share_data" % src(rs, x))
            for (n, v, p) in lens:
                pp = full(p, mapping)
                if pp != dd:
                    culprit = [n0 for (a, n0, _p) in cb if a in self_attr_atoms(p)]
                    r.violation(init if culprit else gl, init.loc(culprit[0].ast) if culprit else gl.loc(n.ast),
                                "ShareFile.get_length() = %s is %s, but read_share_data (the direct BucketReader.read) ends the "
                                "share data at %s [%s]: the HTTP read handler clips Range reads to a length the direct read "
                                "does not use, so reads reaching the end of the share differ" % (
                                    src(gl, v), pp, dd, src(rs, x)))


def bucket_reader_delegation(idx, r):
    """BucketReader.read and BucketReader.get_length (both handed to read_range by the HTTP handler) go to the same
    share file, read() with its own (offset, length)."""
    br = idx.cls("storage.immutable:BucketReader")
    rd, bgl = br.methods.get("read"), br.methods.get("get_length")
    if rd is None or bgl is None:
        raise AnchorVanished("BucketReader.read / get_length")
    rs = idx.func("storage.immutable:ShareFile.read_share_data")
    sp = first_positional_params(rs)
    rp = first_positional_params(rd)
    fn_ = FlowNorm(rd)
    sd = single_defs(rd)
    calls = [(n, c) for n in rd.cfg().nodes for c in calls_at(n, "read_share_data")]
    if not calls:
        raise AnchorVanished("BucketReader.read no longer calls read_share_data")
    r.site(rd, calls[0][1], "BucketReader.read / get_length use one share file")
    recvs = set()
    for (n, c) in calls:
        recvs.add(attr_path(c.func.value))
        a0, a1 = arg(c, 0, sp[0]), arg(c, 1, sp[1])
        ok = a0 is not None and a1 is not None and len(rp) >= 2 and fn_.norm(n, a0) == rp[0] and fn_.norm(n, a1) == rp[1]
        r.require(ok, rd, rd.loc(c), "BucketReader.read(%s) reads %s: the HTTP producer and the direct path ask for "
                  "(offset, length) and expect exactly that range" % (", ".join(rp), src(rd, c)))
    for (n, v) in return_values(rd):
        r.require(any(any(y is c for (_n, c) in calls) for y in deep_walk(sd, v)), rd, rd.loc(n.ast),
                  "BucketReader.read returns %s, not the bytes read from the share file" % src(rd, v))
    r.require(bool(return_values(rd)), rd, rd.loc(), "BucketReader.read returns nothing")
    gsd = single_defs(bgl)
    grets = return_values(bgl)
    r.require(bool(grets), bgl, bgl.loc(), "BucketReader.get_length returns nothing")
    for (n, v) in grets:
        v2 = deref(gsd, v)
        ok = isinstance(v2, ast.Call) and call_tail(v2) == "get_length" and not v2.args \
            and isinstance(v2.func, ast.Attribute) and attr_path(v2.func.value) in recvs
        r.require(ok, bgl, bgl.loc(n.ast), "BucketReader.get_length returns %s, not the get_length() of the share file (%s) "
                  "that read() reads from" % (src(bgl, v), ", ".join(sorted(x or "?" for x in recvs))))


def mutable_length_agreement(idx, r):
    """MutableShareFile: get_length (-> get_mutable_share_length -> read_mutable_chunk's share_length) and the clip of
    _read_share_data (slot_readv, used by both paths) take the data length from the same helper."""
    mgl = idx.func("storage.mutable:MutableShareFile.get_length")
    mrs = idx.func("storage.mutable:MutableShareFile._read_share_data")
    mp = first_positional_params(mrs)
    if len(mp) < 3:
        raise AnchorVanished("MutableShareFile._read_share_data(f, offset, length)")
    off, ln = mp[1], mp[2]
    sd = single_defs(mrs)
    # the truncation: length is rebound to .. <X> - offset ..
    srcs = []
    for n in mrs.cfg().nodes:
        if ln in node_stores(n) and isinstance(n.ast, ast.Assign):
            for y in deep_walk(sd, n.ast.value):
                if isinstance(y, ast.BinOp) and isinstance(y.op, ast.Sub) and isinstance(y.right, ast.Name) and y.right.id == off:
                    x = deref(sd, y.left)
                    srcs.append((n, x))
    if not srcs:
        raise AnchorVanished("MutableShareFile._read_share_data no longer truncates %s to <data length> - %s" % (ln, off))
    r.site(mgl, None, "mutable share length == bound of slot_readv")

    def self_call(e):
        return call_name(e) if isinstance(e, ast.Call) and isinstance(e.func, ast.Attribute) and attr_path(e.func.value) == "self" else None
    want = {self_call(x) for (_n, x) in srcs}
    if None in want:
        raise AnalysisError("the data length _read_share_data truncates with is not read through a method of the share file")
    gsd = single_defs(mgl)
    grets = return_values(mgl)
    if not grets:
        raise AnchorVanished("MutableShareFile.get_length returns nothing")
    for (n, v) in grets:
        v2 = deref(gsd, v)
        r.require(self_call(v2) in want, mgl, mgl.loc(n.ast), "MutableShareFile.get_length returns %s; slot_readv truncates reads "
                  "with %s: the HTTP read handler clips Range reads to a length the read itself does not use" % (
                      src(mgl, v2), ", ".join(sorted(want))))
    # StorageServer.get_mutable_share_length(si, shnum) asks that share's file
    g = idx.func("storage.server:StorageServer.get_mutable_share_length")
    gp = first_positional_params(g)
    gd = single_defs(g)
    rets = return_values(g)
    if not rets:
        raise AnchorVanished("get_mutable_share_length returns nothing")
    r.site(g, None, "length of the share (si, shnum)")
    for (n, v) in rets:
        v2 = deref(gd, v)
        ok = isinstance(v2, ast.Call) and call_tail(v2) == "get_length" and isinstance(v2.func, ast.Attribute)
        ctor = deref(gd, v2.func.value) if ok else None
        ok = ok and isinstance(ctor, ast.Call) and call_tail(ctor) == "MutableShareFile" and bool(ctor.args)
        if not r.require(ok, g, g.loc(n.ast), "get_mutable_share_length returns %s, not MutableShareFile(<share path>)."
                         "get_length()" % src(g, v)):
            continue
        deps = depends_on(g, ctor.args[0])
        r.require(set(gp[:2]) <= deps, g, g.loc(n.ast), "the share file opened by get_mutable_share_length does not depend on %s" % (
            ", ".join(sorted(set(gp[:2]) - deps))))


REMOVERS = {"pop", "popitem", "clear", "__delitem__"}


def uploads_tracking(idx, r):
    up = idx.cls("storage.http_server:UploadsInProgress")
    siu = idx.cls("storage.http_server:StorageIndexUploads")
    fields = [f for (f, _a) in class_fields(siu)]
    wfield = [f for (f, a) in class_fields(siu) if any(isinstance(x, ast.Name) and x.id == "BucketWriter" for x in ast.walk(a))]
    if len(wfield) != 1:
        raise AnchorVanished("the BucketWriter map of StorageIndexUploads")
    wfield = wfield[0]
    own = {st.target.id for st in up.node.body if isinstance(st, ast.AnnAssign) and isinstance(st.target, ast.Name)}
    if not {"_uploads", "_bucketwriters"} <= own:
        raise AnchorVanished("UploadsInProgress._uploads / _bucketwriters")
    top, back = "self._uploads", "self._bucketwriters"
    top_ast = parse_expr(top)

    def entry_of(fnm, sd, n, e, fn=None):
        """e denotes self._uploads[K] (subscript / get / setdefault, or a local the function stores there) -> K, else None."""
        e0 = e
        e = deref(sd, e)
        if isinstance(e, ast.Subscript) and fnm.norm(n, e.value) == top:
            return e.slice
        if isinstance(e, ast.Call) and call_tail(e) in ("get", "setdefault") and isinstance(e.func, ast.Attribute) \
                and fnm.norm(n, e.func.value) == top and e.args:
            return e.args[0]
        if fn is not None and isinstance(e0, ast.Name):
            for x in func_own_nodes(fn):
                if isinstance(x, ast.Assign) and ((isinstance(x.value, ast.Name) and x.value.id == e0.id)
                                                  or any(isinstance(t, ast.Name) and t.id == e0.id for t in x.targets)):
                    for t in x.targets:
                        if isinstance(t, ast.Subscript) and attr_path(t.value) == top:
                            return t.slice
                if isinstance(x, ast.Call) and isinstance(x.func, ast.Attribute) and attr_path(x.func.value) == top:
                    if x.func.attr == "__setitem__" and len(x.args) == 2 and isinstance(x.args[1], ast.Name) and x.args[1].id == e0.id:
                        return x.args[0]
                    if x.func.attr == "update" and len(x.args) == 1 and isinstance(x.args[0], ast.Dict):
                        for k, v in zip(x.args[0].keys, x.args[0].values):
                            if k is not None and isinstance(v, ast.Name) and v.id == e0.id:
                                return k
        return None

    def removals(m, fnm, sd):
        """(node, what, key ast|None, receiver ast, where) for every deletion from a dict in method m."""
        out = []
        for n in m.cfg().nodes:
            for c in node_calls(n):
                if isinstance(c.func, ast.Attribute) and c.func.attr in REMOVERS:
                    key = c.args[0] if c.args and c.func.attr in ("pop", "__delitem__") else None
                    out.append((n, c, key, c.func.value))
            if n.kind == "stmt" and isinstance(n.ast, ast.Delete):
                for t in n.ast.targets:
                    if isinstance(t, ast.Subscript):
                        out.append((n, t, t.slice, t.value))
        return out

    # -- (a) a storage-index entry is dropped only when no share is left in it -------------------------------------
    n_top = 0
    rm = up.methods.get("remove_write_bucket")
    if rm is None:
        raise AnchorVanished("UploadsInProgress.remove_write_bucket")
    for m in up.methods.values():
        fnm, sd, cfg = FlowNorm(m), single_defs(m), m.cfg()
        for n in cfg.nodes:
            if top in node_stores(n):
                r.violation(m, m.loc(n.ast), "%s rebinds %s: every tracked upload is forgotten, later PATCH requests of "
                            "unfinished shares get 404 while a direct BucketWriter keeps working" % (short(m), top))
        for (n, what, key, recv) in removals(m, fnm, sd):
            if fnm.norm(n, recv) != top:
                continue
            n_top += 1
            if key is None:
                r.violation(m, m.loc(n.ast), "%s removes entries of %s wholesale (%s): uploads of other shares become "
                            "unreachable (404) while their direct BucketWriters keep working" % (short(m), top, src(m, what)))
                continue

            def gate(g, lab, _key=key, _fnm=fnm):
                f = _fnm.edge_fact(g, lab)
                if not f:
                    return False
                for fld in fields:
                    e = ast.Attribute(value=ast.Subscript(value=top_ast, slice=_key, ctx=ast.Load()), attr=fld, ctx=ast.Load())
                    s = _fnm.norm(g, e)
                    ln_ = _fnm.norm(g, ast.Call(func=ast.Name(id="len", ctx=ast.Load()), args=[e], keywords=[]))
                    if f[0] == "false" and f[1] == s:
                        return True
                    if f[0] == "==" and {f[1], f[2]} == {"0", ln_}:
                        return True
                    if f[0] in ("<", "<=") and f[1] == ln_ and f[2] == ("1" if f[0] == "<" else "0"):
                        return True
                return False
            for (t, wt) in find_path_avoiding(cfg, lambda x, _n=n: x is _n, gate_edge=gate):
                r.violation(m, m.loc(n.ast), "%s removes the whole entry %s[%s] (%s) without having found it empty of shares: "
                            "when one share of a storage index closes or aborts, the other shares still being uploaded can "
                            "no longer be found (PATCH -> 404) although their direct BucketWriters keep working (path: %s)" % (
                                short(m), top, fnm.norm(n, key), src(m, what), wt.brief()), wt)
    r.site(rm, None, "storage-index entry removed only when empty (%d removal site(s))" % n_top)
    r.count(n_top)

    # -- (b) remove_write_bucket drops only the share of the closing writer -----------------------------------------
    fnm, sd, cfg = FlowNorm(rm), single_defs(rm), rm.cfg()
    bparam = first_positional_params(rm)[0]

    def is_lookup(v):
        if isinstance(v, ast.Call) and call_tail(v) in ("pop", "get") and isinstance(v.func, ast.Attribute) \
                and attr_path(v.func.value) == back and v.args:
            return isinstance(v.args[0], ast.Name) and v.args[0].id == bparam
        if isinstance(v, ast.Subscript) and attr_path(v.value) == back:
            return isinstance(v.slice, ast.Name) and v.slice.id == bparam
        return False

    def component(e):
        e = deref(sd, e)
        if isinstance(e, ast.Subscript) and isinstance(e.slice, ast.Constant) and e.slice.value in (0, 1) \
                and is_lookup(deref(sd, e.value)):
            return e.slice.value
        return None
    if not any(is_lookup(x) for x in deep_walk(sd, rm.node)):
        raise AnchorVanished("remove_write_bucket no longer looks up %s[%s]" % (back, bparam))
    r.site(rm, None, "only the closing writer's share is dropped")
    for (n, what, key, recv) in removals(rm, fnm, sd):
        if not (isinstance(recv, ast.Attribute) and recv.attr in fields):
            if fnm.norm(n, recv) == top and key is not None and component(key) != 0:
                r.violation(rm, rm.loc(n.ast), "remove_write_bucket removes %s[%s], which is not the storage index recorded for "
                            "the closing BucketWriter" % (top, src(rm, key)))
            continue
        k = entry_of(fnm, sd, n, recv.value)
        if k is None:
            continue        # some other object's attribute of the same name
        if key is None:
            r.violation(rm, rm.loc(n.ast), "remove_write_bucket empties %s of the storage index (%s): the other shares still "
                        "being uploaded can no longer be found (404), their direct BucketWriters keep working" % (
                            recv.attr, src(rm, what)))
            continue
        r.require(component(k) == 0 and component(key) == 1, rm, rm.loc(n.ast),
                  "remove_write_bucket drops %s: not the (storage index, share number) recorded in %s for the closing "
                  "BucketWriter, so another upload in progress becomes unreachable" % (src(rm, what), back))

    # -- (c) get_write_bucket looks up (storage_index, share_number) ------------------------------------------------
    gw = up.methods.get("get_write_bucket")
    if gw is None:
        raise AnchorVanished("UploadsInProgress.get_write_bucket")
    gp = first_positional_params(gw)
    gfn, gsd = FlowNorm(gw), single_defs(gw)
    rets = return_values(gw)
    if not rets:
        raise AnchorVanished("get_write_bucket returns nothing")
    r.site(gw, rets[0][1], "lookup by (storage_index, share_number)")
    for (n, v) in rets:
        v2 = deref(gsd, v)
        k2 = cont = None
        if isinstance(v2, ast.Subscript):
            k2, cont = v2.slice, v2.value
        elif isinstance(v2, ast.Call) and call_tail(v2) == "get" and isinstance(v2.func, ast.Attribute) and v2.args:
            k2, cont = v2.args[0], v2.func.value
        cont = deref(gsd, cont) if cont is not None else None
        k1 = entry_of(gfn, gsd, n, cont.value) if isinstance(cont, ast.Attribute) else None
        if k1 is None:
            raise AnalysisError("get_write_bucket returns %s: not an entry of %s[..].<field>[..]" % (src(gw, v), top))
        r.require(cont.attr == wfield and gfn.norm(n, k1) == gp[0] and gfn.norm(n, k2) == gp[1], gw, gw.loc(n.ast),
                  "get_write_bucket(%s) returns %s instead of %s[%s].%s[%s]: the chunk is written to another upload than the "
                  "direct path writes to" % (", ".join(gp), src(gw, v2), top, gp[0], wfield, gp[1]))

    # -- (d) the registering method(s), found by role: whoever stores into <entry>.<writer map>[..] / _bucketwriters[..] ----
    regs_by_name = registrars(idx, r, up, siu, fields, wfield, top, back, entry_of)

    # -- (d') nobody stores a fresh StorageIndexUploads over an entry that may exist --------------------------------------
    for m in up.methods.values():
        mfn, msd, mcfg = FlowNorm(m), single_defs(m), m.cfg()
        for (n, what, k_ast, v_ast) in top_item_stores(m, mfn, mcfg, top):
            v = deref(msd, v_ast)
            if not (isinstance(v, ast.Call) and call_tail(v) == siu.name):
                continue

            def absent(g, lab, _k=k_ast, _f=mfn):
                f = _f.edge_fact(g, lab)
                return bool(f) and f[0] == "not in" and f[1] == _f.norm(g, _k) and f[2] == top
            for (_t, wt) in find_path_avoiding(mcfg, lambda x, _n=n: x is _n, gate_edge=absent):
                r.violation(m, m.loc(what), "%s stores a fresh %s under %s[%s] although an entry may exist: the uploads "
                            "of the other shares of that storage index (allocated by an earlier request) are forgotten "
                            "(PATCH -> 404) while their direct BucketWriters keep working (path: %s)" % (
                                short(m), siu.name, top, src(m, k_ast), wt.brief()), wt)

    # -- (e) allocate_buckets registers every allocated writer ------------------------------------------------------
    ab = idx.func(HS + ".allocate_buckets")
    bp = first_positional_params(ab)       # request, authorization, storage_index
    bfn, bsd, bcfg = FlowNorm(ab), single_defs(ab), ab.cfg()
    regs = [(n, c, regs_by_name[call_tail(c)]) for n in bcfg.nodes for c in node_calls(n)
            if call_tail(c) in regs_by_name and isinstance(c.func, ast.Attribute) and attr_path(c.func.value) == "self._uploads"]
    r.site(ab, regs[0][1] if regs else None, "every allocated writer registered")
    if not r.require(bool(regs), ab, ab.loc(), "allocate_buckets never registers the allocated BucketWriters with self._uploads "
                     "(registering methods: %s): no share can be written through HTTP" % ", ".join(sorted(regs_by_name))):
        return
    want_sec = norm_src("%s[Secrets.UPLOAD]" % bp[1])

    def allocated_map(e):
        d = deref(bsd, e)
        d0 = deref(bsd, d.value) if isinstance(d, ast.Subscript) else None
        return isinstance(d, ast.Subscript) and isinstance(d.slice, ast.Constant) and d.slice.value == 1 \
            and isinstance(d0, ast.Call) and call_name(d0) == "self._storage_server.allocate_buckets"
    loops = [x for x in func_own_nodes(ab) if isinstance(x, (ast.For, ast.AsyncFor))]
    for (n, c, reg) in regs:
        rp_ = first_positional_params(reg.fn)

        def passed(p):
            return arg(c, rp_.index(p), p) if p in rp_ else None
        g_si, g_sec = passed(reg.si), (passed(reg.sec) if reg.sec else None)
        sec_ok = reg.sec is None or (g_sec is not None and bfn.norm(n, g_sec) == want_sec)
        if reg.form == "single":
            lp = [x for x in loops if any(y is c for y in ast.walk(x))]
            ok = bool(lp)
            if ok:
                lp = lp[-1]
                it, tg = lp.iter, lp.target
                ok = isinstance(it, ast.Call) and call_tail(it) == "items" and isinstance(it.func, ast.Attribute) \
                    and isinstance(tg, ast.Tuple) and len(tg.elts) == 2 and all(isinstance(e, ast.Name) for e in tg.elts)
            ok = ok and allocated_map(it.func.value)
            if not r.require(ok, ab, ab.loc(c), "the BucketWriters are not registered for every (share number, writer) of the "
                             "dict self._storage_server.allocate_buckets returned"):
                continue
            g_s, g_w = passed(reg.s), passed(reg.w)
            ok = g_si is not None and bfn.norm(n, g_si) == bp[2] and sec_ok \
                and isinstance(g_s, ast.Name) and g_s.id == tg.elts[0].id \
                and isinstance(g_w, ast.Name) and g_w.id == tg.elts[1].id
            r.require(ok, ab, ab.loc(c), "allocate_buckets registers %s; expected (%s, <share number>, %s[Secrets.UPLOAD], "
                      "<its writer>)" % (src(ab, c), bp[2], bp[1]))
            gate = lambda g, _l=lp: g.kind == "iter" and g.ast is _l
        else:
            g_coll = passed(reg.coll)
            ok = g_si is not None and bfn.norm(n, g_si) == bp[2] and sec_ok and g_coll is not None and allocated_map(g_coll)
            if not r.require(ok, ab, ab.loc(c), "allocate_buckets registers %s; expected %s(%s=%s, %s=<the dict of writers "
                             "self._storage_server.allocate_buckets returned>%s)" % (
                                 src(ab, c), reg.fn.name, reg.si, bp[2], reg.coll,
                                 ", %s=%s[Secrets.UPLOAD]" % (reg.sec, bp[1]) if reg.sec else "")):
                continue
            gate = lambda g, _n=n: g is _n
        for (_t, wt) in find_path_avoiding(bcfg, is_exit, gate_node=gate):
            r.violation(ab, ab.loc(c), "allocate_buckets can answer without registering the allocated writers "
                        "(path: %s)" % wt.brief(), wt)


class Registrar:
    """A method of UploadsInProgress that makes BucketWriters findable: form 'single' registers (si, s, w) given as
    parameters, form 'batch' registers every (share number, writer) item of the mapping parameter `coll`."""

    def __init__(self, fn, form, si, sec, s=None, w=None, coll=None):
        self.fn, self.form, self.si, self.sec, self.s, self.w, self.coll = fn, form, si, sec, s, w, coll


def top_item_stores(m, fnm, cfg, top):
    """(node, construct, key ast, value ast) for every per-key store into the dict `top` in method m: `top[k] = v`,
    `top.__setitem__(k, v)`, `top.update({k: v})`.  An update with anything else cannot be decided."""
    out = []
    for n in cfg.nodes:
        a = n.ast
        if n.kind == "stmt" and isinstance(a, (ast.Assign, ast.AnnAssign)) and a.value is not None:
            for t in (a.targets if isinstance(a, ast.Assign) else [a.target]):
                if isinstance(t, ast.Subscript) and fnm.norm(n, t.value) == top:
                    out.append((n, a, t.slice, a.value))
        for c in node_calls(n):
            if not (isinstance(c.func, ast.Attribute) and fnm.norm(n, c.func.value) == top):
                continue
            if c.func.attr == "__setitem__" and len(c.args) == 2:
                out.append((n, c, c.args[0], c.args[1]))
            elif c.func.attr == "update":
                if len(c.args) == 1 and not c.keywords and isinstance(c.args[0], ast.Dict) and None not in c.args[0].keys:
                    for k, v in zip(c.args[0].keys, c.args[0].values):
                        out.append((n, c, k, v))
                else:
                    raise AnalysisError("%s updates %s with %s: cannot decide whether existing upload entries survive" % (
                        short(m), top, src(m, c)))
    return out


def items_loop_binding(m, fnm, s, w):
    """s, w are the (key, value) targets of one `for s, w in <P>.items()` of method m, P a parameter -> (loop, P)."""
    ps = set(first_positional_params(m))
    defs = all_defs(m)
    for lp in func_own_nodes(m):
        if not isinstance(lp, (ast.For, ast.AsyncFor)):
            continue
        tg, it = lp.target, lp.iter
        if isinstance(tg, ast.Tuple) and len(tg.elts) == 2 and all(isinstance(e, ast.Name) for e in tg.elts) \
                and [e.id for e in tg.elts] == [s, w] and isinstance(it, ast.Call) and call_tail(it) == "items" \
                and not it.args and isinstance(it.func, ast.Attribute):
            heads = [x for x in m.cfg().nodes if x.kind == "iter" and x.ast is lp]
            if not heads:
                continue
            p = fnm.norm(heads[0], it.func.value)
            if p in ps and defs.get(s) == [None] and defs.get(w) == [None]:
                return lp, heads[0], p
    return None


def registrars(idx, r, up, siu, fields, wfield, top, back, entry_of):
    """Find the registering methods of UploadsInProgress by what they do and decide, for each, that every writer it is
    given ends up under _uploads[si].<writer map>[s] with the reverse mapping _bucketwriters[w] = (si, s).
    -> {method name: Registrar}."""
    found = {}

    def ident(s):
        return isinstance(s, str) and re.match(r"^[A-Za-z_]\w*$", s) is not None

    def decide(m, fnm, cfg, triple, sec, wgate, bgate, what):
        """Common part: how (si, s, w) are bound (parameters / items of a mapping parameter) and must-execute."""
        si, s, w = triple
        ps = first_positional_params(m)
        if not (ident(si) and si in ps):
            r.violation(m, m.loc(), "%s files the writers under %s[%s]: not a storage index it was given, so get_write_bucket("
                        "storage_index, ..) cannot find them (404)" % (short(m), top, si))
            return None
        sec = sec if sec in ps else None
        if s in ps and w in ps:
            for gate, msg in ((wgate, "storing %s under %s[%s].%s[%s]: the allocated share cannot be written through HTTP (404)" % (
                    w, top, si, wfield, s)),
                    (bgate, "recording %s[%s] = (%s, %s): remove_write_bucket cannot find the upload when the writer closes" % (
                        back, w, si, s))):
                for (_t, wt) in find_path_avoiding(cfg, is_exit, gate_node=gate):
                    r.violation(m, m.loc(), "%s can return without %s (path: %s)" % (m.name, msg, wt.brief()), wt)
            return Registrar(m, "single", si, sec, s=s, w=w)
        lb = items_loop_binding(m, fnm, s, w) if ident(s) and ident(w) else None
        if lb is None:
            raise AnalysisError("%s registers (%s, %s) [%s]: neither its parameters nor the items of a mapping parameter - "
                                "cannot decide which writers it registers" % (short(m), s, w, what))
        lp, head, coll = lb

        def empty(g, lab, _c=coll):
            f = fnm.edge_fact(g, lab)
            return bool(f) and ((f[0] == "false" and f[1] == _c) or (f[0] == "==" and {f[1], f[2]} == {"0", "len(%s)" % _c}))
        for (_t, wt) in find_path_avoiding(cfg, is_exit, gate_node=lambda g: g is head, gate_edge=empty):
            r.violation(m, m.loc(), "%s can return without going through the writers in %s (path: %s)" % (m.name, coll, wt.brief()), wt)

        def tr(n, lab, nxt, st):
            if n is head:
                return (False, False) if (st == "start" and lab == "iter") else None
            if lab == "exc":
                return None
            return (st[0] or wgate(n), st[1] or bgate(n))
        vis, par = explore(cfg, "start", tr, start=head)
        for (nid, st) in sorted(vis, key=lambda x: (x[0], str(x[1]))):
            if st == "start":
                continue
            if nid == head.id and st != (True, True):
                miss = [] if st[0] else ["storing it under %s[%s].%s[%s] (PATCH -> 404)" % (top, si, wfield, s)]
                miss += [] if st[1] else ["recording %s[%s] = (%s, %s) (remove_write_bucket cannot find it)" % (back, w, si, s)]
                r.violation(m, m.loc(lp), "%s can finish with a writer of %s without %s (path: %s)" % (
                    m.name, coll, " and without ".join(miss), witness(cfg, par, (nid, st)).brief()), witness(cfg, par, (nid, st)))
            elif nid == cfg.exit.id:
                r.violation(m, m.loc(lp), "%s can leave the loop over %s early: the remaining allocated writers are never "
                            "registered (PATCH -> 404) (path: %s)" % (m.name, coll, witness(cfg, par, (nid, st)).brief()),
                            witness(cfg, par, (nid, st)))
        return Registrar(m, "batch", si, sec, coll=coll)

    # ---- direct registrars: methods with the stores themselves
    for m in up.methods.values():
        fnm, sd, cfg = FlowNorm(m), single_defs(m), m.cfg()
        wst, bst, sst, opaque = [], [], [], []
        for n in cfg.nodes:
            a = n.ast
            for c in node_calls(n):
                if isinstance(c.func, ast.Attribute) and c.func.attr in ("update", "__setitem__", "setdefault"):
                    recv = c.func.value
                    if attr_path(recv) == back or (isinstance(recv, ast.Attribute) and recv.attr == wfield
                                                   and entry_of(fnm, sd, n, recv.value, m) is not None):
                        opaque.append(c)
                if call_tail(c) == siu.name and (c.args or c.keywords):
                    opaque.append(c)
            if not (n.kind == "stmt" and isinstance(a, ast.Assign)):
                continue
            for t in a.targets:
                if not isinstance(t, ast.Subscript):
                    continue
                if isinstance(t.value, ast.Attribute) and t.value.attr in fields:
                    k = entry_of(fnm, sd, n, t.value.value, m)
                    if k is None:
                        continue
                    row = (n, fnm.norm(n, k), fnm.norm(n, t.slice), fnm.norm(n, a.value))
                    (wst if t.value.attr == wfield else sst).append(row)
                elif attr_path(t.value) == back:
                    v = deref(sd, a.value)
                    if isinstance(v, ast.Tuple) and len(v.elts) == 2:
                        bst.append((n, fnm.norm(n, v.elts[0]), fnm.norm(n, v.elts[1]), fnm.norm(n, t.slice)))
                    else:
                        bst.append((n, None, None, fnm.norm(n, t.slice)))
        if opaque and (wst or bst or any(call_tail(c) != siu.name for c in opaque)):
            raise AnalysisError("%s fills the upload tables through %s: cannot decide which writers it registers" % (
                short(m), "; ".join(src(m, c) for c in opaque)))
        if not wst and not bst:
            continue
        r.site(m, (wst or bst)[0][0].ast, "writer recorded (found by role: stores into %s / %s)" % (wfield, back))
        if not wst:
            r.violation(m, m.loc(), "%s records writers in %s but never stores them under %s[..].%s[..]: the allocated shares "
                        "cannot be written through HTTP (404)" % (short(m), back, top, wfield))
            continue
        if not bst:
            r.violation(m, m.loc(), "%s stores writers under %s[..].%s[..] but never records %s[writer] = (storage index, share "
                        "number): remove_write_bucket cannot find the upload when the writer closes" % (short(m), top, wfield, back))
            continue
        common = sorted({x[1:] for x in wst} & {x[1:] for x in bst})
        if not common:
            r.violation(m, m.loc(bst[0][0].ast), "%s stores %s but records %s: the reverse mapping remove_write_bucket uses does not "
                        "name the (storage index, share number) the writer is filed under, so closing it drops another upload "
                        "or none" % (short(m), "; ".join("%s[%s].%s[%s] = %s" % (top, a_, wfield, b_, c_) for (_n, a_, b_, c_) in wst),
                                     "; ".join("%s[%s] = (%s, %s)" % (back, c_, a_, b_) for (_n, a_, b_, c_) in bst)))
            continue
        for triple in common:
            wn = {x[0].id for x in wst if x[1:] == triple}
            bn = {x[0].id for x in bst if x[1:] == triple}
            secs = {x[3] for x in sst if x[1:3] == triple[:2]}
            reg = decide(m, fnm, cfg, triple, secs.pop() if len(secs) == 1 else None,
                         lambda g, _s=wn: g.id in _s, lambda g, _s=bn: g.id in _s, "stores")
            if reg is not None:
                found[m.name] = reg

    # ---- wrappers: methods that hand their writers to a registrar of the same object
    for _round in range(3):
        grew = False
        for m in up.methods.values():
            if m.name in found:
                continue
            fnm, cfg = FlowNorm(m), m.cfg()
            for n in cfg.nodes:
                for c in node_calls(n):
                    if not (call_tail(c) in found and isinstance(c.func, ast.Attribute) and attr_path(c.func.value) == "self"):
                        continue
                    inner = found[call_tail(c)]
                    ip = first_positional_params(inner.fn)

                    def passed(p):
                        a = arg(c, ip.index(p), p) if p in ip else None
                        return fnm.norm(n, a) if a is not None else None
                    gate = lambda g, _n=n: g is _n
                    sec = passed(inner.sec) if inner.sec else None
                    if inner.form == "single":
                        reg = decide(m, fnm, cfg, (passed(inner.si), passed(inner.s), passed(inner.w)), sec, gate, gate,
                                     "call of %s" % inner.fn.name)
                    else:
                        si, coll = passed(inner.si), passed(inner.coll)
                        ps = first_positional_params(m)
                        if not (si in ps and coll in ps):
                            raise AnalysisError("%s hands (%s, %s) to %s: cannot decide which writers it registers" % (
                                short(m), si, coll, inner.fn.name))
                        for (_t, wt) in find_path_avoiding(cfg, is_exit, gate_node=gate):
                            r.violation(m, m.loc(), "%s can return without handing %s to %s (path: %s)" % (
                                m.name, coll, inner.fn.name, wt.brief()), wt)
                        reg = Registrar(m, "batch", si, sec if sec in ps else None, coll=coll)
                    if reg is not None:
                        r.site(m, c, "writer recorded (through %s)" % inner.fn.name)
                        found[m.name] = reg
                        grew = True
                    break
                if m.name in found:
                    break
        if not grew:
            break
    if not found:
        raise AnchorVanished("no method of UploadsInProgress stores a BucketWriter under %s[..].%s[..] / %s[..]" % (top, wfield, back))
    return found


# ------------------------------------------------------------------ C31.14 / C31.15: route -> direct operation table
FOOL_ADAPTER = "storage_client:_StorageServer"
FOOL_SERVER = "storage.server:FoolscapStorageServer"
BACKEND = "storage.server:StorageServer"


class SecretOp:
    """One IStorageServer operation that takes secrets.
    m: the _HTTPStorageServer method; sources: [(position of the parameter, component index | None, Secrets member,
    carrier nodes in m)]; routes: the ServerRoutes the secret-carrying requests go to; direct: [(StorageServer method Y,
    remote_X, {parameter position: parameter name of Y})] - where the direct path hands the same parameters."""

    def __init__(self, m, sources, routes, direct):
        self.m, self.sources, self.routes, self.direct = m, sources, routes, direct


def backend_attr(fn_init, type_name):
    """`self.<attr>` in which __init__ keeps the parameter annotated / named as the backend object."""
    ps = [a.arg for a in fn_init.node.args.args
          if a.annotation is not None and any(isinstance(x, ast.Name) and x.id == type_name for x in ast.walk(a.annotation))]
    if not ps:
        ps = first_positional_params(fn_init)[:1] if len(first_positional_params(fn_init)) == 1 else []
    out = set()
    for n in func_own_nodes(fn_init):
        if isinstance(n, ast.Assign) and isinstance(n.value, ast.Name) and n.value.id in ps:
            for t in n.targets:
                if attr_path(t) is not None and attr_path(t).startswith("self."):
                    out.add(attr_path(t))
    if len(out) != 1:
        raise AnchorVanished("%s keeps its StorageServer in exactly one attribute (found %s)" % (short(fn_init), sorted(out)))
    return out.pop()


def direct_operation(idx, mname, n_params):
    """The direct path of IStorageServer.<mname>: _StorageServer.<mname> -> callRemote("X", ..) -> FoolscapStorageServer.
    remote_X -> self._server.Y(..)  ->  [(Y, remote_X, {position of the adapter parameter: parameter name of Y})]."""
    fa = idx.cls(FOOL_ADAPTER)
    fs = idx.cls(FOOL_SERVER)
    ss = idx.cls(BACKEND)
    fm = fa.methods.get(mname)
    if fm is None:
        raise AnalysisError("_HTTPStorageServer.%s takes secrets but the Foolscap adapter has no method of that name: "
                            "cannot establish which backend operation the direct path uses" % mname)
    fp = first_positional_params(fm)
    if len(fp) != n_params:
        raise AnalysisError("%s and _HTTPStorageServer.%s take different parameters" % (short(fm), mname))
    fnm = FlowNorm(fm)
    crs = [(n, c) for n in fm.cfg().nodes for c in node_calls(n) if call_tail(c) == "callRemote" and c.args
           and isinstance(c.args[0], ast.Constant) and isinstance(c.args[0].value, str)]
    if not crs:
        raise AnchorVanished("%s no longer uses callRemote(<name>, ..)" % short(fm))
    init = fs.methods.get("__init__")
    if init is None:
        raise AnchorVanished("FoolscapStorageServer.__init__")
    battr = backend_attr(init, "StorageServer")
    out = []
    for (n, c) in crs:
        rx = fs.methods.get("remote_" + c.args[0].value)
        if rx is None:
            raise AnalysisError("%s calls the remote method %r, which FoolscapStorageServer does not define" % (short(fm), c.args[0].value))
        rp = first_positional_params(rx)
        to_remote = {}
        for j, a in enumerate(c.args[1:]):
            if isinstance(a, ast.Starred):
                break
            f = fnm.norm(n, a)
            if f in fp and j < len(rp):
                to_remote[fp.index(f)] = rp[j]
        for k in c.keywords:
            if k.arg and fnm.norm(n, k.value) in fp and k.arg in rp:
                to_remote[fp.index(fnm.norm(n, k.value))] = k.arg
        rnm = FlowNorm(rx)
        for n2 in rx.cfg().nodes:
            for c2 in node_calls(n2):
                if not (isinstance(c2.func, ast.Attribute) and attr_path(c2.func.value) == battr and c2.func.attr in ss.methods):
                    continue
                y = ss.methods[c2.func.attr]
                yp = first_positional_params(y)
                to_y = {}
                for j, a in enumerate(c2.args):
                    if isinstance(a, ast.Starred):
                        break
                    if j < len(yp):
                        to_y[rnm.norm(n2, a)] = yp[j]
                for k in c2.keywords:
                    if k.arg:
                        to_y[rnm.norm(n2, k.value)] = k.arg
                out.append((y, rx, {i: to_y[q] for i, q in to_remote.items() if q in to_y}))
    return out


def secret_operations(idx, cli, s_tab):
    """Table of the operations that take secrets, from both adapters (no operation / route is named here)."""
    ad = idx.cls(ADAPTER)
    tracer = Tracer(idx)
    _rq, _lp, sec_params = secret_param_table(idx)
    by_call = {id(c.call): c for c in cli}
    ops = []
    for m in ad.methods.values():
        if m.name.startswith("_") or isinstance(m.node, ast.Lambda):
            continue
        ps = first_positional_params(m)
        sources, routes = [], {}
        for i, p in enumerate(ps):
            cands = [(p, None)]
            for (src_, comp) in cands + [("%s[%d]" % (p, k), k) for k in range(8)]:
                car = [x for x in tracer.carriers(m, src_) if x[2] & set(sec_params)]
                if not car:
                    if comp is None:
                        continue
                    break
                kws = set()
                for (_n, _c, k2, reqs) in car:
                    kws |= (k2 & set(sec_params))
                    for (cf, rc) in reqs:
                        cr = by_call.get(id(rc))
                        if cr is None:
                            raise AnalysisError("%s: the request made by %s is not in the client request table" % (short(m), short(cf)))
                        for pth in cr.paths:
                            rt = s_tab.get((cr.method, pth))
                            if rt is not None:
                                routes[(cr.method, pth)] = rt
                if len(kws) != 1:
                    raise AnalysisError("%s: %s reaches the HTTP request as several secrets %s" % (short(m), src_, sorted(kws)))
                sources.append((i, comp, sec_params[kws.pop()], [x[0] for x in car]))
                if comp is None:
                    break
        if not sources:
            continue
        if not routes:
            raise AnalysisError("%s sends secrets to no known route" % short(m))
        direct = direct_operation(idx, m.name, len(ps))
        ops.append(SecretOp(m, sources, routes, direct))
    if not ops:
        raise AnchorVanished("no _HTTPStorageServer method forwards a secret to the HTTP client")
    return ops


def handlers_reach_direct_operation(idx, r, ops):
    hs = idx.cls(HS)
    init = hs.methods.get("__init__")
    if init is None:
        raise AnchorVanished("HTTPServer.__init__")
    battr = backend_attr(init, "StorageServer")
    ss = idx.cls(BACKEND)
    for op in ops:
        # the backend entry points to which the direct path hands (all of) the secret parameters
        secret_pos = sorted({i for (i, _c, _m, _n) in op.sources})
        direct = [(y, rx, mp) for (y, rx, mp) in op.direct if all(i in mp for i in secret_pos)]
        if not direct:
            raise AnalysisError("cannot find the StorageServer method to which the direct %s hands its secrets (%s)" % (
                op.m.name, "; ".join("%s via %s" % (y.name, rx.name) for (y, rx, _mp) in op.direct) or "no backend call"))
        for key in sorted(op.routes):
            h = op.routes[key].fn
            hp = first_positional_params(h)
            if len(hp) < 2:
                raise AnchorVanished("%s(request, authorization, ..)" % short(h))
            auth = hp[1]
            hn, hcfg = FlowNorm(h), h.cfg()
            for (y, rx, mp) in direct:
                yps = first_positional_params(y)
                want = {}
                for i in secret_pos:
                    comps = sorted((c, mem) for (j, c, mem, _n) in op.sources if j == i)
                    if comps[0][0] is None:
                        want[mp[i]] = norm_src("%s[Secrets.%s]" % (auth, comps[0][1]))
                    else:
                        if [c for (c, _m) in comps] != list(range(len(comps))):
                            raise AnalysisError("%s: components %s of parameter %d are secrets, not a whole tuple" % (
                                short(op.m), [c for (c, _m) in comps], i))
                        want[mp[i]] = norm_src("(%s,)" % ", ".join("%s[Secrets.%s]" % (auth, mem) for (_c, mem) in comps))
                shown = "%s.%s(%s)" % (battr, y.name, ", ".join("%s=%s" % (k, v) for k, v in sorted(want.items())))

                def same_op(c, _y=y):
                    return isinstance(c.func, ast.Attribute) and c.func.attr == _y.name and attr_path(c.func.value) == battr

                def strong(n, _y=y, _yps=yps, _want=want):
                    for c in node_calls(n):
                        if not same_op(c):
                            continue
                        ok = True
                        for prm, form in _want.items():
                            a = arg(c, _yps.index(prm), prm) if prm in _yps else kwarg(c, prm)
                            ok = ok and a is not None and hn.norm(n, a) == form
                        if ok:
                            return True
                    return False
                err_status = lambda n, _h=h: any(not (200 <= code < 300) for (q, code) in set_codes(_h) if q is n)
                cands = [c for n in hcfg.nodes for c in node_calls(n) if same_op(c)]
                if not cands:
                    # the operation may have been moved into a helper method: not decided here rather than guessed
                    for n in hcfg.nodes:
                        for c in node_calls(n):
                            if isinstance(c.func, ast.Attribute) and attr_path(c.func.value) == "self" and c.func.attr in hs.methods \
                                    and calls_in_func(hs.methods[c.func.attr], y.name):
                                raise AnalysisError("%s reaches %s.%s only through %s: cannot decide that every path hands the "
                                                    "secrets on" % (short(h), battr, y.name, c.func.attr))
                r.site(h, cands[0] if cands else None, "%s %s -> %s (direct: %s -> %s)" % (key[0], key[1], shown, rx.name, y.name))
                bad = find_path_avoiding(hcfg, is_exit, gate_node=lambda n: strong(n) or err_status(n))
                for (_t, wt) in bad:
                    others = []
                    for (pn, _l) in wt.path:
                        for c in node_calls(pn):
                            if isinstance(c.func, ast.Attribute) and attr_path(c.func.value) == battr and not strong(pn):
                                others.append(src(h, c))
                    secs = ", ".join("%s[Secrets.%s]" % (auth, mem) for (_i, _c, mem, _n) in op.sources)
                    r.violation(h, h.loc(cands[0]) if cands else h.loc(),
                                "%s (%s %s) can answer successfully without %s: the direct %s always goes through "
                                "StorageServer.%s with the caller's secrets (%s), which is where they are checked / used; on this "
                                "path the answer %s, so a request with wrong secrets (%s) is served where the direct path "
                                "refuses or acts differently (path: %s)" % (
                                    h.name, key[0], key[1], shown, op.m.name, y.name, rx.name,
                                    ("comes from " + "; ".join(others)) if others else "involves no backend call",
                                    secs, wt.brief()), wt)


def adapters_send_secrets(idx, r, ops):
    for op in ops:
        m = op.m
        cfg = m.cfg()
        ps = first_positional_params(m)
        r.site(m, None, "secrets of %s sent on every path" % m.name)
        for (i, comp, mem, nodes) in op.sources:
            ids = {n.id for n in nodes}

            def tr(n, lab, nxt, st, _ids=ids):
                if n.kind in ("entry", "exit", "raise"):
                    return st
                # an attempted request counts (the exceptional edge models its failure, e.g. 404 / 401 answers)
                return st or (n.id in _ids)
            vis, par = explore(cfg, False, tr)
            for (nid, st) in sorted(vis, key=lambda x: (x[0], x[1])):
                if nid == cfg.exit.id and not st:
                    wt = witness(cfg, par, (nid, st))
                    what = ps[i] if comp is None else "%s[%d]" % (ps[i], comp)
                    r.violation(m, m.loc(), "_HTTPStorageServer.%s can return normally without having sent %s as the %s "
                                "secret: the server cannot have checked / used it, while the direct path always hands it to "
                                "StorageServer.%s (path: %s)" % (
                                    m.name, what, mem, "/".join(sorted({y.name for (y, _rx, _mp) in op.direct})) or "?",
                                    wt.brief()), wt)
                    break
