"""C32 Servers are ordered consistently and upload permission is enforced.

Decided: the shape of the permuted ordering key, the for_upload filter, a
classified sweep of every get_servers_for_psi call site, the upload filter of
the mutable publisher, both upload_permitted implementations and the wiring of
the grid-manager verifier into the server objects, and that the verifier's verdict is
computed from each certificate's own fields, and that the factory hands out that certificate-checking predicate
whenever grid-manager keys are configured (DESIGN.md section 5, C32).
C32.8-C32.10 decide which value a server is permuted by: the element of
_parse_announcement's result that get_permutation_seed() returns (C32.9) is
the decoded announced permutation-seed-base32 on every path that did not
establish its absence (C32.8), and otherwise one of the two frozen fallbacks
(C32.10)."""
from sa.h import *
from sa.rules.C33 import _checker as _c33_checker

EXPLANATION = (
    "Decided (structural, all paths): (1) StorageFarmBroker.get_servers_for_psi returns sorted(S, key=K) without "
    "reverse, K(server) = (server not in preferred, permute_server_hash(psi, server.get_permutation_seed())), "
    "preferred = the connected servers whose longname is in self.preferred_peers, and "
    "hashutil.permute_server_hash(a, b) = sha1(a + b).digest() in that operand order (compat-frozen); (2) on every "
    "path where for_upload is true the sorted list S was filtered by `if srv.upload_permitted()`; (3) every call "
    "site / method-value use of get_servers_for_psi in the package is classified (hand table, 7 sites): the "
    "immutable uploader passes for_upload=True and the candidate servers it gives to _create_trackers derive from that "
    "call's result and from no other call (pure builtins and methods of locals aside), the mutable publisher's two sites only feed self.full_serverlist, "
    "which is read only by Publish.update_goal, the rest are read-only consumers; (4) Publish.update_goal adds a "
    "(server, shnum) placement only for servers taken from a list filled under the fact server.upload_permitted() "
    "for the loop variable of the walk over self.full_serverlist; (5) every upload_permitted implementation "
    "returns the configured verifier's verdict, True only when no verifier is configured, and "
    "StorageFarmBroker._make_storage_server hands the verifier built by create_grid_manager_verifier from the "
    "configured grid-manager keys, the announcement's certificates and the server id to both server classes; "
    "(6) the predicate that verifier is (create_grid_manager_verifier's returned closure) reaches `return True` only "
    "after, within the same iteration of its loop over the kept certificates, an ordering comparison whose larger "
    "side derives from that iteration's certificate (the expiry; the other side does not) and an equality between a "
    "value derived from that certificate and one derived from the public_key parameter - derivation is followed "
    "through the predicate's own assignments per path, so a value captured from the factory (e.g. last bound in the "
    "factory's signature-checking loop), computed before the loop, or left over from an earlier iteration does not "
    "count; (7) create_grid_manager_verifier hands out anything other than that certificate-checking predicate (the "
    "always-True `lambda: True`, None - which upload_permitted reads as `no verifier` -, any other value, or falling "
    "off its end) only on paths that established that its `keys` parameter is empty (`not keys`, `len(keys) == 0`, ... "
    "through hoisted temporaries and truthiness-preserving copies), and `keys` is not re-bound to anything else: with "
    "keys configured the verdict is always the per-certificate one of (6); "
    "(8) the seed of the sort key: path exploration of storage_client._parse_announcement with the kind of value each "
    "local holds (announced text = ann['permutation-seed-base32'] / ann.get(..) / copies / .encode(); decoded announced "
    "seed = base32.a2b(announced text); key = base32.a2b(server_id[3:]); hash = hashlib.sha256(server_id).digest()) - "
    "the seed element of the returned tuple is anything but the decoded announced seed only on paths that established "
    "that the announcement lacks the key (`K not in ann`, the lookup or a local holding it tested None / false, the "
    "KeyError handler of ann[K]); so a v0-<pubkey> id, the tubid or a hash never takes precedence over an announced seed; "
    "(9) every get_permutation_seed() outside the tests returns self.<attr> bound only by unpacking "
    "_parse_announcement(...) or self.<holder>.<field> whose attrs field is given, at every construction, an element of "
    "_parse_announcement(...); both server classes use the same element; every _parse_announcement / from_announcement / "
    "_make_storage_system call passes its caller's own un-rebound announcement and server id; (10) without an announced "
    "seed the element is base32.a2b(server_id[3:]) only after a successful regex search/match/fullmatch on server_id, "
    "else hashlib.sha256(server_id).digest(). "
    "Which field is compared, strictness (`expires > now` vs `>=`) and the per-call clock are C33's clauses, as are "
    "what the kept list holds (signature-checked certificates only) and that the checking predicate is not handed "
    "out when no keys are configured (that direction only refuses uploads). "
    "Undecided: SHA-1 itself, Python's tuple ordering / sort stability, the truth of what servers announce as "
    "their permutation seed, the language of the v0- regex itself, base32.a2b, mutation of the announcement dict "
    "between the test and the lookup, the seed of the _NullStorage placeholder (never connected).")
TECHNIQUE = ("static analysis: normal-form agreement of the sort key, CFG must-precede gates for the upload filter, "
             "package-wide who-may-call sweep with a classification table, per-path derivation (taint) product "
             "exploration of the verifier closure, value-kind path exploration of the announcement parser")

SC = "storage_client"
BROKER = SC + ":StorageFarmBroker"
PSI = BROKER + ".get_servers_for_psi"
PERMIT = "upload_permitted"
GM_CREATE = "grid_manager:create_grid_manager_verifier"

# hand classification of every use of get_servers_for_psi (confirmed by reading)
SITES = {
    "allmydata.immutable.upload:Tahoe2ServerSelector.get_shareholders": "upload-flag",
    "allmydata.mutable.publish:Publish.publish": "upload-filtered",
    "allmydata.mutable.publish:Publish.update": "upload-filtered",
    "allmydata.mutable.servermap:ServermapUpdater.update": "read",
    "allmydata.immutable.downloader.finder:ShareFinder.start_finding_servers": "read",
    "allmydata.web.check_results:ResultsBase._render_results": "read",
    "allmydata.immutable.offloaded:Helper._check_chk": "read",      # method value given to the CHK checker
}


# calls that produce no server objects of their own (they only rearrange / measure their arguments)
_PURE_BUILTINS = {"list", "tuple", "sorted", "reversed", "set", "frozenset", "len", "min", "max", "int", "range", "enumerate",
                  "iter", "sum", "abs"}


# ----------------------------------------------------------------- helpers
def _comp(e):
    """(var, iter, [if exprs]) of a one-generator comprehension that yields its own variable
    (optionally wrapped in list()/set()/frozenset()/tuple()), else None."""
    while isinstance(e, ast.Call) and isinstance(e.func, ast.Name) and e.func.id in ("list", "set", "frozenset", "tuple") \
            and len(e.args) == 1 and not e.keywords:
        e = e.args[0]
    if isinstance(e, (ast.ListComp, ast.SetComp, ast.GeneratorExp)) and len(e.generators) == 1:
        g = e.generators[0]
        if isinstance(g.target, ast.Name) and isinstance(e.elt, ast.Name) and e.elt.id == g.target.id and not g.is_async:
            return g.target.id, g.iter, list(g.ifs)
    return None


def _cond_facts(var, ifs):
    """Canonical facts (with the comprehension variable renamed to `x`) that hold for every kept element."""
    nrm = Normaliser(Env(None, rename={var: "x"}, depth=0))
    out = []

    def conj(e):
        if isinstance(e, ast.BoolOp) and isinstance(e.op, ast.And):
            for v in e.values:
                conj(v)
        else:
            out.append(nrm.cmp(e, True))
    for c in ifs:
        conj(c)
    return out


def _filtered_by_permit(e):
    """Is `e` a comprehension keeping exactly the elements x with x.upload_permitted() true?  Returns the
    iterated expression or None."""
    c = _comp(e)
    if c is None:
        return None
    var, it, ifs = c
    if ("truth", "x.%s()" % PERMIT, None) in _cond_facts(var, ifs):
        return it
    return None


def _strip_enumerate(e):
    while isinstance(e, ast.Call) and isinstance(e.func, ast.Name) and e.func.id in ("enumerate", "list", "iter", "tuple") \
            and e.args:
        e = e.args[0]
    return e


def _key_function(idx, fn, fnorm, node, kexpr):
    """Resolve the key= argument of sorted() to (FuncInfo, param name)."""
    kexpr = fnorm.resolve(node, kexpr)
    if isinstance(kexpr, ast.Lambda):
        kf = idx.lambda_func(fn, kexpr)
    elif isinstance(kexpr, ast.Name) and kexpr.id in fn.nested:
        kf = fn.nested[kexpr.id]
    elif isinstance(kexpr, ast.Attribute) and attr_path(kexpr.value) == "self" and fn.cls is not None \
            and fn.cls.lookup(kexpr.attr) is not None:
        kf = fn.cls.lookup(kexpr.attr)
    else:
        return None, None
    ps = first_positional_params(kf)
    if len(ps) != 1:
        return None, None
    return kf, ps[0]


def _ret_values(kf):
    """[(node, value expr)] for every value a function / lambda returns."""
    if isinstance(kf.node, ast.Lambda):
        return [(None, kf.node.body)]
    return [(n, n.ast.value) for n in kf.cfg().find(is_return)]


# ------------------------------------------- C32.6: per-certificate verdict
_OPAQUE_CALLS = {"type", "len", "isinstance", "id", "bool", "callable"}     # f(x) says nothing about the value of x


def _value_names(e):
    """Names an expression's *value* derives from (sub-expressions under type()/len()/... are skipped: the class or
    the length of a certificate field does not identify the certificate)."""
    out = set()
    if e is None:
        return out

    def walk(x):
        if isinstance(x, ast.Call) and isinstance(x.func, ast.Name) and x.func.id in _OPAQUE_CALLS:
            return
        if isinstance(x, ast.Name):
            out.add(x.id)
        for c in ast.iter_child_nodes(x):
            walk(c)
    walk(e)
    return out


def _target_names(t):
    """Plain names (re)bound by an assignment / loop target (`x[i] = ..` and `x.a = ..` bind nothing)."""
    if isinstance(t, ast.Name):
        return {t.id}
    if isinstance(t, (ast.Tuple, ast.List)):
        out = set()
        for e in t.elts:
            out |= _target_names(e)
        return out
    if isinstance(t, ast.Starred):
        return _target_names(t.value)
    return set()


def _node_bindings(n):
    """[(set of plain names bound, value expression or None)] for the bindings made when the CFG node `n` is left
    normally (None: a value the rule does not follow)."""
    a = n.ast
    out = []
    if a is None:
        return out
    if n.kind == "iter":
        out.append((_target_names(a.target), a.iter))
        return out
    if n.kind == "with":
        for it in a.items:
            if it.optional_vars is not None:
                out.append((_target_names(it.optional_vars), None))
        return out
    if n.kind == "except":
        if a.name:
            out.append(({a.name}, None))
        return out
    for e in node_exprs(n):
        for x in own_nodes(e):
            if isinstance(x, ast.NamedExpr) and isinstance(x.target, ast.Name):
                out.append(({x.target.id}, x.value))
    if isinstance(a, ast.Assign):
        for t in a.targets:
            out.append((_target_names(t), a.value))
    elif isinstance(a, ast.AnnAssign) and isinstance(a.target, ast.Name):
        out.append(({a.target.id}, a.value))
    elif isinstance(a, ast.AugAssign) and isinstance(a.target, ast.Name):
        out.append(({a.target.id}, None))        # old (possibly earlier-iteration) value mixed in
    elif isinstance(a, ast.Delete):
        for t in a.targets:
            out.append((_target_names(t), None))
    elif isinstance(a, (ast.FunctionDef, ast.AsyncFunctionDef, ast.ClassDef)):
        out.append(({a.name}, None))
    elif isinstance(a, (ast.Import, ast.ImportFrom)):
        out.append(({(al.asname or al.name).split(".")[0] for al in a.names}, None))
    return out


def _relation(e, polarity):
    """The binary relation that holds between two operands when the atomic condition `e` evaluates to `polarity`:
    ('<' | '<=', small, large), ('==', a, b), or None."""
    while isinstance(e, ast.UnaryOp) and isinstance(e.op, ast.Not):
        e, polarity = e.operand, not polarity
    if not (isinstance(e, ast.Compare) and len(e.ops) == 1):
        return None
    a, b, op = e.left, e.comparators[0], type(e.ops[0])
    neg = {ast.Lt: ast.GtE, ast.GtE: ast.Lt, ast.Gt: ast.LtE, ast.LtE: ast.Gt, ast.Eq: ast.NotEq, ast.NotEq: ast.Eq}
    if op not in neg:
        return None
    if not polarity:
        op = neg[op]
    if op is ast.Lt:
        return ("<", a, b)
    if op is ast.LtE:
        return ("<=", a, b)
    if op is ast.Gt:
        return ("<", b, a)
    if op is ast.GtE:
        return ("<=", b, a)
    if op is ast.Eq:
        return ("==", a, b)
    return None


def _gates(e, pol, fresh, skey, conds):
    """Which per-certificate facts hold when expression `e` evaluates to `pol`, given the names currently derived
    from this iteration's certificate (`fresh`), from the expected server key (`skey`) and the boolean
    temporaries whose truth already implies a fact (`conds`):
      'exp'  X < Y or X <= Y with Y derived from the current certificate and X not (the clock side);
      'key'  A == B with one side derived from the current certificate and the other from the server key."""
    if isinstance(e, ast.UnaryOp) and isinstance(e.op, ast.Not):
        return _gates(e.operand, not pol, fresh, skey, conds)
    if isinstance(e, ast.NamedExpr):
        return _gates(e.value, pol, fresh, skey, conds)
    if isinstance(e, ast.BoolOp):
        parts = [_gates(v, pol, fresh, skey, conds) for v in e.values]
        if isinstance(e.op, ast.And) == bool(pol):
            return set().union(*parts)
        return set.intersection(*parts) if parts else set()
    if isinstance(e, ast.Name):
        return {k for (nm, k, p) in conds if nm == e.id and p == pol}
    if isinstance(e, ast.Call) and isinstance(e.func, ast.Name) and e.func.id == "bool" and len(e.args) == 1 and not e.keywords:
        return _gates(e.args[0], pol, fresh, skey, conds)
    rel = _relation(e, pol)
    if rel is None:
        return set()
    op, a, b = rel
    na, nb = _value_names(a), _value_names(b)
    if op in ("<", "<="):
        if (nb & fresh) and na and not (na & fresh):
            return {"exp"}
        return set()
    for (x, y) in ((na, nb), (nb, na)):
        if (x & fresh) and not (x & skey) and (y & skey) and not (y & fresh):
            return {"key"}
    return set()


def _loop_bound_names(fn):
    """name -> the outermost loop statement of `fn` inside which the name is (re)bound (loop targets included):
    after the loop such a name holds what the *last* iteration left."""
    out = {}

    def header_exprs(s):
        if isinstance(s, (ast.FunctionDef, ast.AsyncFunctionDef, ast.ClassDef)):
            return []
        if not any(isinstance(getattr(s, f, None), list) and getattr(s, f) and isinstance(getattr(s, f)[0], ast.stmt)
                   for f in ("body", "orelse", "finalbody")):
            return [s]
        hs = [getattr(s, "test", None), getattr(s, "iter", None), getattr(s, "subject", None)]
        hs += [i.context_expr for i in getattr(s, "items", []) or []]
        return [h for h in hs if h is not None]

    def binds(s):
        names = set()
        if isinstance(s, ast.Assign):
            for t in s.targets:
                names |= _target_names(t)
        elif isinstance(s, (ast.AugAssign, ast.AnnAssign)):
            names |= _target_names(s.target)
        elif isinstance(s, (ast.For, ast.AsyncFor)):
            names |= _target_names(s.target)
        elif isinstance(s, (ast.With, ast.AsyncWith)):
            for i in s.items:
                if i.optional_vars is not None:
                    names |= _target_names(i.optional_vars)
        elif isinstance(s, (ast.FunctionDef, ast.AsyncFunctionDef, ast.ClassDef)):
            names.add(s.name)
        for h in header_exprs(s):
            for x in own_nodes(h):
                if isinstance(x, ast.NamedExpr) and isinstance(x.target, ast.Name):
                    names.add(x.target.id)
        return names

    def visit(stmts, loop):
        for s in stmts:
            inner = loop
            if isinstance(s, (ast.For, ast.AsyncFor, ast.While)):
                inner = loop or s
            if inner is not None:
                for nm in binds(s):
                    out.setdefault(nm, inner)
            if isinstance(s, (ast.FunctionDef, ast.AsyncFunctionDef, ast.ClassDef)):
                continue
            for fld in ("body", "orelse", "finalbody"):
                sub = getattr(s, fld, None)
                if isinstance(sub, list) and sub and isinstance(sub[0], ast.stmt):
                    visit(sub, inner)
            for h in getattr(s, "handlers", []) or []:
                if inner is not None and h.name:
                    out.setdefault(h.name, inner)
                visit(h.body, inner)
            for c in getattr(s, "cases", []) or []:
                visit(c.body, inner)
    visit(fn.node.body, None)
    return out


# ------------------------------------------- C32.8-C32.10: which seed a server is permuted by
PARSE = SC + ":_parse_announcement"
SEED_KEY = "permutation-seed-base32"


def _node_of(fn, astnode):
    """The CFG node of `fn` at which the expression `astnode` is evaluated."""
    for n in fn.cfg().nodes:
        for e in node_exprs(n) if n.kind != "stmt" else [n.ast]:
            if e is not None and any(x is astnode for x in own_nodes(e, into_lambda=True)):
                return n
    raise AnalysisError("%s: cannot place %s in the CFG" % (fn.qual, fn.loc(astnode)))


def _own_param(fn, e, fnorm, node):
    """Is the argument `e` one of fn's own parameters, never re-bound in fn (or self.<a> bound in fn from such a
    parameter only)?  Returns the parameter name or None."""
    rebound = {t for n in fn.cfg().nodes for t in node_stores(n)}
    e = fnorm.resolve(node, e)
    if isinstance(e, ast.Name) and e.id in fn.params and e.id not in rebound:
        return e.id
    p = attr_path(e)
    if p and p.startswith("self.") and p.count(".") == 1:
        vals = [assign_value(n, p) for n in fn.cfg().nodes if n.kind == "stmt" and p in node_stores(n)]
        if vals and all(isinstance(v, ast.Name) and v.id in fn.params and v.id not in rebound for v in vals) \
                and len({v.id for v in vals}) == 1:
            return vals[0].id
    return None


def _unpacked_position(fn, fnorm, node, e, callee_tail):
    """`e` (evaluated at `node`) is element i of the tuple `callee_tail(...)` returned: (call, i), else None."""
    v = fnorm.resolve(node, e)
    if isinstance(v, ast.Subscript) and isinstance(v.value, ast.Name):
        v = ast.Subscript(value=fnorm.resolve(node, v.value), slice=v.slice, ctx=ast.Load())
    if isinstance(v, ast.Subscript) and isinstance(v.value, ast.Call) and call_tail(v.value) == callee_tail \
            and isinstance(v.slice, ast.Constant) and isinstance(v.slice.value, int):
        return v.value, v.slice.value
    return None


def _seed_route(idx, cg, r):
    """Follow every non-test get_permutation_seed() back to the element of _parse_announcement's result it returns.
    Returns the set of tuple positions; records the sites / violations of C32.9 on `r`."""
    pa = idx.func(PARSE)
    pps = first_positional_params(pa)
    if "ann" not in pps or "server_id" not in pps:
        raise AnchorVanished("_parse_announcement no longer takes (server_id, .., ann)")
    positions = set()
    used_calls = []

    def not_test(f):
        return not f.module.name.startswith("allmydata.test")

    def check_args(f, call, callee, what):
        """the announcement / server id handed on are the caller's own"""
        cps = first_positional_params(callee)
        if cps and cps[0] in ("self", "cls"):
            cps = cps[1:]
        node = _node_of(f, call)
        fnorm = FlowNorm(f)
        for pn in ("ann", "server_id"):
            if pn not in cps:
                raise AnchorVanished("%s has no parameter %s" % (short(callee), pn))
            a = kwarg(call, pn) or arg(call, cps.index(pn))
            own = _own_param(f, a, fnorm, node) if a is not None else None
            r.require(own is not None, f, f.loc(call), "%s passes %s as %s of %s: the seed would be computed from something "
                      "other than this server's own %s" % (short(f), src(f, a) if a is not None else "nothing", pn, what,
                                                         "announcement" if pn == "ann" else "id"))

    impls = [f for f in idx.by_name.get("get_permutation_seed", []) if f.cls is not None and not_test(f)
             and not f.module.name.endswith(".interfaces")]
    if len(impls) < 2:
        raise AnchorVanished("expected two get_permutation_seed implementations, found %d" % len(impls))
    for f in impls:
        fnorm = FlowNorm(f)
        rets = f.cfg().find(is_return)
        if not rets:
            raise AnchorVanished("%s returns nothing" % short(f))
        for n in rets:
            r.site(f, n.ast, "seed accessor")
            path = attr_path(fnorm.resolve(n, n.ast.value)) if n.ast.value is not None else None
            if not path or not path.startswith("self."):
                r.violation(f, f.loc(n.ast), "%s returns %s, not the seed kept for this server" % (
                    short(f), src(f, n.ast.value) if n.ast.value is not None else "None"))
                continue
            parts = path.split(".")[1:]
            if len(parts) == 1:
                # self.<a>: bound in the class by unpacking _parse_announcement(...)
                a = parts[0]
                stores_ = [(g, nd) for (g, nd) in cg.attr_stores(a) if g.cls is not None and f.cls in g.cls.mro()]
                if not stores_:
                    raise AnchorVanished("%s.%s is never bound" % (f.cls.name, a))
                for (g, nd) in stores_:
                    gn = _node_of(g, nd)
                    pos = _tuple_store_position(gn, "self." + a, PARSE.split(":")[1])
                    if pos is None:
                        r.violation(g, g.loc(nd), "%s binds self.%s, which get_permutation_seed() returns, to something other "
                                    "than the seed element of _parse_announcement(...)" % (short(g), a))
                        continue
                    positions.add(pos[1])
                    used_calls.append((g, pos[0]))
            elif len(parts) == 2:
                # self.<holder>.<field>: the field of the storage description object(s) built from the announcement
                holder, field = parts
                owners = [c for c in f.module.classes.values() if field in c.attrs]
                built = 0
                for c in owners:
                    vals = c.attrs[field]
                    if not all(isinstance(v, ast.Call) and call_tail(v) in ("ib", "field") for v in vals):
                        continue        # a class-level constant (the placeholder for servers we cannot talk to)
                    cons = [(cs.fn, cs.call) for cs in cg.calls_named(c.name) if not_test(cs.fn)]
                    for m in c.methods.values():
                        if m.params and m.params[0] == "cls":
                            cons += [(m, x) for x in calls_in_func(m) if isinstance(x.func, ast.Name) and x.func.id == "cls"]
                    for (g, call) in cons:
                        built += 1
                        v = kwarg(call, field)
                        gn = _node_of(g, call)
                        pos = _unpacked_position(g, FlowNorm(g), gn, v, PARSE.split(":")[1]) if v is not None else None
                        if pos is None:
                            r.violation(g, g.loc(call), "%s builds %s with %s=%s, which is not the seed element of "
                                        "_parse_announcement(...)" % (short(g), c.name, field, src(g, v) if v is not None else "<positional>"))
                            continue
                        positions.add(pos[1])
                        used_calls.append((g, pos[0]))
                if not built:
                    raise AnchorVanished("no class of %s keeps a %s field built from the announcement" % (f.module.name, field))
            else:
                raise AnalysisError("%s returns %s: the rule follows self.<a> and self.<holder>.<field> only" % (short(f), path))
    # every _parse_announcement call in the package is one of those, and is given the caller's own announcement / id
    for cs in cg.calls_named(PARSE.split(":")[1]):
        if not not_test(cs.fn):
            continue
        r.site(cs.fn, cs.call, "parses the announcement")
        check_args(cs.fn, cs.call, pa, "_parse_announcement")
    # one hop up: who builds the description objects / the system from an announcement
    for tail in ("from_announcement", "_make_storage_system"):
        for cs in cg.calls_named(tail):
            if not not_test(cs.fn):
                continue
            cands = [g for g in cg.resolve(cs.fn, cs.call) if g.name == tail] or \
                [g for g in idx.by_name.get(tail, []) if g.module is cs.fn.module]
            if len(cands) != 1:
                raise AnalysisError("cannot resolve %s called in %s" % (tail, cs.fn.qual))
            r.site(cs.fn, cs.call, "hands the announcement on")
            check_args(cs.fn, cs.call, cands[0], tail)
    return positions


def _tuple_store_position(node, target_path, callee_tail):
    """The CFG node is `(.., <target_path>, ..) = callee_tail(...)`: (call, i), else None."""
    a = node.ast
    if not (isinstance(a, ast.Assign) and isinstance(a.value, ast.Call) and call_tail(a.value) == callee_tail):
        return None
    for t in a.targets:
        if isinstance(t, (ast.Tuple, ast.List)) and not any(isinstance(e, ast.Starred) for e in t.elts):
            hits = [i for i, e in enumerate(t.elts) if attr_path(e) == target_path]
            if len(hits) == 1:
                return a.value, hits[0]
    return None


def _seed_paths(idx, positions):
    """Explore every path of _parse_announcement, following which kind of value each local holds:
      raw   the announced text (ann[K], ann.get(K[, d]), copies, .encode() of it)
      none  the constant None
      good  base32.a2b(raw)
      key   base32.a2b(server_id[3:])
      hash  hashlib.sha256(server_id).digest()
    and whether the path established that K is absent from the announcement / that a regex test of server_id
    succeeded.  Returns [(return node, position, kind|None, absent, v0, witness, state count)]."""
    fn = idx.func(PARSE)
    cfg = fn.cfg()
    fnorm = FlowNorm(fn)
    ann, sid = "ann", "server_id"
    for n in cfg.nodes:
        if {ann, sid} & set(node_stores(n)):
            raise AnalysisError("_parse_announcement re-binds %s: the rule cannot follow it" % sorted({ann, sid} & set(node_stores(n))))

    def is_lookup(e):
        if isinstance(e, ast.Subscript) and isinstance(e.value, ast.Name) and e.value.id == ann \
                and isinstance(e.slice, ast.Constant) and e.slice.value == SEED_KEY:
            return True
        return isinstance(e, ast.Call) and isinstance(e.func, ast.Attribute) and e.func.attr == "get" \
            and isinstance(e.func.value, ast.Name) and e.func.value.id == ann and e.args \
            and isinstance(e.args[0], ast.Constant) and e.args[0].value == SEED_KEY

    def kind_of(e, kinds):
        if e is None:
            return None
        if isinstance(e, ast.Name):
            return kinds.get(e.id)
        if isinstance(e, ast.NamedExpr):
            return kind_of(e.value, kinds)
        if isinstance(e, ast.IfExp):
            ks = {kind_of(e.body, kinds), kind_of(e.orelse, kinds)}
            return ks.pop() if len(ks) == 1 else None
        if isinstance(e, ast.Constant) and e.value is None:
            return "none"
        if is_lookup(e):
            return "raw"
        if isinstance(e, ast.Call) and isinstance(e.func, ast.Attribute) and e.func.attr == "encode" \
                and kind_of(e.func.value, kinds) == "raw":
            return "raw"
        if isinstance(e, ast.Call) and call_tail(e) == "a2b" and len(e.args) == 1 and not e.keywords:
            a = e.args[0]
            if kind_of(a, kinds) == "raw":
                return "good"
            while isinstance(a, ast.Name) and a.id not in kinds and a.id in udefs:
                a = udefs[a.id]
            if isinstance(a, ast.Subscript) and isinstance(a.value, ast.Name) and a.value.id == sid \
                    and isinstance(a.slice, ast.Slice) and isinstance(a.slice.lower, ast.Constant) and a.slice.lower.value == 3 \
                    and a.slice.upper is None and a.slice.step is None:
                return "key"
            return None
        if isinstance(e, ast.Call) and isinstance(e.func, ast.Attribute) and e.func.attr == "digest" and not e.args:
            h = e.func.value
            while isinstance(h, ast.Name) and h.id in udefs:
                h = udefs[h.id]
            if isinstance(h, ast.Call) and call_name(h) in ("hashlib.sha256", "sha256") and len(h.args) == 1 and not h.keywords \
                    and isinstance(h.args[0], ast.Name) and h.args[0].id == sid:
                return "hash"
        return None

    udefs = unique_defs(fn)
    lookup_txt = (norm_src("%s.get(%r)" % (ann, SEED_KEY)), norm_src("%s.get(%r, None)" % (ann, SEED_KEY)))
    RX = re.compile(r"^(?:[\w.]+\.)?(?:search|match|fullmatch)\(.*\b%s\)$" % re.escape(sid), re.S)

    def edge(n, lab, kinds):
        """(absent established, regex test of server_id succeeded) on this test edge"""
        f = fnorm.edge_fact(n, lab)
        if not f:
            return False, False
        op, a, b = f
        looked_up = set(lookup_txt) | {nm for (nm, k) in kinds if k == "raw"}      # the lookup itself or a local holding it
        absent = (op == "not in" and a == repr(SEED_KEY) and b == ann) or \
            (op == "is" and {a, b} & looked_up and "None" in (a, b)) or \
            (op == "false" and a in looked_up)
        v0 = (op == "truth" and RX.match(a) is not None) or \
            (op == "is not" and "None" in (a, b) and RX.match(a if b == "None" else b) is not None)
        return bool(absent), bool(v0)

    def transfer(n, lab, nxt, st):
        kinds, absent, v0 = st
        if n.kind in ("entry", "exit", "raise"):
            return st
        if lab == "exc":
            if nxt.kind == "except" and nxt.ast is not None and nxt.ast.type is not None:
                tn = {x.id for x in ast.walk(nxt.ast.type) if isinstance(x, ast.Name)}
                if tn and tn <= {"KeyError", "LookupError"} and any(
                        is_lookup(x) and isinstance(x, ast.Subscript) for e in node_exprs(n) + ([n.ast] if n.kind == "stmt" else [])
                        for x in own_nodes(e)):
                    absent = True
            return (kinds, absent, v0)
        binds = _node_bindings(n)
        if binds:
            km = dict(kinds)
            for (names, v) in binds:
                k = kind_of(v, km) if (v is not None and len(names) == 1 and n.kind not in ("iter",)) else None
                for nm in names:
                    if k is None:
                        km.pop(nm, None)
                    else:
                        km[nm] = k
            kinds = frozenset(km.items())
        if n.kind == "test" and isinstance(lab, tuple):
            f = fnorm.edge_fact(n, lab)
            nones = {nm for (nm, k) in kinds if k == "none"}
            if f and ((f[0] == "is not" and {f[1], f[2]} & nones and "None" in f[1:]) or (f[0] == "truth" and f[1] in nones)):
                return None         # a local that holds None on this path does not pass `is not None`
            a_, v_ = edge(n, lab, kinds)
            absent, v0 = absent or a_, v0 or v_
        return (kinds, absent, v0)

    visited, parent = explore(cfg, (frozenset(), False, False), transfer)
    out = []
    rets = cfg.find(is_return)
    if not rets:
        raise AnchorVanished("_parse_announcement has no return")
    for n in rets:
        v = fnorm.resolve(n, n.ast.value) if n.ast.value is not None else None
        if not isinstance(v, ast.Tuple):
            raise AnalysisError("_parse_announcement returns %s, not a tuple literal the rule can index" % (
                src(fn, v) if v is not None else "None"))
        for pos in sorted(positions):
            if pos >= len(v.elts):
                raise AnalysisError("_parse_announcement's result has no element %d" % pos)
            seen = set()
            for (nid, st) in sorted(visited, key=lambda z: (z[0], z[1][1], z[1][2], sorted(z[1][0]))):
                if nid != n.id:
                    continue
                k = kind_of(v.elts[pos], dict(st[0]))
                sig = (k, st[1], st[2])
                if sig in seen:
                    continue
                seen.add(sig)
                out.append((n, pos, v.elts[pos], k, st[1], st[2], witness(cfg, parent, (nid, st))))
    return fn, out, len(visited)


def _last_value_on(fn, w, e):
    """The expression the returned name `e` was last bound to along the witness path (copies followed)."""
    name = e.id if isinstance(e, ast.Name) else None
    if name is None:
        return e
    for (node, lab) in reversed(w.path):
        if lab == "exc":
            continue
        for (names, v) in _node_bindings(node):
            if name in names:
                if isinstance(v, ast.Name):
                    name = v.id
                    break
                return v if v is not None else node.ast
    return e


def run(ctx: Context):
    idx = ctx.idx
    cg = get_callgraph(idx)

    # -- 1. ordering key ---------------------------------------------------
    with ctx.rule("C32.1", "R6", "get_servers_for_psi returns sorted(S, key=K), K(server) = (server not in preferred, "
                  "permute_server_hash(psi, server.get_permutation_seed())); permute_server_hash(a,b) = sha1(a+b).digest()",
                  expected=3) as r:
        fn = idx.func(PSI)
        cfg = fn.cfg()
        fnorm = FlowNorm(fn)
        psi = first_positional_params(fn)[0]
        rets = cfg.find(is_return)
        if not rets:
            raise AnchorVanished("get_servers_for_psi has no return")
        for n in rets:
            r.site(fn, n.ast, "return")
            v = fnorm.resolve(n, n.ast.value)
            if not (isinstance(v, ast.Call) and call_name(v) == "sorted" and v.args):
                r.violation(fn, fn.loc(n.ast), "get_servers_for_psi returns %s, not a sorted(...) list of the connected "
                            "servers: clients would not agree on the server order" % src(fn, v))
                continue
            rev = kwarg(v, "reverse")
            r.require(rev is None or (isinstance(rev, ast.Constant) and not rev.value), fn, fn.loc(v),
                      "the permuted list is sorted with reverse=%s" % (src(fn, rev) if rev is not None else ""))
            kexpr = kwarg(v, "key")
            if kexpr is None:
                r.violation(fn, fn.loc(v), "sorted() without key=: servers are not ordered by the permuted hash")
                continue
            kf, kp = _key_function(idx, fn, fnorm, n, kexpr)
            if kf is None:
                raise AnalysisError("cannot resolve the sort key %s of get_servers_for_psi" % src(fn, kexpr))
            r.site(kf, None, "sort key")
            # free variables of the key function that are plain copies of the psi parameter in the enclosing function
            ren = {kp: "server"}
            for nm in all_defs(fn):
                if nm != psi and nm not in kf.params and fnorm.norm(n, ast.Name(id=nm, ctx=ast.Load())) == psi:
                    ren[nm] = psi
            # `preferred`: a free variable of the key function, defined once in get_servers_for_psi
            for (kn, kv) in _ret_values(kf):
                if kn is not None:
                    kv = FlowNorm(kf).resolve(kn, kv)
                    knrm = FlowNorm(kf, rename=ren).at(kn)
                else:
                    knrm = N(None, rename=ren, depth=0)
                kloc = kf.loc(kn.ast if kn is not None else None)
                if not (isinstance(kv, ast.Tuple) and len(kv.elts) == 2):
                    r.violation(kf, kloc, "sort key is %s, not the pair (not-preferred, permuted hash)" % src(kf, kv))
                    continue
                op, l, rr = knrm.cmp(kv.elts[0], True)
                pref = None
                if op == "not in" and l == "server":
                    pref = rr
                r.require(pref is not None, kf, kloc, "first key component is %s: preferred servers do not sort first "
                          "(expected `server not in <preferred set>`)" % src(kf, kv.elts[0]))
                h = kv.elts[1]
                hs = knrm.norm(h)
                want = "permute_server_hash(%s, server.get_permutation_seed())" % psi
                r.require(re.match(r"^(\w+\.)*" + re.escape(want) + "$", hs) is not None, kf, kloc,
                          "second key component is %s, expected %s" % (hs, want))
                if pref is not None:
                    # the preferred set: connected servers x with x.get_longname() in self.preferred_peers
                    pdefs = all_defs(fn).get(pref, [])
                    okp = False
                    if len(pdefs) == 1:
                        c = _comp(pdefs[0])
                        if c is not None:
                            facts = _cond_facts(c[0], c[2])
                            okp = facts == [("in", "x.get_longname()", "self.preferred_peers")]
                    r.require(okp, fn, fn.loc(pdefs[0] if pdefs else None),
                              "the preferred set %s is not {x in servers | x.get_longname() in self.preferred_peers}" % pref)
        # the hash itself (compat-frozen: every client must compute the same permutation)
        hf = idx.func("util.hashutil:permute_server_hash")
        r.site(hf, None, "permute_server_hash")
        hp = first_positional_params(hf)
        hnorm = FlowNorm(hf)
        hrets = hf.cfg().find(is_return)
        r.require(len(hp) == 2 and len(hrets) >= 1, hf, hf.loc(), "permute_server_hash signature changed")
        for n in hrets:
            v = hnorm.resolve(n, n.ast.value)
            ok = False
            if isinstance(v, ast.Call) and isinstance(v.func, ast.Attribute) and v.func.attr == "digest" and not v.args:
                inner = hnorm.resolve(n, v.func.value)
                if isinstance(inner, ast.Call) and call_name(inner) in ("hashlib.sha1", "sha1") and len(inner.args) == 1 \
                        and not inner.keywords:
                    cat = hnorm.resolve(n, inner.args[0])
                    if isinstance(cat, ast.BinOp) and isinstance(cat.op, ast.Add):
                        a, b = hnorm.resolve(n, cat.left), hnorm.resolve(n, cat.right)
                        ok = isinstance(a, ast.Name) and isinstance(b, ast.Name) and [a.id, b.id] == hp[:2]
            r.require(ok, hf, hf.loc(n.ast), "permute_server_hash returns %s, expected sha1(%s + %s).digest(): other "
                      "clients would compute a different server order" % (src(hf, n.ast.value), hp[0], hp[1] if len(hp) > 1 else "?"))

    # -- 2. for_upload filter ----------------------------------------------
    with ctx.rule("C32.2", "R1", "get_servers_for_psi: when for_upload is true the list that is sorted was filtered by "
                  "`if srv.upload_permitted()`", expected=1) as r:
        fn = idx.func(PSI)
        cfg = fn.cfg()
        fnorm = FlowNorm(fn)
        ps = first_positional_params(fn)
        if "for_upload" not in ps:
            raise AnchorVanished("get_servers_for_psi has no for_upload parameter")
        # default must stay False-y only for readers: not part of the property; the flag must not be re-bound
        for n in cfg.find(stores("for_upload")):
            r.violation(fn, fn.loc(n.ast), "for_upload is re-bound inside get_servers_for_psi")
        for n in cfg.find(is_return):
            v = fnorm.resolve(n, n.ast.value)
            if not (isinstance(v, ast.Call) and call_name(v) == "sorted" and v.args):
                continue        # reported by C32.1
            lst = v.args[0]
            r.site(fn, n.ast, "sorted list " + src(fn, lst))
            if _filtered_by_permit(lst) is not None:
                continue        # filtered unconditionally in the return expression itself
            if not isinstance(lst, ast.Name):
                r.violation(fn, fn.loc(n.ast), "cannot see a upload_permitted() filter on %s" % src(fn, lst))
                continue
            var = lst.id

            def not_upload(nn, lab):
                f = fnorm.edge_fact(nn, lab)
                return bool(f) and f[0] in ("false",) and f[1] == "for_upload" or \
                    bool(f) and f[0] in ("is", "==") and {f[1], f[2]} == {"False", "for_upload"}

            def filters(nn, _var=var):
                val = assign_value(nn, _var)
                if val is None:
                    return False
                it = _filtered_by_permit(val)
                return it is not None

            # product state: (saw `for_upload` false, the list variable currently holds a filtered list)
            def transfer(a, lab, nxt, st, _var=var):
                nu, flt = st
                if a.kind in ("entry", "exit", "raise"):
                    return st
                if lab != "exc" and _var in node_stores(a):
                    flt = filters(a)
                if not_upload(a, lab):
                    nu = True
                return (nu, flt)
            visited, parent = explore(cfg, (False, False), transfer)
            r.count(len(visited))
            for (nid, st) in sorted(visited):
                if nid == n.id and not (st[0] or st[1]):
                    w = witness(cfg, parent, (nid, st))
                    r.violation(fn, fn.loc(n.ast), "with for_upload set, servers without a valid grid-manager "
                                "certificate stay in the returned list: no `if srv.upload_permitted()` filter on %s "
                                "(path: %s)" % (var, w.brief()), w)
                    break
            # the filter keeps elements of the connected set (it must not swap in another collection)
            for nn in cfg.find(filters):
                it = _filtered_by_permit(assign_value(nn, var))
                its = fnorm.norm(nn, it)
                r.require(its in ("self.get_connected_servers()",), fn, fn.loc(nn.ast),
                          "the upload filter iterates %s, not the connected servers" % its)

    # -- 3. classified sweep of all call sites -----------------------------
    with ctx.rule("C32.3", "R4", "every use of get_servers_for_psi is classified: uploader passes for_upload=True, the "
                  "mutable publisher only feeds full_serverlist (read only by update_goal), others are readers",
                  expected=7) as r:
        seen = {}
        uses = [(cs.fn, cs.call, True) for cs in cg.calls_named("get_servers_for_psi")]
        uses += [(f, nd, False) for (f, nd) in cg.refs_named("get_servers_for_psi") if isinstance(nd, ast.Attribute)]
        for (f, nd, is_call) in uses:
            kind = SITES.get(f.qual)
            if kind is None and f.parent is not None:
                p = f.parent
                while p is not None and kind is None:
                    kind = SITES.get(p.qual)
                    p = p.parent
            r.site(f, nd, kind or "unclassified")
            seen[f.qual] = kind
            passes_flag = False
            if is_call:
                fu = kwarg(nd, "for_upload") or arg(nd, 1)
                passes_flag = isinstance(fu, ast.Constant) and fu.value is True
            if kind is None:
                if passes_flag:
                    continue          # a new uploader that asks for the filtered list is fine
                raise AnalysisError("unclassified use of get_servers_for_psi in %s (%s): decide whether it places "
                                    "shares (must pass for_upload=True or filter by upload_permitted) and add it to "
                                    "the SITES table of sa/rules/C32.py" % (f.qual, f.loc(nd)))
            if kind == "upload-flag":
                r.require(is_call and passes_flag, f, f.loc(nd), "the uploader asks for the server list without "
                          "for_upload=True (%s): shares would be placed on servers without a valid certificate" % src(f, nd))
                if is_call and passes_flag:
                    # ... and the servers it builds share trackers for come from that filtered list only
                    tcalls = [c for c in calls_in_func(f) if call_tail(c) == "_create_trackers"]
                    if not tcalls:
                        raise AnchorVanished("%s no longer builds its trackers through _create_trackers" % short(f))
                    local = set(all_defs(f)) - set(f.params)
                    for tc in tcalls:
                        cand = arg(tc, 0, "candidate_servers")
                        if cand is None:
                            raise AnchorVanished("%s: _create_trackers call without candidate servers" % short(f))
                        r.site(f, tc, "trackers built from")
                        feeding = calls_feeding(f, cand)
                        other = [c for c in feeding if c is not nd
                                 and not (isinstance(c.func, ast.Name) and c.func.id in _PURE_BUILTINS)
                                 and not (isinstance(c.func, ast.Attribute) and isinstance(c.func.value, ast.Name)
                                          and c.func.value.id in local)]
                        r.require(any(c is nd for c in feeding), f, f.loc(tc), "the servers given to _create_trackers (%s) do "
                                  "not come from the for_upload=True server list: shares would be offered to servers "
                                  "without a valid certificate" % src(f, cand))
                        for c in other:
                            r.violation(f, f.loc(tc), "the servers given to _create_trackers (%s) also come from %s, not only "
                                        "from the for_upload=True server list: shares would be offered to servers without a "
                                        "valid certificate" % (src(f, cand), src(f, c)))
            elif kind == "upload-filtered" and is_call and not passes_flag:
                # the unfiltered list may only go to self.full_serverlist (filtered later by update_goal)
                fnm = FlowNorm(f)
                want = None
                for n in f.cfg().stmt_nodes():
                    for t in node_stores(n):
                        if t.startswith("self.") and isinstance(n.ast, ast.Assign) \
                                and any(c is nd for c in calls_feeding(f, n.ast.value)):
                            want = want or set()
                            want.add(t)
                r.require(want == {"self.full_serverlist"}, f, f.loc(nd),
                          "the unfiltered server list is stored in %s (expected only self.full_serverlist)" % sorted(want or []))
        for q, kind in SITES.items():
            if q not in seen:
                raise AnchorVanished("classified get_servers_for_psi site %s no longer uses it (table out of date)" % q)
        # who reads Publish.full_serverlist
        pub = idx.cls("mutable.publish:Publish")
        for (f, nd) in cg.refs_named("full_serverlist"):
            if f.module is not pub.module or not isinstance(nd, ast.Attribute):
                continue
            if f.qual != pub.qual + ".update_goal" and not f.qual.startswith(pub.qual + ".update_goal."):
                r.violation(f, f.loc(nd), "%s reads the unfiltered full_serverlist outside update_goal" % short(f))

    # -- 4. mutable publisher filters new placements -----------------------
    with ctx.rule("C32.4", "R1/R3", "Publish.update_goal: a (server, shnum) placement is added only for servers from a "
                  "list filled under server.upload_permitted() while walking self.full_serverlist", expected=2) as r:
        fn = idx.func("mutable.publish:Publish.update_goal")
        cfg = fn.cfg()
        fnorm = FlowNorm(fn)
        adds = [n for n in cfg.stmt_nodes() for c in node_calls(n)
                if call_name(c) in ("self.goal.add", "self.goal.update")]
        if not adds:
            raise AnchorVanished("update_goal no longer adds to self.goal")
        for n in cfg.stmt_nodes():
            if "self.goal" in node_stores(n) and isinstance(n.ast, ast.AugAssign):
                r.violation(fn, fn.loc(n.ast), "self.goal is extended by an augmented assignment the rule cannot follow")
        for n in adds:
            c = [c for c in node_calls(n) if call_name(c) in ("self.goal.add", "self.goal.update")][0]
            r.site(fn, c, "goal.add")
            a0 = arg(c, 0)
            a0 = fnorm.resolve(n, a0) if a0 is not None else None
            if call_tail(c) != "add" or not (isinstance(a0, ast.Tuple) and len(a0.elts) == 2):
                r.violation(fn, fn.loc(c), "placement %s is not a (server, shnum) pair the rule can follow" % src(fn, c))
                continue
            sv = fnorm.norm(n, a0.elts[0])
            m = re.match(r"^(\w+)\[.+\]\[(\d+)\]$", sv)
            direct = re.match(r"^(\w+)\[[^\]]+\]$", sv)
            if m:
                lname, pos = m.group(1), int(m.group(2))
            elif direct:
                lname, pos = direct.group(1), None
            else:
                r.violation(fn, fn.loc(c), "the server of a new placement is %s, not an element of the filtered "
                            "candidate list" % sv)
                continue
            # every way the candidate list gets elements
            fills = []
            for nn in cfg.stmt_nodes():
                for cc in node_calls(nn):
                    if attr_path(cc.func.value if isinstance(cc.func, ast.Attribute) else None) == lname \
                            and call_tail(cc) in ("append", "extend", "insert", "add", "update"):
                        fills.append((nn, cc))
                if lname in node_stores(nn) and nn.kind == "stmt":
                    val = assign_value(nn, lname)
                    empty = isinstance(val, (ast.List, ast.Tuple)) and not val.elts or \
                        (isinstance(val, ast.Call) and call_name(val) == "list" and not val.args)
                    if not empty:
                        fills.append((nn, None))
            if not fills:
                raise AnchorVanished("update_goal: candidate list %s is never filled" % lname)
            for (nn, cc) in fills:
                r.site(fn, nn.ast, "candidate fill")
                if cc is None:
                    # whole-list binding: accept a comprehension filtered by upload_permitted over full_serverlist
                    val = assign_value(nn, lname)
                    it = _filtered_by_permit(val) if val is not None else None
                    ok = it is not None and pos is None and fnorm.norm(nn, _strip_enumerate(it)) == "self.full_serverlist"
                    r.require(ok, fn, fn.loc(nn.ast), "candidate list %s is bound to %s, which is not filtered by "
                              "upload_permitted()" % (lname, src(fn, val)))
                    continue
                if call_tail(cc) != "append" or len(cc.args) != 1:
                    r.violation(fn, fn.loc(cc), "candidate list %s is filled by %s, which the rule cannot follow" % (
                        lname, src(fn, cc)))
                    continue
                ent = fnorm.resolve(nn, cc.args[0])
                if pos is not None:
                    if not (isinstance(ent, ast.Tuple) and len(ent.elts) > pos):
                        r.violation(fn, fn.loc(cc), "candidate entry %s has no component %d" % (src(fn, ent), pos))
                        continue
                    ent = fnorm.resolve(nn, ent.elts[pos])
                if not isinstance(ent, ast.Name):
                    r.violation(fn, fn.loc(cc), "candidate server is %s, not the loop variable over full_serverlist" % src(fn, ent))
                    continue
                sname = ent.id
                # the loop that binds it
                loops = [x for x in cfg.nodes if x.kind == "iter" and sname in node_stores(x)]
                src_ok = False
                prefiltered = False
                for lp in loops:
                    it = fnorm.resolve(lp, _strip_enumerate(lp.ast.iter))
                    it = _strip_enumerate(it)
                    if fnorm.norm(lp, it) == "self.full_serverlist":
                        src_ok = True
                    else:
                        inner = _filtered_by_permit(it)
                        if inner is not None and fnorm.norm(lp, _strip_enumerate(inner)) == "self.full_serverlist":
                            src_ok = prefiltered = True
                r.require(src_ok, fn, fn.loc(cc), "candidate server %s does not come from self.full_serverlist" % sname)
                if prefiltered:
                    continue

                def permitted(x, lab, _s=sname):
                    return fnorm.edge_fact(x, lab) == ("truth", "%s.%s()" % (_s, PERMIT), None)
                bad = find_path_avoiding(cfg, lambda x, _nn=nn: x is _nn, gate_edge=permitted, kill=stores(sname))
                r.count(len(cfg.nodes))
                for (t, w) in bad:
                    r.violation(fn, fn.loc(cc), "a server becomes a placement candidate without %s.upload_permitted() "
                                "having been true: new mutable shares go to servers without a valid certificate "
                                "(path: %s)" % (sname, w.brief()), w)

    # -- 5. upload_permitted implementations and verifier wiring -----------
    with ctx.rule("C32.5", "R6/R1", "every upload_permitted returns the configured verifier's verdict (True only when "
                  "none is configured); _make_storage_server hands create_grid_manager_verifier(keys, certs, id) to "
                  "both server classes", expected=5) as r:
        impls = [f for f in idx.by_name.get(PERMIT, []) if f.cls is not None
                 and not f.module.name.endswith(".interfaces")]
        if len(impls) < 2:
            raise AnchorVanished("expected two upload_permitted implementations, found %d" % len(impls))
        classes = {}
        for f in impls:
            r.site(f, None, "implementation")
            classes[f.cls.name] = f
            cfg = f.cfg()
            fnorm = FlowNorm(f)
            # the attribute holding the verifier: stored in __init__ from a constructor parameter
            init = f.cls.lookup("__init__")
            vattr = None
            vparam = None
            if init is not None:
                for n in init.cfg().stmt_nodes():
                    if isinstance(n.ast, ast.Assign) and isinstance(n.ast.value, ast.Name) \
                            and n.ast.value.id in init.params and "verifier" in n.ast.value.id:
                        for t in node_stores(n):
                            if t.startswith("self."):
                                vattr, vparam = t, n.ast.value.id
            if vattr is None:
                raise AnchorVanished("%s.__init__ no longer stores a verifier parameter" % f.cls.name)
            # never re-bound elsewhere in the class
            for (g, nd) in cg.attr_stores(vattr.split(".", 1)[1]):
                if g.cls is f.cls and g.name != "__init__":
                    r.violation(g, g.loc(nd), "%s re-binds %s" % (short(g), vattr))
            rets = cfg.find(is_return)
            r.require(bool(rets), f, f.loc(), "upload_permitted returns nothing (None is falsy: no uploads)")

            def unconfigured(n, lab, _a=vattr):
                fct = fnorm.edge_fact(n, lab)
                return bool(fct) and ((fct[0] == "is" and {fct[1], fct[2]} == {"None", _a})
                                      or (fct[0] == "false" and fct[1] == _a))
            for n in rets:
                v = n.ast.value
                vs = fnorm.norm(n, v) if v is not None else "None"
                rv = fnorm.resolve(n, v) if v is not None else None
                if isinstance(rv, ast.Call) and call_name(rv) == "bool" and len(rv.args) == 1:
                    rv = fnorm.resolve(n, rv.args[0])
                if isinstance(rv, ast.Call) and not rv.args and not rv.keywords \
                        and fnorm.norm(n, fnorm.resolve(n, rv.func)) == vattr:
                    continue
                if isinstance(fnorm.resolve(n, v), ast.Constant) and fnorm.resolve(n, v).value is True:
                    bad = find_path_avoiding(cfg, lambda x, _n=n: x is _n, gate_edge=unconfigured)
                    for (t, w) in bad:
                        r.violation(f, f.loc(n.ast), "upload_permitted returns True although a grid-manager verifier "
                                    "may be configured (path: %s)" % w.brief(), w)
                    continue
                r.violation(f, f.loc(n.ast), "upload_permitted returns %s instead of the verifier's verdict %s()" % (vs, vattr))
            # falling off the end returns None
            for (t, w) in find_path_avoiding(cfg, lambda x: x.kind == "exit", gate_node=is_return):
                r.violation(f, f.loc(), "upload_permitted can fall off its end", w)
            classes[f.cls.name] = (f, vparam)
        # wiring
        mk = idx.func(BROKER + "._make_storage_server")
        mnorm = FlowNorm(mk)
        mcfg = mk.cfg()
        made = [n for n in mcfg.stmt_nodes() if calls_at(n, "create_grid_manager_verifier")]
        if len(made) != 1:
            raise AnchorVanished("_make_storage_server: expected one create_grid_manager_verifier call")
        mc = calls_at(made[0], "create_grid_manager_verifier")[0]
        r.site(mk, mc, "verifier construction")
        vf = idx.func("grid_manager:create_grid_manager_verifier")
        vps = vf.params

        def actual(call, callee_params, name):
            k = kwarg(call, name)
            if k is not None:
                return k
            if name in callee_params:
                return arg(call, callee_params.index(name))
            return None
        keys = actual(mc, vps, "keys")
        certs = actual(mc, vps, "certs")
        pk = actual(mc, vps, "public_key")
        mps = first_positional_params(mk)
        r.require(keys is not None and mnorm.norm(made[0], keys) == "self.storage_client_config.grid_manager_keys", mk, mk.loc(mc),
                  "the verifier is built from %s, not from the configured grid_manager_keys" % (src(mk, keys) if keys is not None else None))
        cstr = {x.value for x in own_nodes(certs, into_lambda=True) if isinstance(x, ast.Constant)} if certs is not None else set()
        r.require(certs is not None and "grid-manager-certificates" in cstr and mps[1] in names_in(certs), mk, mk.loc(mc),
                  "the verifier is not given the announcement's grid-manager-certificates")
        r.require(pk is not None and mps[0] in depends_on(mk, pk), mk, mk.loc(mc),
                  "the verifier's expected public key does not derive from this server's id")
        vtarget = [t for t in node_stores(made[0])]
        if len(vtarget) != 1:
            raise AnchorVanished("_make_storage_server: verifier is not bound to one local")
        vname = vtarget[0]
        for n in mcfg.find(stores(vname)):
            if n is not made[0]:
                r.violation(mk, mk.loc(n.ast), "%s is re-bound after being built" % vname)
        for cname, (f, vparam) in sorted(classes.items()):
            cons = [c for c in calls_in_func(mk) if call_tail(c) == cname]
            if not cons:
                raise AnchorVanished("_make_storage_server no longer constructs %s" % cname)
            init = f.cls.lookup("__init__")
            ips = first_positional_params(init)
            for c in cons:
                r.site(mk, c, "constructs " + cname)
                a = actual(c, ips, vparam)
                r.require(isinstance(a, ast.Name) and a.id == vname, mk, mk.loc(c),
                          "%s is constructed with %s=%s: its upload_permitted() ignores the grid-manager keys" % (
                              cname, vparam, src(mk, a) if a is not None else "<default None>"))
        # nothing else in the package constructs these classes without a verifier
        for cname, (f, vparam) in sorted(classes.items()):
            init = f.cls.lookup("__init__")
            ips = first_positional_params(init)
            for cs in cg.calls_named(cname):
                if cs.fn.qual == mk.qual:
                    continue
                a = actual(cs.call, ips, vparam)
                r.require(a is not None, cs.fn, cs.loc, "%s constructs %s without a grid-manager verifier" % (short(cs.fn), cname))

    # -- 6. the verdict is per certificate ---------------------------------
    with ctx.rule("C32.6", "R3", "the verifier behind upload_permitted() judges each kept certificate by that "
                  "certificate's own fields: `return True` only after, in the same loop iteration, an expiry comparison "
                  "and a key comparison on values derived from the loop's certificate (not from a variable the factory "
                  "left behind)", expected=2) as r:
        fn = idx.func(GM_CREATE)
        chk = _c33_checker(fn)
        cfg = chk.cfg()
        fnorm = FlowNorm(chk)
        if "public_key" not in fn.params:
            raise AnchorVanished("create_grid_manager_verifier has no public_key parameter")
        chk_locals = set(all_defs(chk)) | set(chk.params)
        # the loop(s) of the predicate over the list of kept certificates (a factory local, C33.2 decides what it holds)
        loop_ids = {}
        kept = set()
        for x in cfg.nodes:
            if x.kind == "iter":
                it = _strip_enumerate(x.ast.iter)
                if isinstance(it, ast.Name) and it.id in all_defs(fn) and it.id not in chk_locals:
                    loop_ids[x.id] = x
                    kept.add(it.id)
                    r.site(chk, x.ast, "loop over the kept certificates")
        if len(kept) != 1:
            raise AnchorVanished("%s: expected loop(s) over one list built by the factory, found %s" % (short(chk), sorted(kept)))
        skey0 = frozenset() if "public_key" in chk_locals else frozenset(["public_key"])

        def transfer(n, lab, nxt, st):
            fresh, skey, conds, k_ok, e_ok = st
            if n.kind in ("entry", "exit", "raise"):
                return st
            if n.id in loop_ids:
                tn = frozenset(_target_names(n.ast.target))
                if lab == "iter":
                    return (tn, skey - tn, frozenset(), False, False)
                return (frozenset(), skey, frozenset(), False, False)
            binds = _node_bindings(n)
            if binds:
                nf, nk, nc = set(fresh), set(skey), set(conds)
                for (names, v) in binds:
                    vn = _value_names(v) if (v is not None and lab != "exc") else set()
                    add = set()
                    if len(names) == 1 and v is not None and lab != "exc" and n.kind != "iter":
                        (nm,) = tuple(names)
                        for pol in (True, False):
                            for k in _gates(v, pol, fresh, skey, conds):
                                add.add((nm, k, pol))
                    nc = {c for c in nc if c[0] not in names} | add
                    if vn & fresh:
                        nf |= names
                    else:
                        nf -= names
                    if vn & skey:
                        nk |= names
                    else:
                        nk -= names
                fresh, skey, conds = frozenset(nf), frozenset(nk), frozenset(nc)
            if n.kind == "test" and isinstance(lab, tuple):
                g = _gates(n.ast, lab[0] == "T", fresh, skey, conds)
                k_ok = k_ok or "key" in g
                e_ok = e_ok or "exp" in g
            return (fresh, skey, conds, k_ok, e_ok)

        visited, parent = explore(cfg, (frozenset(), skey0, frozenset(), False, False), transfer)
        r.count(len(visited))
        lb = _loop_bound_names(fn)
        fdefs = set(all_defs(fn)) | set(fn.params)

        def explain(w, kind):
            """Name what the deciding comparison on the witness path reads instead of this certificate's field."""
            seg = []
            for (node, lab) in w.path:
                if node.id in loop_ids:
                    seg = []
                seg.append((node, lab))
            out = []
            for (node, lab) in seg:
                if node.kind != "test" or not isinstance(lab, tuple):
                    continue
                e = node.ast
                rel = _relation(fnorm.resolve(node, e) if isinstance(e, ast.Name) else e, lab[0] == "T")
                if rel is None or (rel[0] == "==") != (kind == "key"):
                    continue
                deps = set()
                for side in rel[1:]:
                    deps |= {d for d in depends_on(chk, side) if "." not in d}
                for nm in sorted(_value_names(rel[1]) | _value_names(rel[2]) | deps):
                    if nm in chk_locals or nm not in fdefs or (kind == "key" and nm == "public_key"):
                        continue
                    if nm in lb:
                        out.append("`%s` feeding `%s` is a variable of %s last bound inside its loop at %s: when the predicate "
                                   "runs it holds what the final iteration left there, the same value for every "
                                   "certificate" % (nm, src(chk, e), fn.name, fn.loc(lb[nm])))
                    elif nm not in fn.params:
                        out.append("`%s` feeding `%s` is computed once in %s, not from the certificate under test" % (
                            nm, src(chk, e), fn.name))
            return ("; " + "; ".join(out)) if out else ""

        permits = 0
        for n in cfg.find(is_return):
            v = fnorm.resolve(n, n.ast.value) if n.ast.value is not None else None
            if v is None or (isinstance(v, ast.Constant) and not v.value):
                continue
            if not isinstance(v, ast.Constant):
                raise AnalysisError("%s returns %s: the rule follows constant True/False verdicts only" % (short(chk), src(chk, v)))
            permits += 1
            r.site(chk, n.ast, "permitting return")
            for (kind, pos, what) in (("exp", 4, "an expiry comparison `now < X` with X derived from the certificate of "
                                       "this loop iteration"),
                                      ("key", 3, "a comparison of this iteration's certificate key with the server's "
                                       "public_key")):
                for (nid, st) in sorted(visited, key=lambda z: (z[0], z[1][3], z[1][4], sorted(z[1][0]), sorted(z[1][1]), sorted(z[1][2]))):
                    if nid == n.id and not st[pos]:
                        w = witness(cfg, parent, (nid, st))
                        r.violation(chk, chk.loc(n.ast), "upload permission is granted without %s: a server showing "
                                    "several certificates is judged by the wrong one%s (path: %s)" % (
                                        what, explain(w, kind), w.brief()), w)
                        break
        if not permits:
            raise AnchorVanished("%s never returns True" % short(chk))

    # -- 7. which predicate the factory hands out --------------------------
    with ctx.rule("C32.7", "R1", "create_grid_manager_verifier hands out something other than the certificate-checking "
                  "predicate (lambda: True, None, falling off the end, ...) only on paths that established that `keys` is "
                  "empty: with grid-manager keys configured the verdict is the per-certificate one", expected=2) as r:
        fn = idx.func(GM_CREATE)
        chk = _c33_checker(fn)
        cfg = fn.cfg()
        fnorm = FlowNorm(fn)
        if "keys" not in fn.params:
            raise AnchorVanished("create_grid_manager_verifier has no keys parameter")
        # the keys parameter itself or a copy with the same truthiness / length
        same = r"(?:(?:list|tuple|set|frozenset|sorted)\()*keys\)*"
        KEYS = re.compile("^(?:%s|len\\(%s\\))$" % (same, same))
        LEN = re.compile("^len\\(%s\\)$" % same)
        for x in cfg.find(stores("keys")):
            val = assign_value(x, "keys")
            vs = fnorm.norm(x, val) if val is not None else None
            r.require(vs is not None and x.kind == "stmt" and re.match("^%s$" % same, vs) is not None, fn, fn.loc(x.ast),
                      "keys is re-bound in create_grid_manager_verifier (%s): the `no keys configured` test would no longer "
                      "be about the configured grid-manager keys" % (src(fn, val) if val is not None else x.kind))

        def no_keys(x, lab):
            f = fnorm.edge_fact(x, lab)
            if not f:
                return False
            op, a, b = f
            if op == "false":
                return KEYS.match(a) is not None
            if op == "==":
                return (a == "0" and LEN.match(b or "") is not None) or (b == "0" and LEN.match(a) is not None) or \
                    (b in ("[]", "()") and re.match("^%s$" % same, a) is not None) or \
                    (a in ("[]", "()") and re.match("^%s$" % same, b or "") is not None)
            if op == "<":
                return LEN.match(a) is not None and b == "1"
            if op == "<=":
                return LEN.match(a) is not None and b == "0"
            return False

        # the name of the nested predicate is bound by its `def` only
        rebound = [y for y in cfg.nodes if y.ast is not chk.node and chk.name in {nm for (nms, _v) in _node_bindings(y) for nm in nms}]
        n_chk = 0
        for n in cfg.find(is_return):
            v = fnorm.resolve(n, n.ast.value) if n.ast.value is not None else None
            if isinstance(v, ast.Name) and v.id == chk.name and not rebound:
                n_chk += 1
                r.site(fn, n.ast, "hands out the checking predicate")
                continue
            r.site(fn, n.ast, "hands out " + (src(fn, v) if v is not None else "None"))
            if isinstance(v, ast.Lambda) and isinstance(v.body, ast.Constant) and not v.body.value:
                continue        # a predicate that never permits: refuses uploads, not this property's concern
            what = src(fn, v) if v is not None else "None"
            if v is None or (isinstance(v, ast.Constant) and v.value is None):
                what = "None (which upload_permitted() reads as `no verifier configured` and answers True)"
            for (t, w) in find_path_avoiding(cfg, lambda x, _n=n: x is _n, gate_edge=no_keys):
                r.violation(fn, fn.loc(n.ast), "create_grid_manager_verifier hands out %s instead of the certificate-checking "
                            "predicate %s() on a path that never established that no grid-manager keys are configured: "
                            "with keys configured every server would be permitted for upload, certificate or not "
                            "(path: %s)" % (what, chk.name, w.brief()), w)
        for (t, w) in find_path_avoiding(cfg, lambda x: x.kind == "exit", gate_node=is_return, gate_edge=no_keys):
            r.violation(fn, fn.loc(), "create_grid_manager_verifier can fall off its end with keys configured: it returns "
                        "None, which upload_permitted() reads as `no verifier configured` (path: %s)" % w.brief(), w)
        if not n_chk:
            raise AnchorVanished("create_grid_manager_verifier never returns its checking predicate %s" % chk.name)

    # -- 9. which element of the parsed announcement a server is permuted by ------------------
    # (run before C32.8: it finds the tuple position(s) of _parse_announcement's result that get_permutation_seed()
    # hands to the sort key of C32.1)
    positions = set()
    with ctx.rule("C32.9", "R4", "every get_permutation_seed() returns the seed element of _parse_announcement(server_id, "
                  "furl, ann) for this server's own id and announcement (through self.<attr> or the field of the storage "
                  "description built from it); every hop hands on its own announcement / server id", expected=7) as r:
        positions = _seed_route(idx, cg, r)
        if not positions and not r.violations:
            raise AnchorVanished("no get_permutation_seed() is fed by _parse_announcement")
        if len(positions) > 1:
            r.violation(idx.func(PARSE), idx.func(PARSE).loc(), "the server classes take their permutation seed from different "
                        "elements %s of _parse_announcement's result: Foolscap and HTTP servers would be ordered by different "
                        "values" % sorted(positions))

    # -- 8./10. the announced seed has precedence; the fallbacks are the frozen ones ----------
    seed_rows = None
    with ctx.rule("C32.8", "R3", "_parse_announcement: the permutation seed it returns is base32.a2b(ann['permutation-seed-base32']) "
                  "on every path that did not establish that the announcement carries no such key; a key- / id-derived seed "
                  "only where it is absent", expected=1) as r:
        if not positions:
            raise AnalysisError("the seed element of _parse_announcement could not be located (see C32.9)")
        pfn, seed_rows, nstates = _seed_paths(idx, positions)
        r.count(nstates)
        n_good = 0
        for (n, pos, e, k, absent, v0, w) in seed_rows:
            if k == "good":
                n_good += 1
                continue
            if absent:
                continue        # judged by C32.10
            val = _last_value_on(pfn, w, e)
            r.violation(pfn, pfn.loc(val if isinstance(val, ast.AST) else n.ast),
                        "_parse_announcement can return %s as the permutation seed on a path that never established that the "
                        "announcement lacks %r: a seed the server announced is ignored and this client orders the server by a "
                        "different hash than the clients that honour it (path: %s)" % (
                            src(pfn, val) if isinstance(val, ast.AST) else "a value it cannot follow", SEED_KEY, w.brief()), w)
        for n in {row[0].id: row[0] for row in seed_rows}.values():
            r.site(pfn, n.ast, "returned seed, element %s" % sorted(positions))
        if not n_good and not r.violations:
            raise AnchorVanished("_parse_announcement never returns the decoded announced seed")

    with ctx.rule("C32.10", "R6", "_parse_announcement, announcement without a seed: the seed is base32.a2b(server_id[3:]) "
                  "only after a regex test of server_id succeeded, else hashlib.sha256(server_id).digest() (compat-frozen: "
                  "every client must derive the same seed)", expected=2) as r:
        if seed_rows is None:
            raise AnalysisError("the paths of _parse_announcement could not be explored (see C32.8)")
        pfn = idx.func(PARSE)
        for (n, pos, e, k, absent, v0, w) in seed_rows:
            if not absent or k == "good":
                continue
            val = _last_value_on(pfn, w, e)
            vsrc = src(pfn, val) if isinstance(val, ast.AST) else "a value it cannot follow"
            r.site(pfn, val if isinstance(val, ast.AST) else n.ast, "fallback seed %s" % (k or "?"))
            if k == "hash":
                continue
            if k == "key":
                r.require(v0, pfn, pfn.loc(val), "the server id's tail is decoded as the permutation seed (%s) on a path on which "
                          "no regex test established that the id is a v0-<pubkey> one (path: %s)" % (vsrc, w.brief()), w)
                continue
            # another value: say so when it is built from the id by library calls only, else give up
            calls = [c for c in ast.walk(val) if isinstance(c, ast.Call)] if isinstance(val, ast.AST) else []
            pkg = [c for c in calls if isinstance(idx.resolve_expr(pfn.module, c.func), FuncInfo)
                   and not idx.resolve_expr(pfn.module, c.func).module.name.endswith("util.base32")]
            if pkg or not isinstance(val, ast.expr):
                raise AnalysisError("_parse_announcement derives a fallback seed through %s: the rule cannot follow it" % vsrc)
            r.violation(pfn, pfn.loc(val), "without an announced seed _parse_announcement returns %s, which is neither "
                        "base32.a2b(server_id[3:]) nor hashlib.sha256(server_id).digest(): other clients derive a different "
                        "seed for the same server and disagree about the order (path: %s)" % (vsrc, w.brief()), w)
