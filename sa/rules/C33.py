"""C33 Grid-manager certificates grant permission only when valid.

Decided: signature verification dominates acceptance of a certificate and the
verified bytes are the parsed bytes; only verified certificates are kept; the
predicate returns True only for a kept certificate naming this server and not
yet expired at a time read on every call; no keys => always permitted; the
answer of upload_permitted() is computed when it is asked, by the predicate the
factory returned (DESIGN.md section 5, C33)."""
from sa.h import *

EXPLANATION = (
    "Decided (structural, all paths): (1) validate_grid_manager_certificate returns a non-None value only after "
    "crypto.ed25519.verify_signature(gm_key, cert.signature, cert.certificate) returned normally, the value is "
    "json.loads of the same cert.certificate bytes, no exception handler leads to a non-None return; "
    "ed25519.verify_signature returns normally only after public_key.verify(alleged_signature, data) did and turns "
    "InvalidSignature into BadSignature; (2) create_grid_manager_verifier keeps a certificate (valid_certs.append) "
    "only when it is the non-None result of validate_grid_manager_certificate(key, alleged_cert) for a key of `keys` "
    "and a certificate of `certs`, and the kept list is filled nowhere else; (3) the returned predicate returns a "
    "truthy value only inside cert['public_key'] == public_key and now < fromisoformat(cert['expires']) (strict) for "
    "the element of the kept list of the current iteration (a same-named variable of the factory captured by the "
    "closure is not that element), `now` being obtained by calling now_fn() inside the predicate (per call), now_fn "
    "defaulting to the timezone-aware current_datetime_with_zone, the default being substituted exactly when no clock "
    "was given (every binding of now_fn is the real clock wherever now_fn is None, and the predicate is handed out "
    "only after such a binding or a not-None test); every other exit returns a falsy constant; (4) the "
    "always-True predicate is returned exactly under `not keys`, every other return is the checking predicate; "
    "(5) time of the question: every return of both upload_permitted() implementations is the result of calling the "
    "stored verifier during that invocation, never an attribute or other state that outlives the call; a constant "
    "answer is justified on every path to it: True only under `verifier is None` or on the yes-edge of a test of the "
    "verifier's answer taken in this call, a falsy constant / bare return / falling off the end (a refusal) only on "
    "the no-edge of such a test - so neither an unconfigured verifier nor a configured one that would say yes is "
    "answered with a refusal; the verifier attribute is stored once, in __init__, as the bare constructor "
    "argument; no functools memoiser decorates upload_permitted, the predicate or the clock (other decorators: "
    "undecided, analysis error); (6) the constructor argument of both server classes is the object returned by "
    "create_grid_manager_verifier (or a zero-argument lambda calling it), not an answer taken from it, and the "
    "factory's now_fn argument at its call sites is absent/None/the real clock. "
    "Undecided: Ed25519 itself, JSON decoding, datetime comparison semantics, clock correctness, callers of "
    "upload_permitted() keeping its answer (C32 decides the two upload paths); the argument type checks and "
    "_validate_public_key in ed25519.verify_signature (defence in depth: the library call they guard is what is "
    "decided); the failure report bad_cert(key, cert) and the type assertion inside the predicate (reporting / "
    "crash only); that every kept certificate is *considered* (completeness of the two loops in the factory and of "
    "the loop in the predicate is decided only as far as a permitting return exists); the values the broker passes "
    "as keys / certs / public_key to the factory.")
TECHNIQUE = ("static analysis: CFG must-precede gates on normalised edge facts, same-value agreement of verified and parsed "
             "bytes, reaching-definition provenance of returned values and constructor arguments")

GM = "grid_manager"
VALIDATE = GM + ":validate_grid_manager_certificate"
CREATE = GM + ":create_grid_manager_verifier"


def _is_none_const(e):
    return e is None or (isinstance(e, ast.Constant) and e.value is None)


def _falsy_const(e):
    return e is None or (isinstance(e, ast.Constant) and not e.value)


def _strip_codec(s: str) -> str:
    return re.sub(r"\.(encode|decode)\(('ascii'|'utf-8'|'utf8')?\)$", "", s)


def run(ctx: Context):
    idx = ctx.idx
    cg = get_callgraph(idx)

    # -- 1. signature gate -------------------------------------------------
    with ctx.rule("C33.1", "R1", "validate_grid_manager_certificate: a non-None result only after "
                  "ed25519.verify_signature(gm_key, cert.signature, cert.certificate) returned normally; the parsed bytes "
                  "are the verified bytes", expected=3) as r:
        fn = idx.func(VALIDATE)
        cfg = fn.cfg()
        fnorm = FlowNorm(fn)
        ps = first_positional_params(fn)
        if len(ps) < 2:
            raise AnchorVanished("validate_grid_manager_certificate(gm_key, alleged_cert) signature changed")
        kparam, cparam = ps[0], ps[1]
        want_sig, want_data = "%s.signature" % cparam, "%s.certificate" % cparam

        vnodes = []
        for n in cfg.stmt_nodes():
            for c in calls_at(n, "verify_signature"):
                tg = cg.resolve(fn, c)
                if any(t.qual == "allmydata.crypto.ed25519:verify_signature" for t in tg):
                    vnodes.append((n, c))
        if not vnodes:
            # the anchor function is still there and still hands out certificates: that is the defect itself
            r.violation(fn, fn.loc(), "validate_grid_manager_certificate no longer calls crypto.ed25519.verify_signature")
        vps = idx.func("crypto.ed25519:verify_signature").params

        def actual(call, name):
            k = kwarg(call, name)
            return k if k is not None else arg(call, vps.index(name))
        good = set()
        for (n, c) in vnodes:
            r.site(fn, c, "verify_signature")
            a_key, a_sig, a_data = (actual(c, p) for p in vps[:3])
            k_s = fnorm.norm(n, a_key) if a_key is not None else None
            s_s = fnorm.norm(n, a_sig) if a_sig is not None else None
            d_s = fnorm.norm(n, a_data) if a_data is not None else None
            ok = r.require(k_s == kparam, fn, fn.loc(c), "the signature is verified against %s, not against the "
                           "grid-manager key parameter %s" % (k_s, kparam))
            ok &= r.require(s_s == want_sig and d_s == want_data, fn, fn.loc(c), "verify_signature(key, %s, %s): expected "
                            "(%s, %s) - the signature must cover the certificate bytes" % (s_s, d_s, want_sig, want_data))
            if ok:
                good.add(n.id)
        for p in (kparam, cparam):
            for n in cfg.find(stores(p)):
                r.violation(fn, fn.loc(n.ast), "parameter %s is re-bound" % p)
        accepts = [n for n in cfg.find(is_return) if not _is_none_const(fnorm.resolve(n, n.ast.value))]
        if not accepts:
            raise AnchorVanished("validate_grid_manager_certificate never returns a certificate")
        for n in accepts:
            r.site(fn, n.ast, "accepting return")
            bad = find_path_avoiding(cfg, lambda x, _n=n: x is _n, gate_node=lambda x: x.id in good)
            r.count(len(cfg.nodes))
            for (t, w) in bad:
                r.violation(fn, fn.loc(n.ast), "a certificate is returned as valid on a path where the signature check "
                            "did not complete normally (path: %s)" % w.brief(), w)
            v = fnorm.resolve(n, n.ast.value)
            ok = isinstance(v, ast.Call) and call_tail(v) == "loads" and len(v.args) == 1 \
                and fnorm.norm(n, v.args[0]) == want_data
            r.require(ok, fn, fn.loc(n.ast), "the returned certificate is %s, not json.loads(%s): the bytes that are "
                      "parsed are not the bytes whose signature was checked" % (fnorm.norm(n, n.ast.value), want_data))
        # the primitive itself
        vf = idx.func("crypto.ed25519:verify_signature")
        r.site(vf, None, "ed25519.verify_signature")
        vcfg = vf.cfg()
        vnorm = FlowNorm(vf)
        pk, sg, dt = vf.params[:3]

        def lib_verify(x):
            for c in calls_at(x, "verify"):
                if call_name(c) == pk + ".verify" and len(c.args) == 2 and not c.keywords \
                        and [vnorm.norm(x, a) for a in c.args] == [sg, dt]:
                    return True
            return False
        if not vcfg.find(lib_verify):
            r.violation(vf, vf.loc(), "verify_signature no longer calls %s.verify(%s, %s)" % (pk, sg, dt))
        for (t, w) in find_path_avoiding(vcfg, lambda x: x.kind == "exit", gate_node=lib_verify):
            r.violation(vf, vf.loc(), "verify_signature can return normally without a successful %s.verify(...) "
                        "(path: %s)" % (pk, w.brief()), w)
        for p in (pk, sg, dt):
            for x in vcfg.find(stores(p)):
                r.violation(vf, vf.loc(x.ast), "verify_signature re-binds %s" % p)

    # -- 2. only verified certificates are kept ----------------------------
    with ctx.rule("C33.2", "R3", "create_grid_manager_verifier: valid_certs.append(cert) only for the non-None result of "
                  "validate_grid_manager_certificate(key in keys, cert in certs)", expected=1) as r:
        fn = idx.func(CREATE)
        cfg = fn.cfg()
        fnorm = FlowNorm(fn)
        ps = fn.params
        if ps[:3] != ["keys", "certs", "public_key"]:
            raise AnchorVanished("create_grid_manager_verifier(keys, certs, public_key, ...) signature changed: %s" % ps)
        chk = _checker(fn)
        lst = _kept_list(fn, chk)
        fills = []
        for n in cfg.stmt_nodes():
            for c in node_calls(n):
                if isinstance(c.func, ast.Attribute) and attr_path(c.func.value) == lst \
                        and c.func.attr in ("append", "extend", "insert", "add", "update"):
                    fills.append((n, c))
            if lst in node_stores(n):
                val = assign_value(n, lst)
                if not (isinstance(val, ast.List) and not val.elts):
                    fills.append((n, None))
        if not [f for f in fills if f[1] is not None]:
            raise AnchorVanished("create_grid_manager_verifier: nothing is appended to %s" % lst)
        vcall = re.compile(r"^validate_grid_manager_certificate\((\w+), (\w+)\)$")
        for (n, c) in fills:
            r.site(fn, n.ast, "keeps a certificate")
            if c is None or c.func.attr != "append" or len(c.args) != 1:
                r.violation(fn, fn.loc(n.ast), "the kept-certificate list %s is filled by %s, which the rule cannot "
                            "follow" % (lst, src(fn, n.ast)))
                continue
            val = fnorm.norm(n, c.args[0])
            m = vcall.match(val)
            if not m:
                r.violation(fn, fn.loc(c), "%s is kept as a valid certificate; expected the result of "
                            "validate_grid_manager_certificate(key, alleged_cert)" % val)
                continue
            kv, cv = m.group(1), m.group(2)
            for (var, param) in ((kv, "keys"), (cv, "certs")):
                loops = [x for x in cfg.nodes if x.kind == "iter" and var in node_stores(x)]
                ok = bool(loops) and all(isinstance(x.ast.target, ast.Name) and fnorm.norm(x, x.ast.iter) == param for x in loops)
                r.require(ok, fn, fn.loc(c), "%s is not an element of the `%s` argument" % (var, param))
            held_names = names_in(c.args[0]) | {kv, cv}

            def verified(x, lab, _val=val):
                f = fnorm.edge_fact(x, lab)
                return bool(f) and ((f[0] == "is not" and {f[1], f[2]} == {"None", _val}) or (f[0] == "truth" and f[1] == _val))
            bad = find_path_avoiding(cfg, lambda x, _n=n: x is _n, gate_edge=verified, kill=stores_any(held_names))
            r.count(len(cfg.nodes))
            for (t, w) in bad:
                r.violation(fn, fn.loc(c), "a certificate is kept as valid without its verification result having been "
                            "tested for None (path: %s)" % w.brief(), w)
        # the helper called is the one checked by C33.1
        for n in cfg.stmt_nodes():
            for c in calls_at(n, "validate_grid_manager_certificate"):
                tg = cg.resolve(fn, c)
                r.require(any(t.qual == "allmydata." + VALIDATE for t in tg), fn, fn.loc(c),
                          "validate_grid_manager_certificate resolves to %s" % [t.qual for t in tg])

    # -- 3. the predicate --------------------------------------------------
    with ctx.rule("C33.3", "R1", "validate(): a truthy return only inside cert['public_key'] == public_key and "
                  "now_fn() < fromisoformat(cert['expires']) for a kept certificate; time is read on every call",
                  expected=2) as r:
        fn = idx.func(CREATE)
        chk = _checker(fn)
        lst = _kept_list(fn, chk)
        cfg = chk.cfg()
        loops = [x for x in cfg.nodes if x.kind == "iter" and attr_path(x.ast.iter) == lst and isinstance(x.ast.target, ast.Name)]
        if len(loops) != 1:
            raise AnchorVanished("%s: expected one loop over %s" % (short(chk), lst))
        lv = loops[0].ast.target.id
        # the loop's certificate gets a name no other variable of the factory or the predicate has: a free variable of
        # the predicate that merely happens to be spelled like the certificate (e.g. the factory's own loop variable
        # `cert`, captured late, after a half-finished rename of the predicate's loop variable) must not be taken for it
        taken = set(all_defs(fn)) | set(all_defs(chk)) | set(fn.params) | {
            x.id for x in ast.walk(fn.node) if isinstance(x, ast.Name)}
        K = "kept_cert"
        while K in taken:
            K += "_"
        fnorm = FlowNorm(chk, rename={lv: K})
        chk_locals = set(all_defs(chk)) | set(chk.params)
        late = sorted({x.id for x in ast.walk(chk.node) if isinstance(x, ast.Name) and isinstance(x.ctx, ast.Load)
                       and x.id not in chk_locals and x.id != lst and x.id not in fn.params
                       and x.id in all_defs(fn) and x.id not in fn.nested})
        hint = (" - the predicate reads the factory's variable(s) %s: bound by the factory (to whatever it held last), not "
                "in this call for the certificate of this iteration" % ", ".join(late)) if late else ""
        if chk.params:
            raise AnchorVanished("the verifier predicate takes parameters now: %s" % chk.params)
        for nm in ("public_key", lst):
            for x in cfg.find(stores(nm)):
                r.violation(chk, chk.loc(x.ast), "%s is re-bound inside the predicate" % nm)
            ds = all_defs(fn).get(nm, [])
            if nm == "public_key" and ds:
                r.violation(fn, fn.loc(ds[0]), "the expected server key public_key is re-bound in create_grid_manager_verifier")
        rets = cfg.find(is_return)
        truthy_rets = [n for n in rets if not _falsy_const(fnorm.resolve(n, n.ast.value))]
        if not truthy_rets:
            raise AnchorVanished("%s never returns True" % short(chk))

        def same_server(x, lab):
            f = fnorm.edge_fact(x, lab)
            if not f or f[0] != "==":
                return False
            return {_strip_codec(f[1]), _strip_codec(f[2])} == {"%s['public_key']" % K, "public_key"}

        exp_re = re.compile(r"^(\w+\.)*fromisoformat\(%s\['expires'\]\)$" % re.escape(K))
        clock = {}

        def unexpired(x, lab):
            f = fnorm.edge_fact(x, lab)
            if not f or f[0] != "<":
                return False
            if not exp_re.match(f[2]):
                return False
            m = re.match(r"^(\w+)\(\)$", f[1])
            if not m:
                return False
            clock[m.group(1)] = x
            return True
        rebind = stores(lv)
        for n in truthy_rets:
            r.site(chk, n.ast, "permitting return")
            v = fnorm.resolve(n, n.ast.value)
            r.require(isinstance(v, ast.Constant) and v.value is True, chk, chk.loc(n.ast),
                      "the predicate returns %s" % src(chk, v))
            for (what, gate) in (("the certificate's public_key equals this server's key", same_server),
                                 ("now < expires (strict, time read by calling now_fn() in this call)", unexpired)):
                bad = find_path_avoiding(cfg, lambda x, _n=n: x is _n, gate_edge=gate, kill=rebind)
                r.count(len(cfg.nodes))
                for (t, w) in bad:
                    r.violation(chk, chk.loc(n.ast), "permission is granted without checking that %s%s (path: %s)" % (
                        what, hint, w.brief()), w)
        # the clock: a free variable of the predicate bound in the factory to now_fn / current_datetime_with_zone
        r.site(chk, None, "clock")
        for cname, node in sorted(clock.items()):
            if cname in all_defs(chk) or cname in chk.params:
                r.violation(chk, chk.loc(node.ast), "the clock %s is a local of the predicate" % cname)
                continue
            if cname == "current_datetime_with_zone":
                continue
            ds = all_defs(fn).get(cname, [])
            used = set()
            for d in ds:
                used |= names_in(d)
            okc = cname in fn.params and bool(ds) and used <= {cname, "current_datetime_with_zone"} \
                and "current_datetime_with_zone" in used
            r.require(okc, fn, fn.loc(ds[0] if ds else None), "the clock %s() used by the predicate is not `now_fn` "
                      "defaulting to current_datetime_with_zone (defs: %s)" % (cname, [src(fn, d) for d in ds]))
            if okc:
                _clock_never_none(r, fn, chk, cname)
        cur = idx.func(GM + ":current_datetime_with_zone")
        for n in cur.cfg().find(is_return):
            vs = FlowNorm(cur).norm(n, n.ast.value)
            r.require(vs == "datetime.now(timezone.utc)", cur, cur.loc(n.ast), "current_datetime_with_zone returns %s: "
                      "expiry times are timezone-aware UTC, the comparison needs datetime.now(timezone.utc)" % vs)

    # -- 4. which predicate is returned ------------------------------------
    with ctx.rule("C33.4", "R1", "create_grid_manager_verifier returns the always-True predicate exactly under `not "
                  "keys`, otherwise the checking predicate", expected=2) as r:
        fn = idx.func(CREATE)
        cfg = fn.cfg()
        fnorm = FlowNorm(fn)
        chk = _checker(fn)
        for x in cfg.find(stores("keys")):
            r.violation(fn, fn.loc(x.ast), "keys is re-bound")

        def no_keys(x, lab):
            f = fnorm.edge_fact(x, lab)
            return bool(f) and ((f[0] == "false" and f[1] in ("keys", "len(keys)")) or
                                (f[0] == "==" and {f[1], f[2]} == {"0", "len(keys)"}))

        def have_keys(x, lab):
            f = fnorm.edge_fact(x, lab)
            return bool(f) and ((f[0] == "truth" and f[1] in ("keys", "len(keys)")) or
                                (f[0] == "!=" and {f[1], f[2]} == {"0", "len(keys)"}) or
                                (f[0] == "<" and f[1] == "0" and f[2] == "len(keys)"))
        n_open = 0
        for n in cfg.find(is_return):
            v = fnorm.resolve(n, n.ast.value)
            r.site(fn, n.ast, "return")
            if isinstance(v, ast.Name) and v.id == chk.name:
                # the checking predicate must be what is returned whenever keys are configured: nothing to gate
                continue
            if isinstance(v, ast.Lambda) and not v.args.args and isinstance(v.body, ast.Constant):
                if v.body.value is True:
                    n_open += 1
                    for (t, w) in find_path_avoiding(cfg, lambda x, _n=n: x is _n, gate_edge=no_keys):
                        r.violation(fn, fn.loc(n.ast), "the always-True predicate is returned although grid-manager keys "
                                    "may be configured (path: %s)" % w.brief(), w)
                    continue
                r.violation(fn, fn.loc(n.ast), "a constant %r predicate is returned: %s" % (v.body.value, src(fn, v)))
                continue
            r.violation(fn, fn.loc(n.ast), "create_grid_manager_verifier returns %s, neither the checking predicate nor "
                        "`lambda: True`" % src(fn, v))
        r.require(n_open >= 1, fn, fn.loc(), "with no grid-manager keys configured the verifier no longer permits every "
                  "server (no `lambda: True` under `not keys`)")
        # the checking predicate is returned only when keys exist (otherwise nobody would be permitted)
        for n in cfg.find(is_return):
            v = fnorm.resolve(n, n.ast.value)
            if isinstance(v, ast.Name) and v.id == chk.name:
                for (t, w) in find_path_avoiding(cfg, lambda x, _n=n: x is _n, gate_edge=have_keys):
                    r.violation(fn, fn.loc(n.ast), "the checking predicate is returned on a path that never established "
                                "that keys are configured (path: %s)" % w.brief(), w)
        for (t, w) in find_path_avoiding(cfg, lambda x: x.kind == "exit", gate_node=is_return):
            r.violation(fn, fn.loc(), "create_grid_manager_verifier can fall off its end (returns None, not a predicate)", w)

    # -- 5. the answer is computed when the question is asked ---------------
    with ctx.rule("C33.5", "R1/R6", "every answer of upload_permitted() is computed during that call: each return is the "
                  "result of calling the stored verifier predicate in this invocation (constant True only under `verifier "
                  "is None`); the stored object is the constructor argument itself, never its answer; nothing on the chain "
                  "upload_permitted -> predicate -> clock is memoised", expected=4) as r:
        wiring = _wiring(idx, cg)
        for f in _permit_impls(idx):
            r.site(f, None, "implementation")
            ci = f.cls
            init = ci.lookup("__init__")
            if init is None:
                raise AnchorVanished("%s has no __init__" % ci.name)
            vparams = wiring["params"].get(ci.name) or set()
            if not vparams:
                raise AnchorVanished("no constructor call of %s receives a value derived from create_grid_manager_verifier" % ci.name)
            _no_memo(r, f)
            # what __init__ does with the verifier: store it, do not ask it
            vattrs = set()
            for P in sorted(vparams):
                if P not in init.params:
                    raise AnchorVanished("%s.__init__ has no parameter %s" % (ci.name, P))
                for x in init.cfg().find(stores(P)):
                    r.violation(init, init.loc(x.ast), "%s re-binds its verifier parameter %s" % (short(init), P))
                # (asking the verifier inside __init__ is harmless by itself; handing that answer out later is what the
                # return check below reports)
                for x in func_own_nodes(init):
                    if isinstance(x, (ast.Assign, ast.AnnAssign)) and x.value is not None and P in names_in(x.value):
                        tgts = x.targets if isinstance(x, ast.Assign) else [x.target]
                        if isinstance(x.value, ast.Name) and len(tgts) == 1 and (attr_path(tgts[0]) or "").startswith("self."):
                            vattrs.add(attr_path(tgts[0]))
                        elif not any(isinstance(c, ast.Call) and isinstance(c.func, ast.Name) and c.func.id == P
                                     for c in own_nodes(x.value, into_lambda=True)):
                            r.violation(init, init.loc(x), "%s keeps the verifier wrapped (%s); the rule cannot establish that the "
                                        "wrapper re-evaluates it on every call" % (short(init), src(init, x)))
            if not vattrs:
                if r.violations:
                    continue
                raise AnchorVanished("%s.__init__ no longer stores its verifier parameter in an attribute" % ci.name)
            for va in sorted(vattrs):
                for (g, nd) in cg.attr_stores(va.split(".", 1)[1]):
                    pa = _parent_assign(g, nd)
                    val = getattr(pa, "value", None)
                    ok = g.name == "__init__" and g.cls is not None and any(g.cls is h.cls for h in _permit_impls(idx)) \
                        and isinstance(val, ast.Name) and val.id in g.params
                    if not ok:
                        r.violation(g, g.loc(nd), "%s re-binds the verifier attribute %s" % (short(g), attr_path(nd)))
            cfg = f.cfg()
            fnorm = FlowNorm(f)
            rets = cfg.find(is_return)
            if not rets:
                raise AnchorVanished("%s has no return" % short(f))

            def unconf_fact(fct):
                return bool(fct) and ((fct[0] == "is" and "None" in (fct[1], fct[2]) and ({fct[1], fct[2]} - {"None"}) <= vattrs)
                                      or (fct[0] == "false" and fct[1] in vattrs))

            def conf_fact(fct):
                return bool(fct) and ((fct[0] == "is not" and "None" in (fct[1], fct[2]) and ({fct[1], fct[2]} - {"None"}) <= vattrs)
                                      or (fct[0] == "truth" and fct[1] in vattrs))

            def is_vcall(n, e):
                e = fnorm.resolve(n, e)
                while isinstance(e, ast.Call) and call_name(e) == "bool" and len(e.args) == 1 and not e.keywords:
                    e = fnorm.resolve(n, e.args[0])
                return isinstance(e, ast.Call) and not e.args and not e.keywords \
                    and fnorm.norm(n, fnorm.resolve(n, e.func)) in vattrs

            def verdict(n, e, pol):
                """+1: `e` having truth value `pol` at node n means the verifier, asked during this call, answered yes;
                -1: it answered no; 0: says nothing about the verifier's answer."""
                for _ in range(8):
                    if isinstance(e, ast.UnaryOp) and isinstance(e.op, ast.Not):
                        e, pol = e.operand, not pol
                    elif isinstance(e, ast.Name) and fnorm.resolve(n, e) is not e:
                        e = fnorm.resolve(n, e)
                    else:
                        break
                if isinstance(e, ast.Compare) and len(e.ops) == 1 and isinstance(e.ops[0], (ast.Eq, ast.Is)):
                    for (c, o) in ((e.left, e.comparators[0]), (e.comparators[0], e.left)):
                        if isinstance(c, ast.Constant) and isinstance(c.value, bool) and is_vcall(n, o):
                            # `== False` / `is False` being untrue does not make the answer a yes for `is`; only the
                            # matching polarity is used
                            if pol:
                                return 1 if c.value else -1
                            return 0
                    return 0
                if is_vcall(n, e):
                    return 1 if pol else -1
                return 0

            def edge_verdict(x, lab):
                if x.kind != "test" or not isinstance(lab, tuple) or x.ast is None:
                    return 0
                return verdict(x, x.ast, lab[0] == "T")

            def unconfigured(x, lab):
                return unconf_fact(fnorm.edge_fact(x, lab))

            def yes_edge(x, lab):
                return unconf_fact(fnorm.edge_fact(x, lab)) or edge_verdict(x, lab) > 0

            def no_edge(x, lab):
                return edge_verdict(x, lab) < 0

            def fresh(n, e, yes, no):
                """None when the value of `e` at node n is decided during this call, else the offending sub-expression.
                `yes`: it is established that no verifier is configured, or that the verifier asked during this call
                answered yes (a constant True is then the right answer); `no`: the verifier asked during this call
                answered no (a constant falsy answer is then the right one)."""
                e = fnorm.resolve(n, e)
                if isinstance(e, ast.Constant):
                    if not e.value:
                        return None if no else e
                    return None if (e.value is True and yes) else e
                if isinstance(e, ast.Call) and call_name(e) == "bool" and len(e.args) == 1 and not e.keywords:
                    return fresh(n, e.args[0], yes, no)
                if isinstance(e, ast.Call) and not e.args and not e.keywords \
                        and fnorm.norm(n, fnorm.resolve(n, e.func)) in vattrs:
                    return None
                if isinstance(e, (ast.Compare, ast.UnaryOp)):
                    nm = fnorm.at(n)
                    if unconf_fact(nm.cmp(e, True)):
                        # true exactly when no verifier is configured: as the whole answer it refuses every server
                        # of a configured verifier without asking it
                        return None if (yes or no) else e
                    return e
                if isinstance(e, ast.BoolOp) and isinstance(e.op, ast.Or):
                    nm = fnorm.at(n)
                    k = yes
                    for o in e.values:
                        if isinstance(o, (ast.Compare, ast.UnaryOp)) and unconf_fact(nm.cmp(o, True)):
                            k = False            # the operands after it are evaluated only when one is configured
                            continue
                        bad = fresh(n, o, k, True)      # a falsy operand of `or` leaves the answer to the others
                        if bad is not None:
                            return bad
                    return None
                if isinstance(e, ast.BoolOp):
                    nm = fnorm.at(n)
                    for o in e.values:
                        if isinstance(o, (ast.Compare, ast.UnaryOp, ast.Name, ast.Attribute)) and conf_fact(nm.cmp(o, True)):
                            if not (yes or no):
                                return o         # `verifier is not None and ...` answers no when none is configured
                            continue
                        bad = fresh(n, o, True, no)     # a True operand of `and` leaves the answer to the others
                        if bad is not None:
                            return bad
                    return None
                if isinstance(e, ast.IfExp):
                    nm = fnorm.at(n)
                    tt, tf = nm.cmp(e.test, True), nm.cmp(e.test, False)
                    vt, vf = verdict(n, e.test, True), verdict(n, e.test, False)
                    return fresh(n, e.body, yes or unconf_fact(tt) or vt > 0, no or vt < 0) \
                        or fresh(n, e.orelse, yes or unconf_fact(tf) or vf > 0, no or vf < 0)
                return e

            def report(n, bad, yes):
                what = src(f, bad) if bad is not n.ast else "None (bare return / end of the method)"
                if bad is n.ast or (isinstance(bad, ast.Constant) and not bad.value):
                    why = "a constant refusal that is not the verifier's answer during this call: %s" % (
                        "with no verifier configured every server is permitted" if yes else
                        "a server holding a valid certificate is refused (and with no verifier configured every server is "
                        "permitted)")
                elif isinstance(bad, ast.Constant):
                    why = "a constant answer although a verifier may be configured"
                elif (attr_path(bad) or "").startswith("self."):
                    why = "an attribute that outlives the call: an earlier verdict (or one made at construction time) is " \
                          "given again after the certificate has expired"
                elif isinstance(bad, (ast.Compare, ast.UnaryOp)) or (attr_path(bad) or "") in vattrs:
                    why = "whether a verifier is configured, not what the verifier answers during this call"
                else:
                    why = "not the result of calling %s() during this call" % "/".join(sorted(vattrs))
                r.violation(f, f.loc(n.ast), "%s answers with %s - %s" % (short(f), what, why))
            for n in rets:
                v = n.ast.value
                only_unconf = not find_path_avoiding(cfg, lambda x, _n=n: x is _n, gate_edge=unconfigured)
                yes = not find_path_avoiding(cfg, lambda x, _n=n: x is _n, gate_edge=yes_edge)
                no = not find_path_avoiding(cfg, lambda x, _n=n: x is _n, gate_edge=no_edge)
                r.count(3 * len(cfg.nodes))
                if v is None:
                    if not no:
                        report(n, n.ast, only_unconf)
                    continue
                rv = fnorm.resolve(n, v)
                if isinstance(rv, ast.Name) and cfg.find(stores(rv.id)):
                    # a local with several definitions (`permitted = True; if verifier is not None: permitted = verifier()`):
                    # each definition that can be the one returned is judged with what its paths establish
                    def tr(node, lab, nxt, st, _nm=rv.id):
                        d, y, no_ = st
                        if node.ast is not None and _nm in node_stores(node) and lab != "exc":
                            d = node.id
                        return (d, y or bool(yes_edge(node, lab)), no_ or bool(no_edge(node, lab)))
                    visited, _parent = explore(cfg, (None, False, False), tr)
                    r.count(len(visited))
                    bad = None
                    for (nid, (d, y, no_)) in sorted(visited, key=lambda t: (t[0], str(t[1]))):
                        if nid != n.id or bad is not None:
                            continue
                        val = assign_value(cfg.nodes[d], rv.id) if d is not None else None
                        bad = rv if val is None else fresh(cfg.nodes[d], val, y, no_)
                else:
                    bad = fresh(n, v, yes, no)
                if bad is not None:
                    report(n, bad, only_unconf)
            # leaving the method without a return statement answers None: a refusal
            for (t, w) in find_path_avoiding(cfg, lambda x: x.kind == "exit", gate_node=is_return, gate_edge=no_edge):
                r.violation(f, f.loc(), "%s can end without a return statement (answers None, a refusal) on a path where the "
                            "verifier was not asked or did not answer no (path: %s)" % (short(f), w.brief()), w)
        fn = idx.func(CREATE)
        chk = _checker(fn)
        r.site(chk, None, "predicate not memoised")
        _no_memo(r, chk)
        cur = idx.func(GM + ":current_datetime_with_zone")
        r.site(cur, None, "clock not memoised")
        _no_memo(r, cur)

    # -- 6. what is handed to the server objects ----------------------------
    with ctx.rule("C33.6", "R6", "the object given to the storage-server classes as their verifier is the predicate returned "
                  "by create_grid_manager_verifier itself (not an answer taken from it, not a wrapper), and the factory is "
                  "called with the real clock", expected=3) as r:
        wiring = _wiring(idx, cg)
        cur_q = "allmydata." + GM + ":current_datetime_with_zone"
        for (g, call) in wiring["factory_calls"]:
            r.site(g, call, "verifier construction")
            if any(isinstance(a, ast.Starred) for a in call.args) or any(k.arg is None for k in call.keywords):
                r.violation(g, g.loc(call), "create_grid_manager_verifier is called with */** arguments the rule cannot follow")
                continue
            fps = idx.func(CREATE).params
            a = kwarg(call, "now_fn")
            if a is None and "now_fn" in fps:
                a = arg(call, fps.index("now_fn"))
            if a is None or _is_none_const(a):
                continue
            tgt = idx.resolve_expr(g.module, a) if isinstance(a, (ast.Name, ast.Attribute)) else None
            if isinstance(tgt, FuncInfo) and tgt.qual == cur_q:
                continue
            if isinstance(a, ast.Lambda) and not a.args.args and not a.args.vararg and not a.args.kwarg \
                    and N(g).norm(a.body) == "datetime.now(timezone.utc)":
                continue
            r.violation(g, g.loc(call), "%s builds the verifier with now_fn=%s: expiry is then judged against that, not "
                        "against the time at which upload_permitted() is asked" % (short(g), src(g, a)))
        for (g, call, cname, P, a, node) in wiring["ctor_actuals"]:
            r.site(g, call, "constructs %s(%s=...)" % (cname, P))
            gnorm = wiring["norms"][g.qual]
            v = gnorm.resolve(node, a)
            if isinstance(v, ast.Call) and any(v is c for (_g, c) in wiring["factory_calls"]):
                continue
            if isinstance(v, ast.Call) and not v.args and not v.keywords:
                inner = gnorm.resolve(node, v.func)
                if isinstance(inner, ast.Call) and any(inner is c for (_g, c) in wiring["factory_calls"]):
                    r.violation(g, g.loc(call), "%s is constructed with %s=%s: the verifier's answer at construction time, not "
                                "the predicate" % (cname, P, src(g, a)))
                    continue
            asked = [c for c in calls_feeding(g, a) if not c.args and not c.keywords
                     and isinstance(gnorm.resolve(node, c.func), ast.Call)
                     and any(gnorm.resolve(node, c.func) is fc for (_g, fc) in wiring["factory_calls"])]
            if isinstance(v, ast.Lambda) and not v.args.args and isinstance(v.body, ast.Call) and not v.body.args \
                    and not v.body.keywords and isinstance(v.body.func, ast.Name) \
                    and len(asked) == 1 and asked[0] is v.body:
                continue                     # `lambda: gm_verifier()` asks again on every call
            r.violation(g, g.loc(call), "%s is constructed with %s=%s, which is not the predicate returned by "
                        "create_grid_manager_verifier%s" % (cname, P, src(g, a), (
                            " (the verifier is asked once, here: %s)" % src(g, asked[0])) if asked else ""))


def _checker(fn):
    """The nested predicate returned by the factory."""
    cands = []
    for n in fn.cfg().find(is_return):
        v = n.ast.value
        if isinstance(v, ast.Name) and v.id in fn.nested:
            cands.append(fn.nested[v.id])
    cands = list({c.qual: c for c in cands}.values())
    if len(cands) != 1:
        raise AnchorVanished("create_grid_manager_verifier: expected exactly one nested predicate to be returned, got %s" % [
            c.qual for c in cands])
    return cands[0]


def _clock_never_none(r, fn, chk, cname):
    """The default clock is substituted exactly when the caller gave none: wherever the factory hands out the checking
    predicate, its clock parameter (None/absent at every call site of the program) has been replaced by the real clock or
    tested not to be None.  Otherwise every question put to the predicate ends in `None()`."""
    cfg = fn.cfg()
    fnorm = FlowNorm(fn)
    real = "current_datetime_with_zone"

    def is_self(e):
        return isinstance(e, ast.Name) and e.id == cname

    def not_none(fct):
        return bool(fct) and ((fct[0] == "is not" and {fct[1], fct[2]} == {"None", cname})
                              or (fct[0] == "truth" and fct[1] == cname))

    def never_none(nm, e):
        if isinstance(e, ast.Name) and e.id == real:
            return True
        if isinstance(e, ast.IfExp):
            tt, tf = nm.cmp(e.test, True, 0), nm.cmp(e.test, False, 0)
            return (never_none(nm, e.body) or (is_self(e.body) and not_none(tt))) \
                and (never_none(nm, e.orelse) or (is_self(e.orelse) and not_none(tf)))
        if isinstance(e, ast.BoolOp) and isinstance(e.op, ast.Or):
            return never_none(nm, e.values[-1]) and all(is_self(o) or never_none(nm, o) for o in e.values[:-1])
        return False
    good, bad = set(), set()
    for n in cfg.find(stores(cname)):
        val = assign_value(n, cname)
        if val is not None and never_none(N(fn), val):
            good.add(n.id)
        else:
            bad.add(n.id)
            r.violation(fn, fn.loc(n.ast), "the clock %s is bound by `%s`, which leaves it None when the caller passed no "
                        "clock (every caller in the program): the predicate then fails on every question instead of "
                        "judging expiry against the current time" % (cname, src(fn, n.ast)))
    outs = [n for n in cfg.find(is_return) if isinstance(fnorm.resolve(n, n.ast.value), ast.Name)
            and fnorm.resolve(n, n.ast.value).id == chk.name]
    for n in outs:
        for (t, w) in find_path_avoiding(cfg, lambda x, _n=n: x is _n, gate_node=lambda x: x.id in good,
                                         gate_edge=lambda x, lab: not_none(fnorm.edge_fact(x, lab)),
                                         kill=lambda x: x.id in bad):
            if bad:
                continue                 # already reported at the binding
            r.violation(fn, fn.loc(n.ast), "the checking predicate is handed out on a path where its clock %s may still be "
                        "None (no default substituted, not tested): every question then fails (path: %s)" % (
                            cname, w.brief()), w)


def _kept_list(fn, chk):
    """The factory local the predicate iterates (valid_certs)."""
    for x in chk.cfg().nodes:
        if x.kind == "iter" and isinstance(x.ast.iter, ast.Name) and x.ast.iter.id in all_defs(fn) \
                and x.ast.iter.id not in all_defs(chk):
            return x.ast.iter.id
    raise AnchorVanished("%s no longer iterates a list built by the factory" % short(chk))


def _permit_impls(idx):
    """The classes answering `upload_permitted()` (the interface declaration has no self)."""
    impls = [f for f in idx.by_name.get("upload_permitted", []) if f.cls is not None and f.params[:1] == ["self"]]
    if len(impls) < 2:
        raise AnchorVanished("expected two upload_permitted implementations, found %d" % len(impls))
    return sorted(impls, key=lambda f: f.qual)


def _parent_assign(g, target):
    for x in func_own_nodes(g, into_lambda=True):
        if isinstance(x, ast.Assign) and any(t is target or any(y is target for y in ast.walk(t)) for t in x.targets):
            return x
        if isinstance(x, ast.AnnAssign) and x.target is target:
            return x
    return None


_MEMOISERS = {"functools.lru_cache", "functools.cache", "functools.cached_property"}


def _no_memo(r, f):
    """No decorator keeps an earlier result of `f`."""
    for d in f.decorators():
        e = d.func if isinstance(d, ast.Call) else d
        p = attr_path(e) or "?"
        head, _, rest = p.partition(".")
        full = f.module.imports.get(head, head) + ("." + rest if rest else "")
        if full in _MEMOISERS:
            r.violation(f, f.loc(d), "%s is wrapped by @%s: the first answer is kept and given again after the certificate "
                        "has expired" % (short(f), full))
        else:
            raise AnalysisError("%s is decorated by @%s, which the rule cannot follow (does every call still run the body?)" % (
                short(f), src(f, d)))


def _wiring(idx, cg):
    """Where verifiers are built and which constructor parameter of the server classes receives them."""
    hit = getattr(idx, "_c33_wiring", None)
    if hit is not None:
        return hit
    target = "allmydata." + CREATE
    fcalls = []
    for cs in cg.calls_named("create_grid_manager_verifier"):
        if cs.fn.module.name == "allmydata." + GM:
            continue
        if any(t.qual == target for t in cg.resolve(cs.fn, cs.call)):
            fcalls.append((cs.fn, cs.call))
    if not fcalls:
        raise AnchorVanished("create_grid_manager_verifier is not called anywhere outside grid_manager")
    fids = {id(c) for (_g, c) in fcalls}
    params, actuals, norms = {}, [], {}
    for f in _permit_impls(idx):
        ci = f.cls
        init = ci.lookup("__init__")
        if init is None:
            continue
        ips = first_positional_params(init)
        for cs in cg.calls_named(ci.name):
            if idx.resolve_expr_to_class(cs.fn.module, cs.call.func) is not ci:
                continue
            g = cs.fn
            if g.qual not in norms:
                norms[g.qual] = FlowNorm(g)
            node = None
            for x in g.cfg().nodes:
                if x.ast is not None and any(c is cs.call for c in node_calls(x)):
                    node = x
            if node is None:
                continue
            pairs = [(ips[i], a) for i, a in enumerate(cs.call.args) if i < len(ips) and not isinstance(a, ast.Starred)]
            pairs += [(k.arg, k.value) for k in cs.call.keywords if k.arg is not None]
            for (P, a) in pairs:
                if any(id(c) in fids for c in calls_feeding(g, a)):
                    params.setdefault(ci.name, set()).add(P)
                    actuals.append((g, cs.call, ci.name, P, a, node))
    hit = {"factory_calls": fcalls, "params": params, "ctor_actuals": actuals, "norms": norms}
    idx._c33_wiring = hit
    return hit
