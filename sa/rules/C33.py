"""C33 Grid-manager certificates grant permission only when valid.

Decided: signature verification dominates acceptance of a certificate and the
verified bytes are the parsed bytes; only verified certificates are kept; the
predicate returns True only for a kept certificate naming this server and not
yet expired at a time read on every call; no keys => always permitted
(DESIGN.md section 5, C33)."""
from sa.h import *

EXPLANATION = (
    "Decided (structural, all paths): (1) validate_grid_manager_certificate returns a non-None value only after "
    "crypto.ed25519.verify_signature(gm_key, cert.signature, cert.certificate) returned normally, the value is "
    "json.loads of the same cert.certificate bytes, no exception handler leads to a non-None return; "
    "ed25519.verify_signature returns normally only after public_key.verify(alleged_signature, data) did and turns "
    "InvalidSignature into BadSignature; (2) create_grid_manager_verifier keeps a certificate (valid_certs.append) "
    "only when it is the non-None result of validate_grid_manager_certificate(key, alleged_cert) for a key of `keys` "
    "and a certificate of `certs`, and the kept list is filled nowhere else; (3) the returned predicate returns a "
    "truthy value only inside cert['public_key'] == public_key and now < fromisoformat(cert['expires']) (strict) for "
    "an element of the kept list, `now` being obtained by calling now_fn() inside the predicate (per call), now_fn "
    "defaulting to the timezone-aware current_datetime_with_zone; every other exit returns False; (4) the "
    "always-True predicate is returned exactly under `not keys`, every other return is the checking predicate. "
    "Undecided: Ed25519 itself, JSON decoding, datetime comparison semantics, clock correctness.")
TECHNIQUE = "static analysis: CFG must-precede gates on normalised edge facts, same-value agreement of verified and parsed bytes"

GM = "grid_manager"
VALIDATE = GM + ":validate_grid_manager_certificate"
CREATE = GM + ":create_grid_manager_verifier"


def _is_none_const(e):
    return e is None or (isinstance(e, ast.Constant) and e.value is None)


def _falsy_const(e):
    return e is None or (isinstance(e, ast.Constant) and not e.value)


def _strip_codec(s: str) -> str:
    return re.sub(r"\.(encode|decode)\(('ascii'|'utf-8'|'utf8')?\)$", "", s)


def run(ctx: Context):
    idx = ctx.idx
    cg = get_callgraph(idx)

    # -- 1. signature gate -------------------------------------------------
    with ctx.rule("C33.1", "R1", "validate_grid_manager_certificate: a non-None result only after "
                  "ed25519.verify_signature(gm_key, cert.signature, cert.certificate) returned normally; the parsed bytes "
                  "are the verified bytes", expected=3) as r:
        fn = idx.func(VALIDATE)
        cfg = fn.cfg()
        fnorm = FlowNorm(fn)
        ps = first_positional_params(fn)
        if len(ps) < 2:
            raise AnchorVanished("validate_grid_manager_certificate(gm_key, alleged_cert) signature changed")
        kparam, cparam = ps[0], ps[1]
        want_sig, want_data = "%s.signature" % cparam, "%s.certificate" % cparam

        vnodes = []
        for n in cfg.stmt_nodes():
            for c in calls_at(n, "verify_signature"):
                tg = cg.resolve(fn, c)
                if any(t.qual == "allmydata.crypto.ed25519:verify_signature" for t in tg):
                    vnodes.append((n, c))
        if not vnodes:
            # the anchor function is still there and still hands out certificates: that is the defect itself
            r.violation(fn, fn.loc(), "validate_grid_manager_certificate no longer calls crypto.ed25519.verify_signature")
        vps = idx.func("crypto.ed25519:verify_signature").params

        def actual(call, name):
            k = kwarg(call, name)
            return k if k is not None else arg(call, vps.index(name))
        good = set()
        for (n, c) in vnodes:
            r.site(fn, c, "verify_signature")
            a_key, a_sig, a_data = (actual(c, p) for p in vps[:3])
            k_s = fnorm.norm(n, a_key) if a_key is not None else None
            s_s = fnorm.norm(n, a_sig) if a_sig is not None else None
            d_s = fnorm.norm(n, a_data) if a_data is not None else None
            ok = r.require(k_s == kparam, fn, fn.loc(c), "the signature is verified against %s, not against the "
                           "grid-manager key parameter %s" % (k_s, kparam))
            ok &= r.require(s_s == want_sig and d_s == want_data, fn, fn.loc(c), "verify_signature(key, %s, %s): expected "
                            "(%s, %s) - the signature must cover the certificate bytes" % (s_s, d_s, want_sig, want_data))
            if ok:
                good.add(n.id)
        for p in (kparam, cparam):
            for n in cfg.find(stores(p)):
                r.violation(fn, fn.loc(n.ast), "parameter %s is re-bound" % p)
        accepts = [n for n in cfg.find(is_return) if not _is_none_const(fnorm.resolve(n, n.ast.value))]
        if not accepts:
            raise AnchorVanished("validate_grid_manager_certificate never returns a certificate")
        for n in accepts:
            r.site(fn, n.ast, "accepting return")
            bad = find_path_avoiding(cfg, lambda x, _n=n: x is _n, gate_node=lambda x: x.id in good)
            r.count(len(cfg.nodes))
            for (t, w) in bad:
                r.violation(fn, fn.loc(n.ast), "a certificate is returned as valid on a path where the signature check "
                            "did not complete normally (path: %s)" % w.brief(), w)
            v = fnorm.resolve(n, n.ast.value)
            ok = isinstance(v, ast.Call) and call_tail(v) == "loads" and len(v.args) == 1 \
                and fnorm.norm(n, v.args[0]) == want_data
            r.require(ok, fn, fn.loc(n.ast), "the returned certificate is %s, not json.loads(%s): the bytes that are "
                      "parsed are not the bytes whose signature was checked" % (fnorm.norm(n, n.ast.value), want_data))
        # the primitive itself
        vf = idx.func("crypto.ed25519:verify_signature")
        r.site(vf, None, "ed25519.verify_signature")
        vcfg = vf.cfg()
        vnorm = FlowNorm(vf)
        pk, sg, dt = vf.params[:3]

        def lib_verify(x):
            for c in calls_at(x, "verify"):
                if call_name(c) == pk + ".verify" and len(c.args) == 2 and not c.keywords \
                        and [vnorm.norm(x, a) for a in c.args] == [sg, dt]:
                    return True
            return False
        if not vcfg.find(lib_verify):
            r.violation(vf, vf.loc(), "verify_signature no longer calls %s.verify(%s, %s)" % (pk, sg, dt))
        for (t, w) in find_path_avoiding(vcfg, lambda x: x.kind == "exit", gate_node=lib_verify):
            r.violation(vf, vf.loc(), "verify_signature can return normally without a successful %s.verify(...) "
                        "(path: %s)" % (pk, w.brief()), w)
        for p in (pk, sg, dt):
            for x in vcfg.find(stores(p)):
                r.violation(vf, vf.loc(x.ast), "verify_signature re-binds %s" % p)

    # -- 2. only verified certificates are kept ----------------------------
    with ctx.rule("C33.2", "R3", "create_grid_manager_verifier: valid_certs.append(cert) only for the non-None result of "
                  "validate_grid_manager_certificate(key in keys, cert in certs)", expected=1) as r:
        fn = idx.func(CREATE)
        cfg = fn.cfg()
        fnorm = FlowNorm(fn)
        ps = fn.params
        if ps[:3] != ["keys", "certs", "public_key"]:
            raise AnchorVanished("create_grid_manager_verifier(keys, certs, public_key, ...) signature changed: %s" % ps)
        chk = _checker(fn)
        lst = _kept_list(fn, chk)
        fills = []
        for n in cfg.stmt_nodes():
            for c in node_calls(n):
                if isinstance(c.func, ast.Attribute) and attr_path(c.func.value) == lst \
                        and c.func.attr in ("append", "extend", "insert", "add", "update"):
                    fills.append((n, c))
            if lst in node_stores(n):
                val = assign_value(n, lst)
                if not (isinstance(val, ast.List) and not val.elts):
                    fills.append((n, None))
        if not [f for f in fills if f[1] is not None]:
            raise AnchorVanished("create_grid_manager_verifier: nothing is appended to %s" % lst)
        vcall = re.compile(r"^validate_grid_manager_certificate\((\w+), (\w+)\)$")
        for (n, c) in fills:
            r.site(fn, n.ast, "keeps a certificate")
            if c is None or c.func.attr != "append" or len(c.args) != 1:
                r.violation(fn, fn.loc(n.ast), "the kept-certificate list %s is filled by %s, which the rule cannot "
                            "follow" % (lst, src(fn, n.ast)))
                continue
            val = fnorm.norm(n, c.args[0])
            m = vcall.match(val)
            if not m:
                r.violation(fn, fn.loc(c), "%s is kept as a valid certificate; expected the result of "
                            "validate_grid_manager_certificate(key, alleged_cert)" % val)
                continue
            kv, cv = m.group(1), m.group(2)
            for (var, param) in ((kv, "keys"), (cv, "certs")):
                loops = [x for x in cfg.nodes if x.kind == "iter" and var in node_stores(x)]
                ok = bool(loops) and all(isinstance(x.ast.target, ast.Name) and fnorm.norm(x, x.ast.iter) == param for x in loops)
                r.require(ok, fn, fn.loc(c), "%s is not an element of the `%s` argument" % (var, param))
            held_names = names_in(c.args[0]) | {kv, cv}

            def verified(x, lab, _val=val):
                f = fnorm.edge_fact(x, lab)
                return bool(f) and ((f[0] == "is not" and {f[1], f[2]} == {"None", _val}) or (f[0] == "truth" and f[1] == _val))
            bad = find_path_avoiding(cfg, lambda x, _n=n: x is _n, gate_edge=verified, kill=stores_any(held_names))
            r.count(len(cfg.nodes))
            for (t, w) in bad:
                r.violation(fn, fn.loc(c), "a certificate is kept as valid without its verification result having been "
                            "tested for None (path: %s)" % w.brief(), w)
        # the helper called is the one checked by C33.1
        for n in cfg.stmt_nodes():
            for c in calls_at(n, "validate_grid_manager_certificate"):
                tg = cg.resolve(fn, c)
                r.require(any(t.qual == "allmydata." + VALIDATE for t in tg), fn, fn.loc(c),
                          "validate_grid_manager_certificate resolves to %s" % [t.qual for t in tg])

    # -- 3. the predicate --------------------------------------------------
    with ctx.rule("C33.3", "R1", "validate(): a truthy return only inside cert['public_key'] == public_key and "
                  "now_fn() < fromisoformat(cert['expires']) for a kept certificate; time is read on every call",
                  expected=2) as r:
        fn = idx.func(CREATE)
        chk = _checker(fn)
        lst = _kept_list(fn, chk)
        cfg = chk.cfg()
        loops = [x for x in cfg.nodes if x.kind == "iter" and attr_path(x.ast.iter) == lst and isinstance(x.ast.target, ast.Name)]
        if len(loops) != 1:
            raise AnchorVanished("%s: expected one loop over %s" % (short(chk), lst))
        lv = loops[0].ast.target.id
        fnorm = FlowNorm(chk, rename={lv: "cert"})
        if chk.params:
            raise AnchorVanished("the verifier predicate takes parameters now: %s" % chk.params)
        for nm in ("public_key", lst):
            for x in cfg.find(stores(nm)):
                r.violation(chk, chk.loc(x.ast), "%s is re-bound inside the predicate" % nm)
            ds = all_defs(fn).get(nm, [])
            if nm == "public_key" and ds:
                r.violation(fn, fn.loc(ds[0]), "the expected server key public_key is re-bound in create_grid_manager_verifier")
        rets = cfg.find(is_return)
        truthy_rets = [n for n in rets if not _falsy_const(fnorm.resolve(n, n.ast.value))]
        if not truthy_rets:
            raise AnchorVanished("%s never returns True" % short(chk))

        def same_server(x, lab):
            f = fnorm.edge_fact(x, lab)
            if not f or f[0] != "==":
                return False
            return {_strip_codec(f[1]), _strip_codec(f[2])} == {"cert['public_key']", "public_key"}

        exp_re = re.compile(r"^(\w+\.)*fromisoformat\(cert\['expires'\]\)$")
        clock = {}

        def unexpired(x, lab):
            f = fnorm.edge_fact(x, lab)
            if not f or f[0] != "<":
                return False
            if not exp_re.match(f[2]):
                return False
            m = re.match(r"^(\w+)\(\)$", f[1])
            if not m:
                return False
            clock[m.group(1)] = x
            return True
        rebind = stores(lv)
        for n in truthy_rets:
            r.site(chk, n.ast, "permitting return")
            v = fnorm.resolve(n, n.ast.value)
            r.require(isinstance(v, ast.Constant) and v.value is True, chk, chk.loc(n.ast),
                      "the predicate returns %s" % src(chk, v))
            for (what, gate) in (("the certificate's public_key equals this server's key", same_server),
                                 ("now < expires (strict, time read by calling now_fn() in this call)", unexpired)):
                bad = find_path_avoiding(cfg, lambda x, _n=n: x is _n, gate_edge=gate, kill=rebind)
                r.count(len(cfg.nodes))
                for (t, w) in bad:
                    r.violation(chk, chk.loc(n.ast), "permission is granted without checking that %s (path: %s)" % (
                        what, w.brief()), w)
        # the clock: a free variable of the predicate bound in the factory to now_fn / current_datetime_with_zone
        r.site(chk, None, "clock")
        for cname, node in sorted(clock.items()):
            if cname in all_defs(chk) or cname in chk.params:
                r.violation(chk, chk.loc(node.ast), "the clock %s is a local of the predicate" % cname)
                continue
            if cname == "current_datetime_with_zone":
                continue
            ds = all_defs(fn).get(cname, [])
            used = set()
            for d in ds:
                used |= names_in(d)
            okc = cname in fn.params and bool(ds) and used <= {cname, "current_datetime_with_zone"} \
                and "current_datetime_with_zone" in used
            r.require(okc, fn, fn.loc(ds[0] if ds else None), "the clock %s() used by the predicate is not `now_fn` "
                      "defaulting to current_datetime_with_zone (defs: %s)" % (cname, [src(fn, d) for d in ds]))
        cur = idx.func(GM + ":current_datetime_with_zone")
        for n in cur.cfg().find(is_return):
            vs = FlowNorm(cur).norm(n, n.ast.value)
            r.require(vs == "datetime.now(timezone.utc)", cur, cur.loc(n.ast), "current_datetime_with_zone returns %s: "
                      "expiry times are timezone-aware UTC, the comparison needs datetime.now(timezone.utc)" % vs)

    # -- 4. which predicate is returned ------------------------------------
    with ctx.rule("C33.4", "R1", "create_grid_manager_verifier returns the always-True predicate exactly under `not "
                  "keys`, otherwise the checking predicate", expected=2) as r:
        fn = idx.func(CREATE)
        cfg = fn.cfg()
        fnorm = FlowNorm(fn)
        chk = _checker(fn)
        for x in cfg.find(stores("keys")):
            r.violation(fn, fn.loc(x.ast), "keys is re-bound")

        def no_keys(x, lab):
            f = fnorm.edge_fact(x, lab)
            return bool(f) and ((f[0] == "false" and f[1] in ("keys", "len(keys)")) or
                                (f[0] == "==" and {f[1], f[2]} == {"0", "len(keys)"}))

        def have_keys(x, lab):
            f = fnorm.edge_fact(x, lab)
            return bool(f) and ((f[0] == "truth" and f[1] in ("keys", "len(keys)")) or
                                (f[0] == "!=" and {f[1], f[2]} == {"0", "len(keys)"}) or
                                (f[0] == "<" and f[1] == "0" and f[2] == "len(keys)"))
        n_open = 0
        for n in cfg.find(is_return):
            v = fnorm.resolve(n, n.ast.value)
            r.site(fn, n.ast, "return")
            if isinstance(v, ast.Name) and v.id == chk.name:
                # the checking predicate must be what is returned whenever keys are configured: nothing to gate
                continue
            if isinstance(v, ast.Lambda) and not v.args.args and isinstance(v.body, ast.Constant):
                if v.body.value is True:
                    n_open += 1
                    for (t, w) in find_path_avoiding(cfg, lambda x, _n=n: x is _n, gate_edge=no_keys):
                        r.violation(fn, fn.loc(n.ast), "the always-True predicate is returned although grid-manager keys "
                                    "may be configured (path: %s)" % w.brief(), w)
                    continue
                r.violation(fn, fn.loc(n.ast), "a constant %r predicate is returned: %s" % (v.body.value, src(fn, v)))
                continue
            r.violation(fn, fn.loc(n.ast), "create_grid_manager_verifier returns %s, neither the checking predicate nor "
                        "`lambda: True`" % src(fn, v))
        r.require(n_open >= 1, fn, fn.loc(), "with no grid-manager keys configured the verifier no longer permits every "
                  "server (no `lambda: True` under `not keys`)")
        # the checking predicate is returned only when keys exist (otherwise nobody would be permitted)
        for n in cfg.find(is_return):
            v = fnorm.resolve(n, n.ast.value)
            if isinstance(v, ast.Name) and v.id == chk.name:
                for (t, w) in find_path_avoiding(cfg, lambda x, _n=n: x is _n, gate_edge=have_keys):
                    r.violation(fn, fn.loc(n.ast), "the checking predicate is returned on a path that never established "
                                "that keys are configured (path: %s)" % w.brief(), w)
        for (t, w) in find_path_avoiding(cfg, lambda x: x.kind == "exit", gate_node=is_return):
            r.violation(fn, fn.loc(), "create_grid_manager_verifier can fall off its end (returns None, not a predicate)", w)


def _checker(fn):
    """The nested predicate returned by the factory."""
    cands = []
    for n in fn.cfg().find(is_return):
        v = n.ast.value
        if isinstance(v, ast.Name) and v.id in fn.nested:
            cands.append(fn.nested[v.id])
    cands = list({c.qual: c for c in cands}.values())
    if len(cands) != 1:
        raise AnchorVanished("create_grid_manager_verifier: expected exactly one nested predicate to be returned, got %s" % [
            c.qual for c in cands])
    return cands[0]


def _kept_list(fn, chk):
    """The factory local the predicate iterates (valid_certs)."""
    for x in chk.cfg().nodes:
        if x.kind == "iter" and isinstance(x.ast.iter, ast.Name) and x.ast.iter.id in all_defs(fn) \
                and x.ast.iter.id not in all_defs(chk):
            return x.ast.iter.id
    raise AnchorVanished("%s no longer iterates a list built by the factory" % short(chk))
