"""C34 Introducer announcements are authentic and fresh.

Decided: the verification gate of unsign_from_foolscap, the pair handed to
_process_announcement, the sequence-number replay rule (client and introducer
server), the exception-escape analysis (E9) of the per-announcement handler
in got_announcements (DESIGN.md section 5, C34), that the decoding of the
claimed key string into the verifying key is one-to-one (C34.7), and that the
rejection path of got_announcements applies only total operations to the
rejected (untrusted) announcement (C34.8)."""
from sa.h import *
from sa.tables import ConstEval

EXPLANATION = (
    "Decided (structural, all paths): (1) introducer.common.unsign_from_foolscap returns only after "
    "ed25519.verify_signature(key built from the claimed key string, signature decoded from the signature string, msg) "
    "returned normally; the returned announcement is json.loads of that same msg and the returned key is the claimed "
    "(verified) key string; IntroducerClient.got_announcements hands exactly that pair to _process_announcement, "
    "which nobody else (but the local cache loader) may call; (2) _process_announcement stores into _inbound_announcements[(service, key)] only when "
    "the index is new, or the old announcement has no seqnum, or the new one has an int seqnum strictly greater than "
    "the old one; this is the only store, entries are never deleted, subscribers are notified only after the store "
    "and only from there (or from the cache loader); (3) E9: every exception class raised explicitly (raise X, "
    "precondition/_assert/assert) inside unsign_from_foolscap and its in-package callees - minus raise sites whose "
    "guard is contradicted by a fact the caller established on every path (prefix checks) - is caught by a handler "
    "of the try statement around the call in got_announcements; (5) every such handler continues with the next "
    "announcement: it neither leaves the loop nor falls through to _process_announcement with stale values; (4) the introducer server's _publish applies the same "
    "sequence-number rule to _announcements[(service, key)]; (6) crypto.ed25519.verify_signature itself reaches its "
    "normal exit only after <key parameter>.verify(<signature parameter>, <data parameter>) of the cryptography "
    "library returned normally (parameters not re-bound, arguments in that order or by keyword), so 'returned "
    "normally' in (1) means 'the Ed25519 check passed'; (7) one key string names one key: because the announcement is "
    "filed (and its sequence numbers compared) under the claimed key *string* while the signature is checked under the "
    "key *decoded* from it, every operation on the data path from ann_t[2] to the key handed to verify_signature "
    "(followed backwards through reaching definitions and resolved in-package callees: unsign_from_foolscap, "
    "ed25519.verifying_key_from_string, crypto.util.remove_prefix, base32.a2b) must be one-to-one: constant prefix / "
    "suffix, removal of a prefix that a startswith() test on every path established, strict encode/decode, the library "
    "decoders, and case folding or lenient decoder flags only on a value that a validator test passed on every path "
    "restricted to an alphabet without a letter in both cases (base32.could_be_base32_encoded: every accepting return "
    "carries the conjunct `not bytes.translate(s, _, ALPHABET)` with ALPHABET folded to its bytes; and, because "
    "base64.b32decode - which must itself be preceded by such a validator - drops the unused low bits of the last "
    "character silently, the validator, const-evaluated by the engine's AST interpreter on key-length (52 character) "
    "strings that differ only in the last character, accepts no two whose last characters differ only in the 4 bits "
    "that do not reach the 32 key bytes - this covers the contents of the last-character table s8; when the validator "
    "cannot be evaluated: every accepting return has a conjunct reading the last character, and a validator whose "
    "other conjuncts see only len(s) is a violation); strip / case change / "
    "replace / split / re.sub / truncating or unchecked slices are violations. "
    "(8) the rejection path is total: between the arrival of one announcement and the next iteration, every "
    "statement of got_announcements that is not protected by the per-announcement try (the bodies of its handlers "
    "up to the loop head, statements of the loop body in front of the try) and every in-package helper such a "
    "statement hands the value to (followed through the call graph with the tainted parameters) applies only total "
    "operations to values data-dependent on the loop variable: copying, tuple / list displays, is / == / truth tests, "
    "repr / str(x) / type / isinstance, %-formatting of a str template with %s / %r and a tuple or dict display on the "
    "right, f-strings without a format spec, and passing the value as an argument to a logging call (log / msg / err); "
    "attribute access and method calls (.decode), indexing, unpacking, iteration (for / comprehension / *), arithmetic, "
    "ordered comparison, % with the bare value or a bytes template or a numeric conversion, assertions on the value and "
    "library calls that raise on the type or content of their argument (ensure_text, int, len, json, join ...) are "
    "violations unless inside a nested try with an `except Exception` / bare handler; library calls in neither list, a "
    "value passed on through * / ** and explicit raise statements of such helpers stay undecided (ANALYSIS-ERROR / not "
    "examined).  The introducer server handles one announcement per remote call, so it has no sibling batch loop. "
    "Not demanded (liveness only, every return is still gated by (1)+(6)): the polarity of the empty / 'v0-' prefix "
    "guards of unsign_from_foolscap and of the isinstance guards of verify_signature, the duplicate shortcut and the "
    "subscribed-service filter of _process_announcement, saving the cache, the introducer server's fan-out. "
    "Undecided: exceptions raised by library code (cryptography key decoding, json, UTF-8 decoding) and implicit "
    "exceptions (KeyError / TypeError on a validly signed announcement that is not a dict with 'service-name') raised "
    "in _process_announcement outside the per-announcement try, Ed25519 itself; for (7): whether the library maps "
    "different 32-byte strings to one Ed25519 key, that repeated constant padding ('=') stays one-to-one (true while "
    "the pad byte is outside the validated alphabet), and an unchecked prefix slice inside a callee whose caller "
    "established the prefix (reported as ANALYSIS-ERROR, not as a violation).")
TECHNIQUE = ("static analysis: CFG must-precede gates, CFG x fact-set monitor for the replay rule, transitive "
             "exception-escape analysis over the resolved call graph with guard pruning and the class hierarchy, "
             "backward interprocedural data lineage (reaching definitions) with an injectivity classification of every step, "
             "forward interprocedural taint from the loop variable with a totality classification of every operation on the "
             "rejection path")

UNSIGN = "introducer.common:unsign_from_foolscap"
CLIENT = "introducer.client:IntroducerClient"
SERVER = "introducer.server:IntroducerService"
VERIFY = "allmydata.crypto.ed25519:verify_signature"


# =====================================================================
# E9: which exception classes can escape a function (explicit raises only)
# =====================================================================
class Rec:
    __slots__ = ("cls", "fn", "node", "facts", "chain")

    def __init__(self, cls, fn, node, facts, chain):
        self.cls, self.fn, self.node, self.facts, self.chain = cls, fn, node, facts, chain

    def where(self):
        s = "%s at %s" % (short(self.fn), self.fn.loc(self.node))
        if self.chain:
            s += " via " + " -> ".join(short(f) for (f, _c) in reversed(self.chain))
        return s


def _simplify(e):
    """Sound rewrites of guard expressions: (a + X).startswith(a + q) == X.startswith(q);
    isinstance(<bytes literal> + X, bytes) == True."""
    if isinstance(e, ast.Call) and isinstance(e.func, ast.Attribute) and e.func.attr == "startswith" \
            and len(e.args) == 1 and isinstance(e.args[0], ast.Constant) and isinstance(e.args[0].value, (bytes, str)):
        recv, p = e.func.value, e.args[0].value
        if isinstance(recv, ast.BinOp) and isinstance(recv.op, ast.Add) and isinstance(recv.left, ast.Constant) \
                and type(recv.left.value) is type(p):
            a = recv.left.value
            if a.startswith(p):
                return ast.Constant(value=True)
            if p.startswith(a):
                return _simplify(ast.Call(func=ast.Attribute(value=recv.right, attr="startswith", ctx=ast.Load()),
                                          args=[ast.Constant(value=p[len(a):])], keywords=[]))
            return ast.Constant(value=False)
        if isinstance(recv, ast.Constant) and type(recv.value) is type(p):
            return ast.Constant(value=recv.value.startswith(p))
    if isinstance(e, ast.Call) and isinstance(e.func, ast.Name) and e.func.id == "isinstance" and len(e.args) == 2 \
            and isinstance(e.args[1], ast.Name) and e.args[1].id == "bytes":
        x = e.args[0]
        if isinstance(x, ast.BinOp) and isinstance(x.op, ast.Add) and isinstance(x.left, ast.Constant) \
                and isinstance(x.left.value, bytes):
            return ast.Constant(value=True)     # bytes + X is bytes or raises TypeError (library, undecided)
        if isinstance(x, ast.Constant):
            return ast.Constant(value=isinstance(x.value, bytes))
    return e


class _Subst(ast.NodeTransformer):
    def __init__(self, mapping):
        self.mapping = mapping

    def visit_Name(self, node):
        if isinstance(node.ctx, ast.Load) and node.id in self.mapping:
            import copy
            return copy.deepcopy(self.mapping[node.id])
        return node


def _subst(e, mapping):
    import copy
    return ast.fix_missing_locations(_Subst(mapping).visit(copy.deepcopy(e)))


class Escape:
    """Explicitly raised exception classes that may leave a function, transitively through resolved in-package
    callees.  A record carries the guard facts (over the function's parameters) that must hold for the raise
    site to be reached; a record is dropped when its caller establishes the contrary on every path to the call."""

    MAX_DEPTH = 8

    def __init__(self, idx):
        self.idx = idx
        self.cg = get_callgraph(idx)
        self.folder = get_folder(idx)
        self.memo = {}
        self.pruned = []          # (Rec, reason) for the evidence
        self.unresolved = set()
        self.states = 0

    # -- facts that hold on every path entry -> node
    def must_facts(self, fn, node):
        cfg = fn.cfg()
        out = []
        for t in cfg.nodes:
            if t.kind != "test" or t is node:
                continue
            for pol in ("T", "F"):
                bad = find_path_avoiding(cfg, lambda x, _n=node: x is _n,
                                         gate_edge=lambda x, lab, _t=t, _p=pol: x is _t and isinstance(lab, tuple) and lab[0] == _p)
                self.states += len(cfg.nodes)
                if not bad:
                    out.append((pol == "T", t, t.ast))
        return out

    def _param_facts(self, fn, facts):
        """Rewrite facts over the function's parameters / constants only; drop the others."""
        fnorm = FlowNorm(fn)
        params = set(fn.params)
        locs = set(all_defs(fn))
        out = []
        for (pol, t, e) in facts:
            mapping = {}
            ok = True
            for nm in names_in(e):
                if nm in params and nm not in locs:
                    continue
                if nm in locs:
                    rv = fnorm.resolve(t, ast.Name(id=nm, ctx=ast.Load()))
                    if isinstance(rv, ast.Name) and rv.id == nm:
                        ok = False
                        break
                    if names_in(rv) - params or names_in(rv) & locs:
                        ok = False
                        break
                    mapping[nm] = rv
                    continue
                # module-level constant?
                try:
                    v = self.folder.name(nm, fn.module, fn.cls)
                except Exception:
                    v = None
                if isinstance(v, (bytes, str, int)) and not isinstance(v, bool):
                    mapping[nm] = ast.Constant(value=v)
                # other globals (functions, types) stay as names
            if ok:
                out.append((pol, _simplify(_subst(e, mapping))))
        return out

    def escaping(self, fn, depth=0):
        if fn.qual in self.memo:
            return self.memo[fn.qual]
        self.memo[fn.qual] = []          # recursion guard
        recs = []
        cfg = fn.cfg()
        reach = cfg.reachable_nodes()
        fnorm = FlowNorm(fn)
        for n in cfg.nodes:
            if n.id not in reach:
                continue
            leaves_fn = any(d == cfg.raise_exit.id for (d, _l) in cfg.succ[n.id])
            if is_raise(n) and leaves_fn:
                nm = C._exc_name(n.ast.exc)
                if nm is None:
                    nm = "?"
                recs.append(Rec(nm, fn, n.ast, self._param_facts(fn, self.must_facts(fn, n)), []))
            if n.kind == "test" and n.assume and any(d == cfg.raise_exit.id and isinstance(l, tuple) and l[0] == "F"
                                                     for (d, l) in cfg.succ[n.id]):
                facts = self.must_facts(fn, n) + [(False, n, n.ast)]
                recs.append(Rec("AssertionError", fn, n.ast, self._param_facts(fn, facts), []))
            if depth >= self.MAX_DEPTH:
                continue
            for c in node_calls(n):
                targets = self.cg.resolve(fn, c)
                if not targets:
                    self.unresolved.add(call_name(c) or call_tail(c))
                for g in targets:
                    if g.qual == fn.qual:
                        continue
                    for rec in self.escaping(g, depth + 1):
                        # caught locally?
                        handlers = [cfg.nodes[d] for (d, l) in cfg.succ[n.id] if l == "exc" and cfg.nodes[d].kind == "except"]
                        if any(C._default_exc_match(rec.cls, h.ast.type) is True for h in handlers):
                            continue
                        lifted = self._lift(g, c, rec.facts)
                        why = self._contradicted(fn, fnorm, n, lifted)
                        if why:
                            self.pruned.append((rec, "%s in %s" % (why, short(fn))))
                            continue
                        mine = self._param_facts(fn, self.must_facts(fn, n) + [(p, n, e) for (p, e) in lifted])
                        recs.append(Rec(rec.cls, rec.fn, rec.node, mine, rec.chain + [(fn, c)]))
        self.memo[fn.qual] = recs
        return recs

    def _lift(self, g, call, facts):
        """Callee facts (over g's parameters) -> caller vocabulary via the actual arguments."""
        ps = list(g.params)
        if ps and ps[0] in ("self", "cls") and g.cls is not None:
            ps = ps[1:]
        mapping = {}
        for i, p in enumerate(ps):
            a = kwarg(call, p)
            if a is None:
                a = arg(call, i)
            if a is not None:
                mapping[p] = a
        out = []
        for (pol, e) in facts:
            if (names_in(e) & set(ps)) - set(mapping):
                continue
            out.append((pol, _simplify(_subst(e, mapping))))
        return out

    def _contradicted(self, fn, fnorm, node, facts):
        cfg = fn.cfg()
        for (pol, e) in facts:
            if isinstance(e, ast.Constant):
                if bool(e.value) != pol:
                    return "its guard simplifies to the constant %s, the raise needs %s" % (bool(e.value), pol)
                continue
            try:
                target = fnorm.at(node).cmp(e, not pol)
            except Exception:
                continue
            names = names_in(e)
            bad = find_path_avoiding(cfg, lambda x, _n=node: x is _n,
                                     gate_edge=lambda t, lab, _tg=target: fnorm.edge_fact(t, lab) == _tg,
                                     kill=stores_any(names))
            self.states += len(cfg.nodes)
            if not bad:
                return "the caller established `%s%s` on every path" % ("" if not pol else "not ", ast.unparse(e))
        return None


# =====================================================================
# role-based facts for the sequence-number rule
# =====================================================================
class Roles:
    """Maps expressions of a function to roles: ANN (the new announcement dict), KEY, SERVICE, IDX (service, key),
    ENTRY (the stored tuple at IDX), OLDANN (its announcement component), X.seqnum."""

    def __init__(self, fn, store_attr, is_ann, is_key):
        self.fn = fn
        self.fnorm = FlowNorm(fn)
        self.store = store_attr          # e.g. "self._inbound_announcements"
        self.is_ann = is_ann
        self.is_key = is_key
        self.pos = None                  # position of the announcement dict in the stored tuple

    def role(self, node, e, depth=16):
        if depth <= 0 or e is None:
            return None
        if self.is_ann(node, e):
            return "ANN"
        if self.is_key(node, e):
            return "KEY"
        if isinstance(e, ast.Name):
            rv = self.fnorm.resolve(node, e)
            if rv is not e:
                return self.role(node, rv, depth - 1)
            return None
        if isinstance(e, ast.Constant):
            return repr(e.value)
        if isinstance(e, ast.Attribute):
            return attr_path(e)
        if isinstance(e, ast.Tuple) and len(e.elts) == 2:
            a, b = self.role(node, e.elts[0], depth - 1), self.role(node, e.elts[1], depth - 1)
            if a == "SERVICE" and b == "KEY":
                return "IDX"
            return None
        if isinstance(e, ast.Call):
            if call_name(e) == "str" and len(e.args) == 1 and self.role(node, e.args[0], depth - 1) == "ANN['service-name']":
                return "SERVICE"
            if call_name(e) == self.store + ".get" and len(e.args) == 1 and self.role(node, e.args[0], depth - 1) == "IDX":
                return "ENTRY"
            if call_name(e) == "isinstance" and len(e.args) == 2:
                a = self.role(node, e.args[0], depth - 1)
                if a and isinstance(e.args[1], ast.Name):
                    return "isinstance(%s, %s)" % (a, e.args[1].id)
            return None
        if isinstance(e, ast.Subscript):
            if attr_path(e.value) == self.store:
                return "ENTRY" if self.role(node, e.slice, depth - 1) == "IDX" else None
            base = self.role(node, e.value, depth - 1)
            if base is None:
                return None
            k = e.slice
            if isinstance(k, ast.Constant):
                if base == "ENTRY" and isinstance(k.value, int):
                    return "OLDANN" if k.value == self.pos else "ENTRY[%d]" % k.value
                return "%s[%r]" % (base, k.value)
            return None
        return None

    _NEG = {ast.In: ast.NotIn, ast.NotIn: ast.In, ast.Lt: ast.GtE, ast.GtE: ast.Lt, ast.Gt: ast.LtE, ast.LtE: ast.Gt,
            ast.Eq: ast.NotEq, ast.NotEq: ast.Eq, ast.Is: ast.IsNot, ast.IsNot: ast.Is}
    _SYM = {ast.In: "in", ast.NotIn: "not in", ast.Lt: "<", ast.LtE: "<=", ast.Eq: "==", ast.NotEq: "!=",
            ast.Is: "is", ast.IsNot: "is not"}

    def fact(self, n, lab):
        if n.kind != "test" or not isinstance(lab, tuple):
            return None
        pol = lab[0] == "T"
        e = n.ast
        if isinstance(e, ast.Name):
            rv = self.fnorm.resolve(n, e)
            if isinstance(rv, (ast.Compare, ast.UnaryOp)):
                e = rv
        while isinstance(e, ast.UnaryOp) and isinstance(e.op, ast.Not):
            e, pol = e.operand, not pol
        if isinstance(e, ast.Compare) and len(e.ops) == 1:
            op = type(e.ops[0])
            l, r = e.left, e.comparators[0]
            if not pol:
                op = self._NEG.get(op)
            if op is ast.Gt:
                op, l, r = ast.Lt, r, l
            elif op is ast.GtE:
                op, l, r = ast.LtE, r, l
            if op not in self._SYM:
                return None
            return (self._SYM[op], self.role(n, l), self.role(n, r))
        return ("truth" if pol else "false", self.role(n, e), None)


def _seqnum_monitor(r, fn, roles, store_node, what):
    """Explore CFG x fact-set; the store must be reached only with NEW, NOSEQ or HASSEQ & ISINT & NEWER."""
    cfg = fn.cfg()
    S = roles.store

    def transfer(n, lab, nxt, st):
        if n.kind in ("entry", "exit", "raise"):
            return st
        f = roles.fact(n, lab)
        if not f:
            return st
        s = set(st)
        if f in (("not in", "IDX", S), ("false", "ENTRY", None), ("is", "ENTRY", "None")):
            s.add("NEW")
        elif f in (("in", "IDX", S), ("truth", "ENTRY", None), ("is not", "ENTRY", "None")):
            s.discard("NEW")
        elif f == ("not in", "'seqnum'", "OLDANN"):
            s.add("NOSEQ")
        elif f == ("in", "'seqnum'", "OLDANN"):
            s.discard("NOSEQ")
        elif f == ("in", "'seqnum'", "ANN"):
            s.add("HASSEQ")
        elif f == ("truth", "isinstance(ANN['seqnum'], int)", None):
            s.add("ISINT")
        elif f == ("<", "OLDANN['seqnum']", "ANN['seqnum']"):
            s.add("NEWER")
        return frozenset(s)
    visited, parent = explore(cfg, frozenset(), transfer)
    r.count(len(visited))
    for (nid, st) in sorted(visited, key=lambda x: (x[0], sorted(x[1]))):
        if nid != store_node.id:
            continue
        if "NEW" in st or "NOSEQ" in st or {"HASSEQ", "ISINT", "NEWER"} <= st:
            continue
        w = witness(cfg, parent, (nid, st))
        missing = sorted({"HASSEQ", "ISINT", "NEWER"} - st)
        r.violation(fn, fn.loc(store_node.ast), "%s: a stored announcement can be replaced although the index exists, the "
                    "old one has a seqnum and %s was not established (%s) (path: %s)" % (
                        what, " / ".join(missing),
                        "HASSEQ: 'seqnum' in ann, ISINT: isinstance(ann['seqnum'], int), NEWER: old seqnum < new seqnum",
                        w.brief()), w)
        break


def _entry_stores(fn, roles):
    """All `self.<attr>[..] = (.., ann, ..)` stores; sets roles.pos from the first one.  [(node, tuple value)]"""
    cfg = fn.cfg()
    sts = [n for n in cfg.stmt_nodes() if roles.store + "[]" in node_stores(n)]
    if not sts:
        raise AnchorVanished("%s: no store into %s[...]" % (short(fn), roles.store))
    out = []
    for n in sts:
        if not isinstance(n.ast, ast.Assign) or len(n.ast.targets) != 1:
            raise AnalysisError("%s: store into %s[...] is not a plain assignment" % (short(fn), roles.store))
        val = roles.fnorm.resolve(n, n.ast.value)
        if not isinstance(val, ast.Tuple):
            raise AnalysisError("%s: the stored entry is not a tuple literal" % short(fn))
        pos = [i for i, e in enumerate(val.elts) if roles.role(n, e) == "ANN"]
        if len(pos) != 1:
            raise AnalysisError("%s: the stored entry does not contain the new announcement exactly once" % short(fn))
        if roles.pos is None:
            roles.pos = pos[0]
        elif roles.pos != pos[0]:
            raise AnalysisError("%s: stores disagree on the position of the announcement in the entry" % short(fn))
        out.append((n, val))
    return out


# =====================================================================
# C34.7: the decoding claimed key string -> verifying key is one-to-one
# =====================================================================
# The announcement is filed under the *claimed key string* (C34.1: the returned key is ann_t[2]; C34.2/C34.4: the
# index is (service, that string)), while the signature is checked under the *key decoded from it*.  Replay
# protection per key therefore needs: two different strings never decode to the same verifying key.  The lineage
# below walks backwards from the key handed to verify_signature to ann_t[2], through reaching definitions and
# resolved in-package callees, and classifies every operation applied on the way.
_LOSSY_METHODS = {"strip", "lstrip", "rstrip", "casefold", "swapcase", "capitalize", "title", "replace", "translate",
                  "split", "rsplit", "partition", "rpartition", "splitlines", "expandtabs", "removeprefix",
                  "removesuffix", "zfill", "ljust", "rjust", "center"}
_CASEFOLD_METHODS = {"upper", "lower"}
_IDENTITY_CALLS = {"bytes", "bytearray", "memoryview"}


def _case_unique(alphabet):
    syms = {bytes([b]) for b in alphabet} if isinstance(alphabet, bytes) else set(alphabet)
    return len({x.upper() for x in syms}) == len(syms) and len({x.lower() for x in syms}) == len(syms)


# An Ed25519 verifying key is 32 bytes (the library refuses every other length), i.e. 52 base32 characters = 260
# bits: the low 4 bits of the last character do not reach the key.  base64.b32decode reads the RFC 4648 alphabet.
_KEY_BYTES = 32
_KEY_CHARS = -(-_KEY_BYTES * 8 // 5)
_KEY_SPARE_BITS = _KEY_CHARS * 5 - _KEY_BYTES * 8
_RFC4648 = b"ABCDEFGHIJKLMNOPQRSTUVWXYZ234567"
_PURE_BYTES = {"translate": bytes.translate, "maketrans": bytes.maketrans}


class _ValidatorEval(ConstEval):
    """The engine's bounded AST interpreter plus what util.base32 reaches through aliases: the pure class methods
    bytes.translate / bytes.maketrans as values (`tr=bytes.translate`, `maketrans = bytes.maketrans`) and
    module-level names bound to such values."""

    def __init__(self, folder, module, cache):
        ConstEval.__init__(self, folder, module)
        self.GLOBALS = cache         # folded immutable module-level values, shared by the runs over one tree

    def _global(self, name):
        vals = self.module.assigns.get(name)
        if vals and len(vals) == 1:
            return self.expr(vals[0], {})
        raise NotConstant(name)

    def _expr(self, e, env):
        if isinstance(e, ast.Attribute) and isinstance(e.value, ast.Name) and e.value.id == "bytes" \
                and "bytes" not in env and e.attr in _PURE_BYTES:
            return _PURE_BYTES[e.attr]
        if isinstance(e, ast.Name) and e.id not in env and e.id not in self._BUILTINS:
            key = (self.module.name, e.id)
            if key not in self.GLOBALS:
                try:
                    v = super()._expr(e, env)
                except NotConstant:
                    v = self._global(e.id)
                if not isinstance(v, (bytes, str, int, tuple, frozenset, type(None))):
                    return v
                self.GLOBALS[key] = v
            return self.GLOBALS[key]
        if isinstance(e, ast.Call):
            try:
                return super()._expr(e, env)
            except NotConstant:
                f = self.expr(e.func, env)
                if not any(f is x for x in _PURE_BYTES.values()):
                    raise
                return f(*[self.expr(a, env) for a in e.args])
        return super()._expr(e, env)


class KeyLineage:
    def __init__(self, idx, root):
        self.idx = idx
        self.cg = get_callgraph(idx)
        self.folder = get_folder(idx)
        self.root = root
        self.lossy = []          # (fn, ast node, message)   -> violations
        self.undecided = []      # (fn, ast node, message)   -> ANALYSIS-ERROR when nothing is lossy
        self.steps = []          # accepted one-to-one steps (evidence)
        self.checkpoints = []    # (fn, ast node, note)      -> rule sites
        self.states = 0
        self._rd = {}
        self._fnorm = {}
        self._memo = {}
        self._rets = {}
        self._validators = {}
        self._vfindings = {}     # validator qual -> [(ast node, message)]: what the validator lets through

    # ---- helpers
    def rd(self, fn):
        if fn.qual not in self._rd:
            self._rd[fn.qual] = C.reaching_defs(fn.cfg())
        return self._rd[fn.qual]

    def fnorm(self, fn):
        if fn.qual not in self._fnorm:
            self._fnorm[fn.qual] = FlowNorm(fn)
        return self._fnorm[fn.qual]

    def locals_of(self, fn):
        return set(fn.params) | set(all_defs(fn))

    def const_value(self, fn, e, module_scope=False):
        """(True, value) when e is a constant of the module (no local involved); parameter defaults are
        evaluated in module scope."""
        if isinstance(e, ast.Constant):
            return True, e.value
        if not module_scope and names_in(e) & self.locals_of(fn):
            return False, None
        try:
            return True, self.folder.fold(e, fn.module, fn.cls)
        except Exception:
            return False, None

    def _lossy(self, fn, node, msg):
        if not any(f is fn and n is node for (f, n, _m) in self.lossy):
            self.lossy.append((fn, node, msg))

    def _undecided(self, fn, node, msg):
        if not any(f is fn and n is node for (f, n, _m) in self.undecided):
            self.undecided.append((fn, node, msg))

    def _step(self, fn, what):
        s = "%s: %s" % (short(fn), what)
        if s not in self.steps:
            self.steps.append(s)

    def _checkpoint(self, fn, node, note):
        if not any(f is fn and n is node for (f, n, _x) in self.checkpoints):
            self.checkpoints.append((fn, node, note))

    @staticmethod
    def _def_value(dn, name):
        a = dn.ast
        if dn.kind != "stmt":
            return None
        if isinstance(a, ast.AugAssign) and isinstance(a.target, ast.Name) and a.target.id == name:
            return ast.copy_location(ast.BinOp(left=ast.Name(id=name, ctx=ast.Load()), op=a.op, right=a.value), a)
        if isinstance(a, ast.AnnAssign) and isinstance(a.target, ast.Name) and a.target.id == name:
            return a.value
        if isinstance(a, ast.Assign):
            for t in a.targets:
                if isinstance(t, ast.Name) and t.id == name:
                    return a.value
                if isinstance(t, (ast.Tuple, ast.List)):
                    if isinstance(a.value, (ast.Tuple, ast.List)) and len(t.elts) == len(a.value.elts):
                        for tt, vv in zip(t.elts, a.value.elts):
                            if isinstance(tt, ast.Name) and tt.id == name:
                                return vv
                    else:
                        for i, tt in enumerate(t.elts):
                            if isinstance(tt, ast.Name) and tt.id == name:
                                return ast.copy_location(ast.Subscript(value=a.value, slice=ast.Constant(value=i),
                                                                       ctx=ast.Load()), a)
        return None

    def _is_self_pad(self, fn, dn, name):
        """`x += const`, `x = x + const`, `x = const + x`: padding of the value with a constant."""
        v = self._def_value(dn, name)
        if not (isinstance(v, ast.BinOp) and isinstance(v.op, ast.Add)):
            return False
        for (a, b) in ((v.left, v.right), (v.right, v.left)):
            if isinstance(a, ast.Name) and a.id == name and self.const_value(fn, b)[0]:
                return True
        return False

    # ---- the backward walk: which inputs does the value of `e` at `node` come from
    def back(self, fn, node, e):
        if e is None or isinstance(e, ast.Constant):
            return set()
        if isinstance(e, ast.Name):
            return self._name(fn, node, e)
        if isinstance(e, ast.BinOp) and isinstance(e.op, ast.Add):
            lc, rc = self.const_value(fn, e.left)[0], self.const_value(fn, e.right)[0]
            if lc and rc:
                return set()
            if lc or rc:
                self._step(fn, "constant %s" % ("prefix" if lc else "suffix"))
                return self.back(fn, node, e.right if lc else e.left)
            self._undecided(fn, e, "`%s` joins two non-constant values" % src(fn, e))
            return self.back(fn, node, e.left) | self.back(fn, node, e.right)
        if isinstance(e, ast.Subscript):
            return self._subscript(fn, node, e)
        if isinstance(e, ast.Call):
            return self._call(fn, node, e)
        if self.const_value(fn, e)[0]:
            return set()
        self._undecided(fn, e, "`%s` is not an operation the one-to-one analysis understands" % src(fn, e))
        out = set()
        for nm in names_in(e):
            out |= self._name(fn, node, ast.Name(id=nm, ctx=ast.Load()))
        return out

    def _name(self, fn, node, e):
        name = e.id
        if name not in self.locals_of(fn):
            if not self.const_value(fn, e)[0]:
                self._undecided(fn, node.ast, "`%s` is read from module state" % name)
            return set()
        key = (fn.qual, node.id, name)
        if key in self._memo:
            return self._memo[key]
        self._memo[key] = set()
        cfg = fn.cfg()
        ds = self.rd(fn).get(node.id, {}).get(name, frozenset())
        defs = [d for d in ds if d != C.PARAM_DEF]
        plain = [d for d in defs if not self._is_self_pad(fn, cfg.nodes[d], name)]
        if len(plain) + (1 if C.PARAM_DEF in ds else 0) > 1:
            self._undecided(fn, node.ast, "`%s` is bound differently on different paths (lines %s): a conditional rewrite "
                            "of the key string cannot be shown to be one-to-one" % (
                                name, ", ".join(sorted({str(cfg.nodes[d].lineno) for d in plain}))))
        out = set()
        if C.PARAM_DEF in ds:
            out.add(("param", fn.qual, name))
        for d in sorted(defs):
            dn = cfg.nodes[d]
            v = self._def_value(dn, name)
            if v is None:
                self._undecided(fn, dn.ast, "`%s` is bound by a %s, not by an assignment" % (name, dn.kind))
                continue
            if d not in plain:
                self._step(fn, "padding with a constant (`%s`)" % src(fn, dn.ast))
            out |= self.back(fn, dn, v)
        self.states += len(ds)
        self._memo[key] = out
        return out

    def _subscript(self, fn, node, e):
        sl = e.slice
        if isinstance(sl, ast.Slice):
            if sl.upper is not None or sl.step is not None:
                self._lossy(fn, e, "`%s` keeps only a part of the key string: every string with the same part decodes to "
                            "the same key" % src(fn, e))
                return self.back(fn, node, e.value)
            if sl.lower is None:
                return self.back(fn, node, e.value)
            ok, c = self.const_value(fn, sl.lower)
            if ok and c == 0:
                return self.back(fn, node, e.value)
            if ok and isinstance(c, int) and c < 0:
                self._lossy(fn, e, "`%s` keeps only the tail of the key string" % src(fn, e))
                return self.back(fn, node, e.value)
            if self._prefix_guard(fn, node, e.value, sl.lower):
                self._step(fn, "removal of a checked constant prefix (`%s`)" % src(fn, e))
                self._checkpoint(fn, e, "checked prefix removal")
            elif fn is self.root:
                self._lossy(fn, e, "`%s` drops leading bytes that were not compared with a fixed prefix: key strings "
                            "differing only there decode to the same key" % src(fn, e))
            else:
                self._undecided(fn, e, "`%s` drops leading bytes without a startswith() check in %s itself" % (
                    src(fn, e), short(fn)))
            return self.back(fn, node, e.value)
        if isinstance(sl, ast.Constant) and isinstance(sl.value, int) and not isinstance(sl.value, bool) \
                and fn is self.root and isinstance(e.value, ast.Name) \
                and e.value.id == first_positional_params(fn)[0] \
                and set(self.rd(fn).get(node.id, {}).get(e.value.id, ())) == {C.PARAM_DEF}:
            return {("elem", e.value.id, sl.value)}
        self._undecided(fn, e, "`%s` selects a part of a value" % src(fn, e))
        return self.back(fn, node, e.value)

    def _prefix_guard(self, fn, node, value, lower):
        """Every path to `node` passed the true edge of <value>.startswith(P) with len(P) == lower."""
        cfg = fn.cfg()
        fnorm = self.fnorm(fn)
        vs = fnorm.norm(node, value)
        ls = fnorm.norm(node, lower)
        lconst = self.const_value(fn, lower)
        for t in cfg.nodes:
            c = t.ast
            if t.kind != "test" or not (isinstance(c, ast.Call) and isinstance(c.func, ast.Attribute)
                                        and c.func.attr == "startswith" and len(c.args) == 1 and not c.keywords):
                continue
            if fnorm.norm(t, c.func.value) != vs:
                continue
            P = c.args[0]
            same_len = fnorm.norm(t, ast.Call(func=ast.Name(id="len", ctx=ast.Load()), args=[P], keywords=[])) == ls
            if not same_len and lconst[0]:
                pc = self.const_value(fn, P)
                same_len = pc[0] and isinstance(pc[1], (bytes, str)) and len(pc[1]) == lconst[1]
            if not same_len:
                continue
            bad = find_path_avoiding(cfg, lambda x: x is node,
                                     gate_edge=lambda x, lab, _t=t: x is _t and isinstance(lab, tuple) and lab[0] == "T",
                                     kill=stores_any(names_in(value) | names_in(P)))
            self.states += len(cfg.nodes)
            if not bad:
                return True
        return False

    def _call(self, fn, node, e):
        f = e.func
        targets = self.cg.resolve(fn, e)
        if targets:
            return self._package_call(fn, node, e, targets)
        name, tail = call_name(e) or "", call_tail(e)
        is_method_of_value = isinstance(f, ast.Attribute) and not (
            isinstance(_attr_root(f.value), ast.Name) and _attr_root(f.value).id not in self.locals_of(fn))
        if is_method_of_value:
            recv = f.value
            if tail in _LOSSY_METHODS:
                self._lossy(fn, e, "`.%s()` is applied to the key string before it is decoded: several spellings of one "
                            "key verify, but each is filed under its own name" % tail)
            elif tail in _CASEFOLD_METHODS:
                verdict, why = self._casefold_gate(fn, node, recv)
                if verdict == "ok":
                    self._step(fn, "case folding `.%s()` after %s" % (tail, why))
                    self._checkpoint(fn, e, "case folding after alphabet check")
                elif verdict == "no":
                    self._lossy(fn, e, "`.%s()` folds the case of the key string although %s: upper-, lower- and mixed-"
                                "case spellings of one key all verify, each filed under its own name" % (tail, why))
                else:
                    self._undecided(fn, e, "`.%s()`: %s" % (tail, why))
            elif tail in ("encode", "decode"):
                errs = kwarg(e, "errors") or arg(e, 1)
                if errs is not None and not (isinstance(errs, ast.Constant) and errs.value == "strict"):
                    self._lossy(fn, e, "`%s` converts the key string leniently" % src(fn, e))
                else:
                    self._step(fn, "strict `.%s()`" % tail)
            else:
                self._undecided(fn, e, "method `.%s()` applied to the key string" % tail)
            out = self.back(fn, node, recv)
            return out
        args = list(e.args) + [k.value for k in e.keywords]
        if tail == "b32decode" or tail == "from_public_bytes":
            lenient = [k.arg for k in e.keywords if k.arg in ("casefold", "map01")
                       and not (isinstance(k.value, ast.Constant) and k.value.value in (False, None))]
            lenient += ["extra positional arguments"] if len(e.args) > 1 else []
            data = e.args[0] if e.args else (args[0] if args else None)
            verdict, why = ("ok", "") if not lenient else self._casefold_gate(fn, node, data)
            if not lenient and tail == "b32decode":
                # even the strict library decoder drops the unused low bits of the last character: the value must
                # have passed a validator (which is then examined for its treatment of that character)
                g = self._casefold_gate(fn, node, data)
                if g[0] == "no":
                    self._lossy(fn, e, "`%s` drops the unused low bits of the last character silently and %s" % (
                        src(fn, e), g[1]))
            if verdict == "ok":
                self._step(fn, "library decoding `%s(..)`%s" % (name, " (lenient flags without effect: %s)" % why if lenient else ""))
                self._checkpoint(fn, e, "library decoding")
            elif verdict == "no":
                self._lossy(fn, e, "`%s` decodes leniently (%s) and %s: several spellings of one key are accepted, each "
                            "filed under its own name" % (src(fn, e), ", ".join(lenient), why))
            else:
                self._undecided(fn, e, "`%s` decodes leniently (%s); %s" % (src(fn, e), ", ".join(lenient), why))
            return self.back(fn, node, data)
        if name in _IDENTITY_CALLS and len(e.args) == 1 and not e.keywords:
            return self.back(fn, node, e.args[0])
        if name in ("re.sub", "re.subn"):
            self._lossy(fn, e, "`%s` rewrites the key string before it is decoded" % src(fn, e))
        else:
            self._undecided(fn, e, "`%s(..)` is not a call the one-to-one analysis understands" % name)
        out = set()
        for a in args:
            out |= self.back(fn, node, a)
        return out

    def _package_call(self, fn, node, e, targets):
        out = set()
        for g in targets:
            origins = self.returns(g)
            ps = first_positional_params(g) if g.cls is not None else list(g.params)
            for i, p in enumerate(ps):
                a = kwarg(e, p)
                if a is None:
                    a = arg(e, i)
                if ("param", g.qual, p) in origins:
                    if a is None:
                        continue           # default value: a constant of the callee
                    out |= self.back(fn, node, a)
                elif a is not None and not self.const_value(fn, a)[0]:
                    self._undecided(fn, e, "argument `%s` of %s is not a constant" % (src(fn, a), short(g)))
            for o in origins:
                if o[0] != "param":
                    out.add(o)
        return out

    def returns(self, g):
        if g.qual in self._rets:
            return self._rets[g.qual]
        self._rets[g.qual] = set()
        out = set()
        rets = [n for n in g.cfg().find(is_return) if n.ast.value is not None]
        if not rets:
            self._undecided(g, g.node, "%s returns no value" % short(g))
        for rn in rets:
            out |= self.back(g, rn, rn.ast.value)
        self._rets[g.qual] = out
        return out

    # ---- case folding is one-to-one only on a single-case alphabet
    def _casefold_gate(self, fn, node, recv, seen=None):
        """Is the value of `recv` at `node` known to consist of a single-case alphabet (plus constant padding)?
        Either a passed validator test on that very name precedes `node` on every path, or the name was bound from
        such a value by a copy / case folding / constant padding."""
        if isinstance(recv, ast.Call) and call_name(recv) in _IDENTITY_CALLS and len(recv.args) == 1:
            return self._casefold_gate(fn, node, recv.args[0], seen)
        if isinstance(recv, ast.Call) and isinstance(recv.func, ast.Attribute) and recv.func.attr in _CASEFOLD_METHODS \
                and not recv.args:
            return self._casefold_gate(fn, node, recv.func.value, seen)
        if isinstance(recv, ast.BinOp) and isinstance(recv.op, ast.Add):
            for (a, b) in ((recv.left, recv.right), (recv.right, recv.left)):
                if self.const_value(fn, b)[0] and not self.const_value(fn, a)[0]:
                    return self._casefold_gate(fn, node, a, seen)
        if not isinstance(recv, ast.Name):
            return "no", "its operand `%s` was not validated" % src(fn, recv)
        cfg = fn.cfg()
        verdicts = []
        for t in cfg.nodes:
            c = t.ast
            if t.kind != "test" or not isinstance(c, ast.Call):
                continue
            vs = self.cg.resolve(fn, c)
            if not vs or len(c.args) != 1 or c.keywords or not (isinstance(c.args[0], ast.Name) and c.args[0].id == recv.id):
                continue
            bad = find_path_avoiding(cfg, lambda x: x is node,
                                     gate_edge=lambda x, lab, _t=t: x is _t and isinstance(lab, tuple) and lab[0] == "T",
                                     kill=stores(recv.id))
            self.states += len(cfg.nodes)
            if bad:
                continue
            for V in vs:
                verdicts.append((V,) + self.validator(V))
        for (V, verdict, why) in verdicts:
            if verdict == "ok":
                self._checkpoint(V, V.node, "alphabet check")
                for (nd, msg) in self._vfindings.get(V.qual, ()):
                    self._lossy(V, nd, msg)
                return "ok", "%s restricted `%s` to the single-case alphabet %r" % (short(V), recv.id, why)
        for (V, verdict, why) in verdicts:
            if verdict == "no":
                return "no", "%s, the only check before it, %s" % (short(V), why)
        if verdicts:
            return "unknown", "; ".join("%s: %s" % (short(V), why) for (V, _v, why) in verdicts)
        # inherited from the value the name was bound from?
        seen = set() if seen is None else seen
        ds = self.rd(fn).get(node.id, {}).get(recv.id, frozenset())
        nogate = ("no", "no check of the alphabet of `%s` (a passed validator test such as could_be_base32_encoded(%s)) "
                  "precedes it on every path" % (recv.id, recv.id))
        if not ds or C.PARAM_DEF in ds:
            return nogate
        result = None
        if all((d, recv.id) in seen for d in ds):
            return "ok", "(loop)"          # a definition already being examined: decided by the others
        for d in sorted(ds):
            if (d, recv.id) in seen:
                continue
            seen.add((d, recv.id))
            dn = cfg.nodes[d]
            v = self._def_value(dn, recv.id)
            if v is None:
                return nogate
            sub = self._casefold_gate(fn, dn, v, seen)
            if sub[0] != "ok":
                return sub if sub[0] == "unknown" else nogate
            if result is None or result[1] == "(loop)":
                result = sub
        return result if result is not None else nogate

    def validator(self, V):
        if V.qual not in self._validators:
            self._validators[V.qual] = self._validator(V)
        return self._validators[V.qual]

    @staticmethod
    def _param_default(V, name):
        a = V.node.args
        pos = list(a.posonlyargs) + list(a.args)
        names = [x.arg for x in pos]
        if name in names:
            i = names.index(name) - (len(pos) - len(a.defaults))
            return a.defaults[i] if i >= 0 else None
        for x, d in zip(a.kwonlyargs, a.kw_defaults):
            if x.arg == name:
                return d
        return None

    def _unchanged_param(self, V, node, name):
        return name in V.params and set(self.rd(V).get(node.id, {}).get(name, ())) == {C.PARAM_DEF}

    def _same_as_param(self, V, node, e, p):
        """`e` at `node` is the parameter p, possibly through bytes(p) / plain copies."""
        saved = (list(self.lossy), list(self.undecided), list(self.steps), list(self.checkpoints))
        try:
            return self.back(V, node, e) == {("param", V.qual, p)} and len(self.lossy) == len(saved[0]) \
                and len(self.undecided) == len(saved[1])
        finally:
            self.lossy, self.undecided, self.steps, self.checkpoints = saved

    def _alphabet_of(self, V, node, c, p):
        """`not <bytes.translate>(p, table, ALPHABET)`: true iff every byte of p is in ALPHABET."""
        if not (isinstance(c, ast.UnaryOp) and isinstance(c.op, ast.Not) and isinstance(c.operand, ast.Call)):
            return None
        k = c.operand
        if k.keywords:
            return None
        f = k.func
        if isinstance(f, ast.Name) and self._unchanged_param(V, node, f.id):
            f = self._param_default(V, f.id)
        if f is not None and attr_path(f) == "bytes.translate" and len(k.args) == 3:
            subj, delete = k.args[0], k.args[2]
        elif isinstance(k.func, ast.Attribute) and k.func.attr == "translate" and len(k.args) == 2:
            subj, delete = k.func.value, k.args[1]
        else:
            return None
        if not self._same_as_param(V, node, subj, p):
            return None
        from_default = False
        if isinstance(delete, ast.Name) and self._unchanged_param(V, node, delete.id):
            delete, from_default = self._param_default(V, delete.id), True
        if delete is None:
            return None
        ok, val = self.const_value(V, delete, module_scope=from_default)
        return val if ok and isinstance(val, bytes) else None

    def _reads_last(self, V, node, c, p):
        for x in ast.walk(c):
            if isinstance(x, ast.Subscript) and self._same_as_param(V, node, x.value, p):
                sl = x.slice
                if isinstance(sl, ast.Slice):
                    sl = sl.lower if sl.upper is None and sl.step is None else None
                ok, val = self.const_value(V, sl) if sl is not None else (False, None)
                if ok and val == -1:
                    return True
        return False

    def _constant_input_only(self, V, rn, p):
        cfg, fnorm = V.cfg(), self.fnorm(V)

        def pins(x, lab):
            f = fnorm.edge_fact(x, lab)
            if not f:
                return False
            op, a, b = f
            if op == "false" and a == p:
                return True
            if op == "==" and p in (a, b):
                other = b if a == p else a
                try:
                    ast.literal_eval(other)
                    return True
                except Exception:
                    return False
            return False
        self.states += len(cfg.nodes)
        return not find_path_avoiding(cfg, lambda x: x is rn, gate_edge=pins, kill=stores(p))

    def _validator(self, V):
        ps = first_positional_params(V)
        if not ps:
            return "unknown", "takes no argument"
        p = ps[0]
        cfg = V.cfg()
        rets = cfg.find(is_return)
        if not rets:
            return "unknown", "returns nothing"
        alphabet = None
        structural = []
        loops = any(n.kind == "iter" for n in cfg.nodes) or any(isinstance(x, ast.While) for x in ast.walk(V.node))
        for rn in rets:
            v = rn.ast.value
            if v is None or (isinstance(v, ast.Constant) and not v.value):
                continue
            if isinstance(v, ast.Constant):
                if self._constant_input_only(V, rn, p):
                    continue
                return "unknown", "accepts at line %d under a condition that is not understood" % rn.lineno
            conj = list(v.values) if isinstance(v, ast.BoolOp) and isinstance(v.op, ast.And) else [v]
            found = [a for a in (self._alphabet_of(V, rn, c, p) for c in conj) if a is not None]
            if not found:
                scans = [x for x in ast.walk(v) if isinstance(x, (ast.ListComp, ast.SetComp, ast.GeneratorExp, ast.DictComp))
                         or (isinstance(x, ast.Call) and call_name(x) not in ("len", "ord", "isinstance"))]
                if not scans and not loops:
                    return "no", ("accepts `%s` after looking at its length / single bytes only, no longer at every byte "
                                  "(`%s`)" % (p, src(V, v)))
                return "unknown", "the accepting condition `%s` is not understood" % src(V, v)
            for a in found:
                if not _case_unique(a):
                    return "no", "accepts the alphabet %r, which contains a letter in both cases" % a
            # base64.b32decode silently drops the unused low bits of the last character: unless the validator
            # constrains that character (beyond alphabet membership), up to 16 spellings decode to one key
            others = [c for c in conj if self._alphabet_of(V, rn, c, p) is None]
            if any(self._reads_last(V, rn, c, p) for c in others):
                structural.append(("ok", rn, ""))
            else:
                # a call can hide a look at the last character only if it is given the content of the string
                # (len(s) is not content: strings of one length differ in their last character)
                opaque = [x for c in others for x in ast.walk(c)
                          if isinstance(x, ast.Call) and call_name(x) not in ("len", "ord", "isinstance")
                          and any(self._sees_content(V, rn, a, p)
                                  for a in list(x.args) + [k.value for k in x.keywords]
                                  + ([x.func.value] if isinstance(x.func, ast.Attribute) else []))]
                if opaque or loops:
                    structural.append(("unknown", rn, "cannot see whether `%s` constrains the last character of `%s`"
                                       % (src(V, v), p)))
                else:
                    structural.append(("no", rn, "accepts `%s` whatever its last character is (`%s`)" % (p, src(V, v))))
            alphabet = found[0]
        if alphabet is None:
            return "unknown", "never accepts"
        # decided by enumeration where the validator can be const-evaluated; structurally otherwise
        verdict, node, why = self._last_character(V, alphabet)
        if verdict is None:
            for (verdict, node, why) in sorted(structural, key=lambda x: ("no", "unknown", "ok").index(x[0])):
                break
        if verdict == "unknown":
            return "unknown", why
        if verdict == "no":
            self._vfindings[V.qual] = [(node.ast if isinstance(node, Node) else node, (
                "%s no longer constrains the last character of the base32 string: %s; base64.b32decode drops the %d "
                "unused low bits of the last of the %d characters of a key silently, so up to %d spellings of one key "
                "verify, each filed under its own name" % (short(V), why, _KEY_SPARE_BITS, _KEY_CHARS,
                                                             1 << _KEY_SPARE_BITS)))]
        return "ok", alphabet

    def _sees_content(self, V, node, e, p, depth=8):
        """May the value of `e` depend on the *content* of the parameter p (not only on its length / type)?"""
        if isinstance(e, ast.Call) and call_name(e) in ("len", "isinstance") and not e.keywords:
            return False
        if isinstance(e, ast.Name):
            if e.id == p:
                return True
            if e.id not in self.locals_of(V):
                return False
            if self._unchanged_param(V, node, e.id):
                return False                     # another parameter (a table with a module-level default)
            rv = self.fnorm(V).resolve(node, e)
            if rv is e or depth <= 0 or (isinstance(rv, ast.Name) and rv.id == e.id):
                return True
            return self._sees_content(V, node, rv, p, depth - 1)
        return any(self._sees_content(V, node, x, p, depth) for x in ast.iter_child_nodes(e))

    def _last_character(self, V, alphabet):
        """Run the validator (engine's bounded AST interpreter) on key-length strings that differ only in the last
        character.  ("no", node, why) when it accepts two whose last characters differ only in bits the decoder
        drops, ("ok", ..) when it accepts none such, (None, ..) when it cannot be evaluated."""
        if not isinstance(alphabet, bytes) or not alphabet:
            return None, None, ""
        heads = {bytes([alphabet[0]]) * (_KEY_CHARS - 1), bytes([alphabet[-1]]) * (_KEY_CHARS - 1),
                 (alphabet * _KEY_CHARS)[:_KEY_CHARS - 1]}
        cache = {}
        for head in sorted(heads):
            groups = {}
            for b in alphabet:
                last = bytes([b])
                val = _RFC4648.find(last.upper())
                if val < 0:
                    return None, None, ""           # not a character the library decoder knows
                try:
                    accepted = _ValidatorEval(self.folder, V.module, cache).call(V, [head + last], {})
                except NotConstant:
                    return None, None, ""
                except RecursionError:
                    return None, None, ""
                self.states += 1
                if accepted:
                    groups.setdefault(val >> _KEY_SPARE_BITS, []).append(last)
            for top, lasts in sorted(groups.items()):
                if len(lasts) > 1:
                    return "no", V.node, ("it accepts the %d-character strings %r + X for X in %s, which all decode to "
                                          "the same %d bytes" % (_KEY_CHARS, head, ", ".join(repr(x) for x in lasts),
                                                                 _KEY_BYTES))
        return "ok", V.node, ""


def _attr_root(e):
    while isinstance(e, ast.Attribute):
        e = e.value
    return e


# =====================================================================
# C34.8: the rejection path is total on the untrusted announcement
# =====================================================================
# A rejected announcement is, by definition, one whose fields have arbitrary types and contents (None for an
# unsigned one, non-UTF-8 bytes after a flipped bit, a non-tuple).  Every statement that runs for it outside the
# protection of the per-announcement try - the bodies of its handlers, whatever they call, and anything in the loop
# body in front of the try - must therefore not be able to raise on the *value*: an exception there leaves
# got_announcements and the rest of the batch is dropped.
_TOTAL_CALLS = {"repr", "ascii", "type", "id", "isinstance", "bool", "callable"}      # + str(x) with one argument
_LOG_SINKS = {"log", "msg", "err"}
_PARTIAL_CALLS = {
    "int", "float", "complex", "len", "ord", "chr", "bytes", "bytearray", "memoryview", "list", "tuple", "set", "frozenset",
    "dict", "sorted", "reversed", "sum", "min", "max", "hash", "iter", "next", "enumerate", "zip", "map", "filter", "any",
    "all", "abs", "round", "divmod", "hex", "oct", "bin", "unicode", "text_type", "ensure_text", "ensure_str", "ensure_binary",
    "ensure_bytes", "loads", "dumps", "load", "dump", "join", "format", "b2a", "a2b", "hexlify", "unhexlify", "b32decode",
    "b32encode", "b64decode", "b64encode", "pack", "unpack", "quote", "unquote", "escape", "native_str", "to_bytes",
    "to_str", "getattr", "vars", "print"}
_SAFE_CONV = {"s", "r", "a"}


def _is_broad(handler_type):
    if handler_type is None:
        return True
    return bool(set(C._handler_names(handler_type) or ()) & {"Exception", "BaseException"})


class Totality:
    """Classifies every operation applied to a value that is data-dependent on the untrusted announcement.  Allowed
    (cannot raise whatever the value is): copying, tuple / list displays, `is` / `==` / truth tests, repr() / str(x) /
    type() / isinstance(), %-formatting of a str template with %s / %r conversions and a tuple / dict display on the
    right, f-strings without a format spec, and handing the value to a logging call (log / msg / err) as an argument.
    Violations: attribute access and method calls (.decode, .get), indexing / slicing, unpacking, iteration
    (for / comprehension / *x), arithmetic and ordered comparison, `%` with the bare value on the right or a bytes /
    numeric conversion, assertions on the value, and library calls known to raise on the type or content of their
    argument (ensure_text, int, len, json, join ...).  In-package callees are followed with the tainted parameters.
    Library calls outside both lists are left undecided (ANALYSIS-ERROR)."""

    MAX_DEPTH = 5

    def __init__(self, idx):
        self.idx = idx
        self.cg = get_callgraph(idx)
        self.folder = get_folder(idx)
        self.violations = []       # (fn, ast node, message)
        self.undecided = []        # (fn, ast node, message)
        self.uses = []             # (fn, ast node) statements that handle the untrusted value (rule sites)
        self.states = 0
        self._done = set()
        self._taint = {}

    # ---- which locals carry the untrusted value (flow-insensitive fixpoint)
    def taint(self, fn, seeds):
        key = (fn.qual, frozenset(seeds))
        if key in self._taint:
            return self._taint[key]
        t = set(seeds)
        binds = []                 # (target expr, value expr, is_iteration)
        for x in func_own_nodes(fn):
            if isinstance(x, ast.Assign):
                for tg in x.targets:
                    binds.append((tg, x.value))
            elif isinstance(x, ast.AugAssign):
                binds.append((x.target, x.value))
            elif isinstance(x, ast.AnnAssign) and x.value is not None:
                binds.append((x.target, x.value))
            elif isinstance(x, ast.NamedExpr):
                binds.append((x.target, x.value))
            elif isinstance(x, (ast.For, ast.AsyncFor)):
                binds.append((x.target, x.iter))
            elif isinstance(x, ast.comprehension):
                binds.append((x.target, x.iter))
            elif isinstance(x, (ast.With, ast.AsyncWith)):
                for it in x.items:
                    if it.optional_vars is not None:
                        binds.append((it.optional_vars, it.context_expr))
        changed = True
        while changed:
            changed = False
            for (tg, v) in binds:
                if not self.carries(fn, v, t):
                    continue
                for nm in names_in(tg) if not isinstance(tg, (ast.Subscript, ast.Attribute)) else ():
                    if nm not in t:
                        t.add(nm)
                        changed = True
            self.states += len(binds)
        self._taint[key] = t
        return t

    def _is_sink(self, fn, call):
        if call_tail(call) not in _LOG_SINKS:
            return False
        return all(g.name in _LOG_SINKS for g in self.cg.resolve(fn, call))

    @staticmethod
    def _is_total_call(call):
        if not isinstance(call.func, ast.Name) or call.keywords:
            return False
        if call.func.id == "str":
            return len(call.args) == 1 and not isinstance(call.args[0], ast.Starred)
        return call.func.id in _TOTAL_CALLS and not any(isinstance(a, ast.Starred) for a in call.args)

    def _template(self, fn, e):
        if isinstance(e, ast.Constant):
            return e.value if isinstance(e.value, (str, bytes)) else None
        if isinstance(e, ast.BinOp) and isinstance(e.op, ast.Add):          # "a" "b" + "c"
            a, b = self._template(fn, e.left), self._template(fn, e.right)
            return a + b if a is not None and b is not None and type(a) is type(b) else None
        if isinstance(e, (ast.Name, ast.Attribute)) and not (names_in(e) & (set(fn.params) | set(all_defs(fn)))):
            try:
                v = self.folder.fold(e, fn.module, fn.cls)
            except Exception:
                return None
            return v if isinstance(v, (str, bytes)) else None
        return None

    def carries(self, fn, e, t):
        """May the value of `e` still be the raw untrusted value (or a container of it)?"""
        if e is None or isinstance(e, (ast.Constant, ast.JoinedStr, ast.Compare, ast.Lambda)):
            return False
        if isinstance(e, ast.Name):
            return e.id in t
        if isinstance(e, ast.UnaryOp) and isinstance(e.op, ast.Not):
            return False
        if isinstance(e, ast.BinOp) and isinstance(e.op, ast.Mod) and isinstance(self._template(fn, e.left), str):
            return False                     # a rendered str
        if isinstance(e, ast.Call):
            if self._is_total_call(e) or self._is_sink(fn, e):
                return False
        return any(self.carries(fn, c, t) for c in ast.iter_child_nodes(e) if isinstance(c, ast.expr)
                   or isinstance(c, (ast.comprehension, ast.keyword)))

    # ---- reports
    def _v(self, fn, node, msg, chain):
        if chain:
            msg += " (reached from the rejection path via %s)" % " -> ".join(chain)
        if not any(f is fn and n is node for (f, n, _m) in self.violations):
            self.violations.append((fn, node, msg))

    def _u(self, fn, node, msg):
        if not any(f is fn and n is node for (f, n, _m) in self.undecided):
            self.undecided.append((fn, node, msg))

    # ---- classification of one CFG node
    def node(self, fn, n, t, chain, depth):
        a = n.ast
        if a is None or n.kind in ("entry", "exit", "raise", "except"):
            return
        self.states += 1
        before = len(self.violations)
        used = False
        if n.kind == "iter":
            used = self.carries(fn, a.iter, t)
            if used:
                self._v(fn, a.iter, "`for %s in %s` iterates over the untrusted value: TypeError when it is not iterable"
                        % (src(fn, a.target), src(fn, a.iter)), chain)
            self.expr(fn, n, a.iter, t, chain, depth)
        elif n.kind == "with":
            for it in a.items:
                used |= self.carries(fn, it.context_expr, t)
                self.expr(fn, n, it.context_expr, t, chain, depth)
        elif n.kind == "test":
            used = self.carries(fn, a, t) or bool(names_in(a) & t)
            if n.assume and names_in(a) & t:
                self._v(fn, a, "`%s` is asserted about the untrusted value: when it fails the AssertionError leaves the "
                        "rejection path" % src(fn, a), chain)
            self.expr(fn, n, a, t, chain, depth)
        elif isinstance(a, (ast.FunctionDef, ast.AsyncFunctionDef, ast.ClassDef, ast.Import, ast.ImportFrom, ast.Global,
                            ast.Nonlocal, ast.Pass, ast.Break, ast.Continue)):
            return
        elif isinstance(a, ast.Assign):
            used = bool(names_in(a.value) & t)
            self.expr(fn, n, a.value, t, chain, depth)
            for tg in a.targets:
                if isinstance(tg, (ast.Tuple, ast.List)) and self.carries(fn, a.value, t) and not (
                        isinstance(a.value, (ast.Tuple, ast.List)) and len(a.value.elts) == len(tg.elts)
                        and not any(isinstance(x, ast.Starred) for x in list(a.value.elts) + list(tg.elts))):
                    self._v(fn, a, "`%s` unpacks the untrusted value: TypeError / ValueError when it is not a sequence of "
                            "%d items" % (src(fn, a), len(tg.elts)), chain)
                if isinstance(tg, (ast.Subscript, ast.Attribute)):
                    used |= bool(names_in(tg) & t)
                    self.expr(fn, n, tg, t, chain, depth)
        elif isinstance(a, ast.AugAssign):
            used = bool((names_in(a.value) | names_in(a.target)) & t)
            self.expr(fn, n, aug_value(a), t, chain, depth)
        elif isinstance(a, ast.AnnAssign):
            used = a.value is not None and bool(names_in(a.value) & t)
            self.expr(fn, n, a.value, t, chain, depth)
        elif isinstance(a, (ast.Expr, ast.Return)):
            used = a.value is not None and bool(names_in(a.value) & t)
            self.expr(fn, n, a.value, t, chain, depth)
        elif isinstance(a, ast.Raise):
            self.expr(fn, n, a.exc, t, chain, depth)
        elif isinstance(a, ast.Delete):
            for tg in a.targets:
                self.expr(fn, n, tg, t, chain, depth)
        elif isinstance(a, ast.expr):
            used = bool(names_in(a) & t)
            self.expr(fn, n, a, t, chain, depth)
        else:
            if any(isinstance(x, ast.Name) and x.id in t for x in ast.walk(a)):
                self._u(fn, a, "statement `%s` is not understood" % src(fn, a))
        if used and len(self.violations) == before and not any(f is fn and x is a for (f, x) in self.uses):
            self.uses.append((fn, a))

    def expr(self, fn, n, e, t, chain, depth):
        if e is None or isinstance(e, (ast.Constant, ast.Name)):
            return
        C_ = lambda x: self.carries(fn, x, t)
        rec = lambda x: self.expr(fn, n, x, t, chain, depth)
        if isinstance(e, (ast.Tuple, ast.List)):
            for x in e.elts:
                rec(x)
            return
        if isinstance(e, ast.Set):
            for x in e.elts:
                if C_(x):
                    self._v(fn, e, "`%s` hashes the untrusted value: TypeError when it is unhashable" % src(fn, e), chain)
                rec(x)
            return
        if isinstance(e, ast.Dict):
            for k in e.keys:
                if k is None:
                    continue
                if C_(k):
                    self._v(fn, e, "`%s` uses the untrusted value as a key: TypeError when it is unhashable" % src(fn, e), chain)
                rec(k)
            for (k, v) in zip(e.keys, e.values):
                if k is None and C_(v):
                    self._v(fn, e, "`**%s` spreads the untrusted value" % src(fn, v), chain)
                rec(v)
            return
        if isinstance(e, ast.Starred):
            if C_(e.value):
                self._v(fn, e, "`*%s` iterates over the untrusted value: TypeError when it is not iterable" % src(fn, e.value), chain)
            rec(e.value)
            return
        if isinstance(e, ast.Attribute):
            if C_(e.value):
                self._v(fn, e, "`%s` reads an attribute of the untrusted value: AttributeError when it is None or of another "
                        "type" % src(fn, e), chain)
            rec(e.value)
            return
        if isinstance(e, ast.Subscript):
            if C_(e.value):
                self._v(fn, e, "`%s` indexes into the untrusted value: TypeError / IndexError / KeyError when it has another "
                        "shape" % src(fn, e), chain)
            elif C_(e.slice):
                self._v(fn, e, "`%s` uses the untrusted value as an index: TypeError / KeyError" % src(fn, e), chain)
            rec(e.value)
            rec(e.slice)
            return
        if isinstance(e, ast.Slice):
            for x in (e.lower, e.upper, e.step):
                rec(x)
            return
        if isinstance(e, ast.BinOp):
            tpl = self._template(fn, e.left) if isinstance(e.op, ast.Mod) else None
            if tpl is not None:
                self._percent(fn, n, e, tpl, t, chain, depth)
                return
            if C_(e.left) or C_(e.right):
                self._v(fn, e, "`%s` computes with the untrusted value: TypeError when it is None or of another type"
                        % src(fn, e), chain)
            rec(e.left)
            rec(e.right)
            return
        if isinstance(e, ast.UnaryOp):
            if not isinstance(e.op, ast.Not) and C_(e.operand):
                self._v(fn, e, "`%s` computes with the untrusted value" % src(fn, e), chain)
            rec(e.operand)
            return
        if isinstance(e, ast.BoolOp):
            for x in e.values:
                rec(x)
            return
        if isinstance(e, ast.IfExp):
            for x in (e.test, e.body, e.orelse):
                rec(x)
            return
        if isinstance(e, ast.Compare):
            operands = [e.left] + list(e.comparators)
            for i, op in enumerate(e.ops):
                l, r_ = operands[i], operands[i + 1]
                if isinstance(op, (ast.Lt, ast.LtE, ast.Gt, ast.GtE)) and (C_(l) or C_(r_)):
                    self._v(fn, e, "`%s` orders the untrusted value: TypeError when it is None or of another type"
                            % src(fn, e), chain)
                elif isinstance(op, (ast.In, ast.NotIn)):
                    if C_(r_):
                        self._v(fn, e, "`%s` searches in the untrusted value: TypeError when it is not a container"
                                % src(fn, e), chain)
                    elif C_(l) and not isinstance(r_, (ast.Tuple, ast.List)):
                        self._u(fn, e, "`%s`: membership of the untrusted value in a container that is not a tuple / list "
                                "display" % src(fn, e))
            for x in operands:
                rec(x)
            return
        if isinstance(e, ast.JoinedStr):
            for x in e.values:
                if isinstance(x, ast.FormattedValue):
                    if x.format_spec is not None and C_(x.value):
                        self._v(fn, x, "the untrusted value is formatted with a format spec in `%s`: TypeError / ValueError"
                                % src(fn, e), chain)
                    rec(x.value)
            return
        if isinstance(e, (ast.GeneratorExp, ast.ListComp, ast.SetComp, ast.DictComp)):
            for g in e.generators:
                if C_(g.iter):
                    self._v(fn, g.iter, "`for %s in %s` iterates over the untrusted value: TypeError when it is not iterable"
                            % (src(fn, g.target), src(fn, g.iter)), chain)
                rec(g.iter)
                for c in g.ifs:
                    rec(c)
            if isinstance(e, ast.DictComp):
                if C_(e.key):
                    self._v(fn, e, "`%s` uses the untrusted value as a key" % src(fn, e), chain)
                rec(e.key)
                rec(e.value)
            else:
                if isinstance(e, ast.SetComp) and C_(e.elt):
                    self._v(fn, e, "`%s` hashes the untrusted value" % src(fn, e), chain)
                rec(e.elt)
            return
        if isinstance(e, (ast.Await, ast.Yield, ast.YieldFrom, ast.NamedExpr)):
            rec(e.value)
            return
        if isinstance(e, ast.Lambda):
            if names_in(e.body) & t:
                self._u(fn, e, "a lambda closes over the untrusted value")
            return
        if isinstance(e, ast.Call):
            self._call(fn, n, e, t, chain, depth)
            return
        if any(isinstance(x, ast.Name) and x.id in t for x in ast.walk(e)):
            self._u(fn, e, "`%s` is not an operation the totality analysis understands" % src(fn, e))

    def _percent(self, fn, n, e, tpl, t, chain, depth):
        rhs = e.right
        if isinstance(rhs, ast.Name) and rhs.id in t:
            try:
                rv = FlowNorm(fn).resolve(n, rhs)
            except Exception:
                rv = rhs
            if isinstance(rv, (ast.Tuple, ast.Dict)):
                rhs = rv
        convs = [c for (k, c) in percent_tokens(tpl) if k == "conv"]
        if isinstance(tpl, bytes):
            if self.carries(fn, rhs, t):
                self._v(fn, e, "`%s` formats the untrusted value into a bytes template: TypeError unless it is bytes / a number"
                        % src(fn, e), chain)
            self.expr(fn, n, rhs, t, chain, depth)
            return
        if isinstance(rhs, ast.Tuple) and not any(isinstance(x, ast.Starred) for x in rhs.elts):
            for i, x in enumerate(rhs.elts):
                if self.carries(fn, x, t) and i < len(convs) and convs[i] not in _SAFE_CONV and len(convs) == len(rhs.elts):
                    self._v(fn, e, "`%s` renders the untrusted value `%s` with %%%s: TypeError unless it is a number"
                            % (src(fn, e), src(fn, x), convs[i]), chain)
                self.expr(fn, n, x, t, chain, depth)
            return
        if isinstance(rhs, ast.Dict):
            if any(c not in _SAFE_CONV for c in convs) and any(self.carries(fn, v, t) for v in rhs.values):
                self._u(fn, e, "`%s`: a numeric conversion in a template rendering the untrusted value by name" % src(fn, e))
            self.expr(fn, n, rhs, t, chain, depth)
            return
        if self.carries(fn, rhs, t):
            self._v(fn, e, "`%s` applies %% to the bare untrusted value: a tuple is spread over the conversions (TypeError "
                    "unless its length matches); wrap it as `(%s,)`" % (src(fn, e), src(fn, rhs)), chain)
        self.expr(fn, n, rhs, t, chain, depth)

    def _call(self, fn, n, e, t, chain, depth):
        f = e.func
        args = list(e.args) + [k.value for k in e.keywords]
        tainted_args = [a for a in args if self.carries(fn, a.value if isinstance(a, ast.Starred) else a, t)]
        if isinstance(f, ast.Attribute) and self.carries(fn, f.value, t):
            self._v(fn, e, "`%s` calls a method of the untrusted value: AttributeError when it is None or of another type%s"
                    % (src(fn, e), ", UnicodeDecodeError on bytes that are not text" if f.attr in ("decode", "encode") else ""),
                    chain)
            self.expr(fn, n, f.value, t, chain, depth)
            for a in args:
                self.expr(fn, n, a, t, chain, depth)
            return
        if not isinstance(f, ast.Name):
            self.expr(fn, n, f, t, chain, depth)
        for (a, kw) in [(a, None) for a in e.args] + [(k.value, k) for k in e.keywords]:
            if kw is not None and kw.arg is None:
                if self.carries(fn, a, t):
                    self._v(fn, e, "`**%s` spreads the untrusted value" % src(fn, a), chain)
            self.expr(fn, n, a, t, chain, depth)
        if not tainted_args:
            return
        if self._is_total_call(e) or self._is_sink(fn, e):
            return
        targets = self.cg.resolve(fn, e)
        tail = call_tail(e)
        if targets:
            for g in targets:
                ps = first_positional_params(g) if g.cls is not None and isinstance(f, ast.Attribute) else list(g.params)
                if g.cls is not None and not isinstance(f, ast.Attribute) and ps and ps[0] in ("self", "cls"):
                    ps = ps[1:]
                seeds = set()
                lost = False
                for i, a in enumerate(e.args):
                    if isinstance(a, ast.Starred):
                        lost |= self.carries(fn, a.value, t)
                    elif self.carries(fn, a, t):
                        if i < len(ps):
                            seeds.add(ps[i])
                        elif g.node.args.vararg is not None:
                            lost = True
                        else:
                            lost = True
                for k in e.keywords:
                    if self.carries(fn, k.value, t):
                        if k.arg is not None and k.arg in g.params:
                            seeds.add(k.arg)
                        else:
                            lost = True
                if lost:
                    self._u(fn, e, "the untrusted value reaches %s through * / ** arguments" % short(g))
                if seeds:
                    self.function(g, seeds, chain + ["%s at %s" % (short(fn), fn.loc(e))], depth + 1)
            return
        if tail in _PARTIAL_CALLS or (isinstance(f, ast.Name) and f.id == "str"):
            self._v(fn, e, "`%s` hands the untrusted value to %s(), which raises on the type or content of its argument "
                    "(None, non-bytes, bytes that are not UTF-8 ...)" % (src(fn, e), call_name(e) or tail), chain)
        else:
            self._u(fn, e, "`%s(..)` is given the untrusted value and is not a call the totality analysis knows" % (
                call_name(e) or tail))

    # ---- a whole callee
    def function(self, g, seeds, chain, depth):
        key = (g.qual, frozenset(seeds))
        if key in self._done:
            return
        self._done.add(key)
        if depth > self.MAX_DEPTH:
            self._u(g, g.node, "call depth exceeded at %s" % short(g))
            return
        t = self.taint(g, seeds)
        cfg = g.cfg()
        reach = cfg.reachable_nodes()
        for n in cfg.nodes:
            if n.id not in reach or self.protected(cfg, n):
                continue
            self.node(g, n, t, chain, depth)

    @staticmethod
    def protected(cfg, n):
        return any(l == "exc" and cfg.nodes[d].kind == "except" and _is_broad(cfg.nodes[d].ast.type)
                   for (d, l) in cfg.succ[n.id])


def run(ctx: Context):
    idx = ctx.idx
    cg = get_callgraph(idx)

    # -- 1. verification gate ----------------------------------------------
    with ctx.rule("C34.1", "R1", "unsign_from_foolscap returns (json.loads(msg), claimed key) only after "
                  "verify_signature(key(claimed), sig, msg) returned normally; got_announcements passes that pair on",
                  expected=3) as r:
        fn = idx.func(UNSIGN)
        cfg = fn.cfg()
        fnorm = FlowNorm(fn)
        P = first_positional_params(fn)[0]
        msg_t, sig_t, key_t = ("%s[%d]" % (P, i) for i in range(3))
        for n in cfg.find(stores(P)):
            r.violation(fn, fn.loc(n.ast), "the announcement tuple %s is re-bound" % P)
        vps = idx.func(VERIFY).params
        good = set()
        seen_verify = False
        for n in cfg.stmt_nodes():
            for c in calls_at(n, "verify_signature"):
                if not any(t.qual == VERIFY for t in cg.resolve(fn, c)):
                    continue
                seen_verify = True
                r.site(fn, c, "verify_signature")
                acts = []
                for i, p in enumerate(vps[:3]):
                    a = kwarg(c, p)
                    acts.append(a if a is not None else arg(c, i))
                ks, ss, ms = [fnorm.norm(n, a) if a is not None else "" for a in acts]
                ok = r.require(ms == msg_t, fn, fn.loc(c), "the signature is checked over %s, not over the announcement "
                               "bytes %s" % (ms, msg_t))
                ok &= r.require("verifying_key_from_string(" in ks and key_t in ks and sig_t not in ks and msg_t not in ks,
                                fn, fn.loc(c), "the verifying key is %s, not the key decoded from the claimed key string %s" % (ks, key_t))
                ok &= r.require(sig_t in ss and key_t not in ss and msg_t not in ss, fn, fn.loc(c),
                                "the signature argument is %s, not decoded from the signature string %s" % (ss, sig_t))
                if ok:
                    good.add(n.id)
        if not seen_verify:
            r.violation(fn, fn.loc(), "unsign_from_foolscap no longer calls crypto.ed25519.verify_signature")
        rets = cfg.find(is_return)
        if not rets:
            raise AnchorVanished("unsign_from_foolscap has no return")
        loads_re = re.compile(r"^(\w+\.)*loads\(%s(\.decode\(('utf-8'|'utf8')?\))?\)$" % re.escape(msg_t))
        for n in rets:
            r.site(fn, n.ast, "return")
            for (t, w) in find_path_avoiding(cfg, lambda x, _n=n: x is _n, gate_node=lambda x: x.id in good):
                r.violation(fn, fn.loc(n.ast), "an announcement is returned as authentic on a path where the signature "
                            "check did not complete normally (path: %s)" % w.brief(), w)
            r.count(len(cfg.nodes))
            v = fnorm.resolve(n, n.ast.value)
            if not (isinstance(v, ast.Tuple) and len(v.elts) == 2):
                r.violation(fn, fn.loc(n.ast), "unsign_from_foolscap returns %s, not (announcement, key)" % src(fn, v))
                continue
            a_s, k_s = fnorm.norm(n, v.elts[0]), fnorm.norm(n, v.elts[1])
            r.require(loads_re.match(a_s) is not None, fn, fn.loc(n.ast), "the returned announcement is %s, not the parse "
                      "of the verified bytes %s" % (a_s, msg_t))
            r.require(k_s == key_t, fn, fn.loc(n.ast), "the announcement is attributed to %s, not to the key %s whose "
                      "signature was verified" % (k_s, key_t))
        # the pair handed to _process_announcement
        ga = idx.func(CLIENT + ".got_announcements")
        gnorm = FlowNorm(ga)
        gcfg = ga.cfg()
        pcalls = [(n, c) for n in gcfg.stmt_nodes() for c in calls_at(n, "_process_announcement")]
        if not pcalls:
            raise AnchorVanished("got_announcements no longer calls _process_announcement")
        for (n, c) in pcalls:
            r.site(ga, c, "accepts")
            a0, a1 = arg(c, 0, "ann"), arg(c, 1, "key_s")
            s0 = gnorm.norm(n, a0) if a0 is not None else ""
            s1 = gnorm.norm(n, a1) if a1 is not None else ""
            m0 = re.match(r"^unsign_from_foolscap\((\w+)\)\[0\]$", s0)
            m1 = re.match(r"^unsign_from_foolscap\((\w+)\)\[1\]$", s1)
            ok = bool(m0 and m1 and m0.group(1) == m1.group(1))
            r.require(ok, ga, ga.loc(c), "_process_announcement(%s, %s) is not given the (announcement, key) pair returned "
                      "by unsign_from_foolscap for this announcement" % (s0, s1))
            if ok:
                lv = m0.group(1)
                loops = [x for x in gcfg.nodes if x.kind == "iter" and lv in node_stores(x)]
                r.require(bool(loops) and all(gnorm.norm(x, x.ast.iter) == first_positional_params(ga)[0] for x in loops),
                          ga, ga.loc(c), "%s is not an element of the received batch" % lv)
        for n in gcfg.stmt_nodes():
            for c in calls_at(n, "unsign_from_foolscap"):
                r.require(any(t.qual == "allmydata." + UNSIGN for t in cg.resolve(ga, c)), ga, ga.loc(c),
                          "unsign_from_foolscap resolves elsewhere")
        # (the cache loader replays announcements that were accepted and saved earlier)
        bad, badrefs, total = callers_outside(idx, "_process_announcement",
                                              [CLIENT + ".got_announcements", CLIENT + "._load_announcements"])
        for cs in bad:
            r.violation(cs.fn, cs.loc, "%s calls _process_announcement without the verification step" % short(cs.fn))
        for (f, nd) in badrefs:
            r.violation(f, f.loc(nd), "%s takes _process_announcement as a value" % short(f))

    # -- 6. the library check behind verify_signature ------------------------
    # C34.1 only demands that verify_signature "returned normally"; that means something only if a normal
    # return of verify_signature implies that the Ed25519 check of (signature, data) under the given key passed.
    with ctx.rule("C34.6", "R1", "crypto.ed25519.verify_signature returns normally only after <key parameter>.verify("
                  "<signature parameter>, <data parameter>) returned normally", expected=2) as r:
        vf = idx.func(VERIFY)
        vcfg = vf.cfg()
        vnorm = FlowNorm(vf)
        vparams = first_positional_params(vf)
        if len(vparams) < 3:
            raise AnchorVanished("verify_signature(public_key, alleged_signature, data) signature changed")
        kp, sp, dp = vparams[:3]
        for p in (kp, sp, dp):
            for n in vcfg.find(stores(p)):
                r.violation(vf, vf.loc(n.ast), "parameter %s is re-bound before the signature check" % p)
        vgood = set()
        seen_lib = False
        for n in vcfg.stmt_nodes():
            for c in calls_at(n, "verify"):
                if not isinstance(c.func, ast.Attribute) or vnorm.norm(n, c.func.value) != kp:
                    continue
                seen_lib = True
                r.site(vf, c, "library verify")
                a_sig, a_data = arg(c, 0, "signature"), arg(c, 1, "data")
                s_sig = vnorm.norm(n, a_sig) if a_sig is not None else ""
                s_data = vnorm.norm(n, a_data) if a_data is not None else ""
                ok = r.require(s_sig == sp, vf, vf.loc(c), "%s.verify is given %s as the signature, not the parameter %s"
                               % (kp, s_sig or "nothing", sp))
                ok &= r.require(s_data == dp, vf, vf.loc(c), "%s.verify checks the signature over %s, not over the parameter %s"
                                % (kp, s_data or "nothing", dp))
                if ok:
                    vgood.add(n.id)
        if not seen_lib:
            r.violation(vf, vf.loc(), "verify_signature no longer calls %s.verify(%s, %s): every signature is accepted"
                        % (kp, sp, dp))
        r.site(vf, None, "normal exit")
        for (t, w) in find_path_avoiding(vcfg, lambda x: x is vcfg.exit, gate_node=lambda x: x.id in vgood):
            r.violation(vf, vf.loc(), "verify_signature returns normally on a path where %s.verify(%s, %s) did not "
                        "complete normally (path: %s)" % (kp, sp, dp, w.brief()), w)
        r.count(len(vcfg.nodes))

    # -- 2. replay rule (client) -------------------------------------------
    with ctx.rule("C34.2", "R3", "_process_announcement: _inbound_announcements[(service, key)] is replaced only by an "
                  "announcement with an int seqnum strictly greater than the stored one; single store, no deletion, "
                  "subscribers notified after the store", expected=3) as r:
        fn = idx.func(CLIENT + "._process_announcement")
        ps = first_positional_params(fn)
        if len(ps) < 2:
            raise AnchorVanished("_process_announcement(ann, key_s) signature changed")
        annp, keyp = ps[0], ps[1]
        for p in (annp, keyp):
            for n in fn.cfg().find(stores(p)):
                r.violation(fn, fn.loc(n.ast), "parameter %s is re-bound before the replay check" % p)
        roles = Roles(fn, "self._inbound_announcements",
                      lambda n, e: isinstance(e, ast.Name) and e.id == annp,
                      lambda n, e: isinstance(e, ast.Name) and e.id == keyp)
        sts = _entry_stores(fn, roles)
        for (st, val) in sts:
            r.site(fn, st.ast, "store")
            tgt = st.ast.targets[0]
            r.require(roles.role(st, tgt.slice) == "IDX", fn, fn.loc(st.ast), "the announcement is stored under %s, not "
                      "under (str(ann['service-name']), key_s)" % src(fn, tgt.slice))
            r.require(len(val.elts) >= 2 and roles.role(st, val.elts[1]) == "KEY", fn, fn.loc(st.ast),
                      "the stored entry %s does not record the verified key next to the announcement" % src(fn, val))
            _seqnum_monitor(r, fn, roles, st, "client")
        store_ids = {st.id for (st, _v) in sts}
        # single writer, never forgotten
        ccls = idx.cls(CLIENT)
        for m in ccls.methods.values():
            for n in m.cfg().stmt_nodes():
                if "self._inbound_announcements[]" in node_stores(n) and not (m is fn and n.id in store_ids):
                    r.violation(m, m.loc(n.ast), "%s writes _inbound_announcements outside the replay check" % short(m))
                for c in node_calls(n):
                    if call_name(c).startswith("self._inbound_announcements.") and call_tail(c) in (
                            "pop", "popitem", "clear", "update", "setdefault", "__setitem__", "__delitem__"):
                        r.violation(m, m.loc(c), "%s mutates _inbound_announcements with .%s(): a forgotten entry lets an "
                                    "old announcement back in" % (short(m), call_tail(c)))
        for (f, nd) in cg.attr_stores("_inbound_announcements"):
            if f.cls is ccls and f.name != "__init__":
                r.violation(f, f.loc(nd), "%s re-binds / deletes _inbound_announcements" % short(f))
        # subscribers hear only about stored announcements
        cfg = fn.cfg()
        dn = cfg.find(has_call("_deliver_announcements"))
        if not dn:
            raise AnchorVanished("_process_announcement no longer calls _deliver_announcements")
        for n in dn:
            r.site(fn, n.ast, "deliver")
            c = calls_at(n, "_deliver_announcements")[0]
            r.require([roles.role(n, a) for a in c.args] == ["KEY", "ANN"], fn, fn.loc(c),
                      "subscribers are given %s, not (key_s, ann)" % src(fn, c))
            for (t, w) in find_path_avoiding(cfg, lambda x, _n=n: x is _n, gate_node=lambda x: x.id in store_ids):
                r.violation(fn, fn.loc(n.ast), "subscribers are notified of an announcement that did not pass the replay "
                            "check (path: %s)" % w.brief(), w)
        bad, badrefs, total = callers_outside(idx, "_deliver_announcements",
                                              [CLIENT + "._process_announcement", CLIENT + "._load_announcements"])
        r.site("callers of _deliver_announcements: %d" % total)
        for cs in bad:
            r.violation(cs.fn, cs.loc, "%s delivers announcements to subscribers directly" % short(cs.fn))
        for (f, nd) in badrefs:
            r.violation(f, f.loc(nd), "%s takes _deliver_announcements as a value" % short(f))

    # -- 3. E9 exception escape --------------------------------------------
    ga = idx.func(CLIENT + ".got_announcements")
    gcfg = ga.cfg()
    roots = [(n, c) for n in gcfg.stmt_nodes() for c in calls_at(n, "unsign_from_foolscap")]
    with ctx.rule("C34.3", "E9", "got_announcements: every exception class explicitly raised inside unsign_from_foolscap "
                  "(transitively, in-package) is caught by a handler of the per-announcement try statement",
                  expected=2) as r:
        un = idx.func(UNSIGN)
        if not roots:
            raise AnchorVanished("got_announcements no longer calls unsign_from_foolscap")
        esc = Escape(idx)
        recs = esc.escaping(un)
        r.count(esc.states)
        by_cls = {}
        for rec in recs:
            by_cls.setdefault(rec.cls, []).append(rec)
        r.site(un, None, "raise set: " + ", ".join("%s x%d" % (k, len(v)) for k, v in sorted(by_cls.items())))
        for (rec, why) in esc.pruned:
            r.sample("pruned %s (%s): %s" % (rec.cls, rec.where(), why))
        ctx.note("C34.3 raise sites considered: " + "; ".join("%s: %s" % (k, ", ".join(x.where() for x in v))
                                                               for k, v in sorted(by_cls.items())))
        ctx.note("C34.3 raise sites pruned as unreachable: " + "; ".join("%s %s [%s]" % (rec.cls, rec.where(), why)
                                                                        for (rec, why) in esc.pruned))
        ctx.note("C34.3 calls without an in-package callee (library, undecided): " + ", ".join(sorted(esc.unresolved)))
        if "BadSignature" not in by_cls:
            raise AnalysisError("escape analysis lost the BadSignature raise of ed25519.verify_signature: call "
                                "resolution below unsign_from_foolscap is broken")
        for (n, c) in roots:
            r.site(ga, c, "per-announcement call")
            handlers = [gcfg.nodes[d] for (d, l) in gcfg.succ[n.id] if l == "exc" and gcfg.nodes[d].kind == "except"]
            if not _enclosing_loop_heads(ga, n):
                r.violation(ga, ga.loc(c), "unsign_from_foolscap is no longer called once per announcement inside a loop")
                continue
            hnames = sorted({x for h in handlers for x in (C._handler_names(h.ast.type) or ["<bare>"])})
            for cls, rs in sorted(by_cls.items()):
                if any(C._default_exc_match(cls, h.ast.type) is True for h in handlers):
                    continue
                # one finding per escaping class: the construct key names the class, so that a known finding for
                # one class never hides another class that starts to escape
                r.violation("%s [escapes: %s]" % (ga.qual, cls), ga.loc(c),
                            "%s (raised at %s) is not caught by the per-announcement handler (catches %s): one such "
                            "announcement aborts the loop and the rest of the batch is dropped" % (
                                cls, "; ".join(x.where() for x in rs[:4]), hnames or "nothing"))

    # -- 5. the handler goes on with the next announcement -----------------
    with ctx.rule("C34.5", "R2", "got_announcements: every handler of the per-announcement try continues with the next "
                  "announcement: it neither leaves the loop nor falls through to _process_announcement", expected=1) as r:
        if not roots:
            raise AnchorVanished("got_announcements no longer calls unsign_from_foolscap")
        for (n, c) in roots:
            handlers = [gcfg.nodes[d] for (d, l) in gcfg.succ[n.id] if l == "exc" and gcfg.nodes[d].kind == "except"]
            loops = _enclosing_loop_heads(ga, n)
            if not loops:
                continue        # reported by C34.3
            head = loops[-1]
            for h in handlers:
                r.site(ga, h.ast, "handler")

                def tr(a, lab, nxt, st, _head=head):
                    if a is _head:
                        return None
                    if nxt is not None and getattr(nxt, "kind", None) == "raise" and lab == "exc" \
                            and Totality.protected(gcfg, a):
                        return None      # inside a nested try with a broad handler: only BaseException passes
                    return 0
                visited, parent = explore(gcfg, 0, tr, start=h)
                r.count(len(visited))
                for (nid, _s) in sorted(visited):
                    x = gcfg.nodes[nid]
                    if x.kind in ("exit", "raise"):
                        r.violation(ga, ga.loc(h.ast), "the handler leaves the loop (%s): the rest of the batch is "
                                    "dropped" % ("returns / breaks" if x.kind == "exit" else "raises"),
                                    witness(gcfg, parent, (nid, 0)))
                    elif calls_at(x, "_process_announcement"):
                        r.violation(ga, ga.loc(h.ast), "after a rejected announcement the handler falls through to "
                                    "_process_announcement with the previous announcement's values",
                                    witness(gcfg, parent, (nid, 0)))
            if not handlers:
                r.site(ga, c, "no handler")      # C34.3 reports every class as escaping

    # -- 8. the rejection path cannot raise on the rejected value ------------
    with ctx.rule("C34.8", "E9", "got_announcements: between receiving an announcement and moving on to the next one, "
                  "everything that runs outside the protection of the per-announcement try (its handlers, the helpers they "
                  "call, statements in front of the try) applies only total operations to the untrusted announcement",
                  expected=2) as r:
        if not roots:
            raise AnchorVanished("got_announcements no longer calls unsign_from_foolscap")
        tot = Totality(idx)
        for (n, c) in roots:
            loops = _enclosing_loop_heads(ga, n)
            if not loops:
                continue        # reported by C34.3
            head = loops[-1]
            seeds = names_in(head.ast.target)
            t = tot.taint(ga, seeds)
            handlers = [gcfg.nodes[d] for (d, l) in gcfg.succ[n.id] if l == "exc" and gcfg.nodes[d].kind == "except"]
            trys = [x for x in ast.walk(head.ast) if isinstance(x, ast.Try)
                    and any(y is n.ast for b in x.body for y in ast.walk(b))]
            in_try = {id(y) for x in trys for y in ast.walk(x)}
            region = {}

            def tr(a, lab, nxt, st, _head=head):
                return None if a is _head else 0
            # (a) from every handler to the next iteration
            for h in handlers:
                r.site(ga, h.ast, "rejection handler")
                visited, _parent = explore(gcfg, 0, tr, start=h)
                r.count(len(visited))
                for (nid, _s) in visited:
                    region[nid] = gcfg.nodes[nid]
            # (b) in the loop body, in front of the per-announcement try
            in_loop = {id(y) for b in head.ast.body for y in ast.walk(b)}
            for x in gcfg.nodes:
                if x.ast is None or id(x.ast) not in in_loop or id(x.ast) in in_try or x.id in region:
                    continue
                visited, _parent = explore(gcfg, 0, tr, start=x)
                if any(nid == n.id for (nid, _s) in visited):
                    region[x.id] = x
            for nid in sorted(region):
                x = region[nid]
                if x is head or Totality.protected(gcfg, x):
                    continue
                if x.kind == "except" or (x.ast is not None and id(x.ast) in in_try and not any(
                        any(y is x.ast for b in h.ast.body for y in ast.walk(b)) for h in handlers)
                        and not any(y is x.ast for tt in trys for b in tt.finalbody for y in ast.walk(b))):
                    continue        # try body / else clause: the accepting path (C34.3 / undecided)
                tot.node(ga, x, t, [], 0)
        r.count(tot.states)
        for (f, nd) in tot.uses:
            r.site(f, nd, "total use of the untrusted value")
        for (f, nd, msg) in tot.violations:
            r.violation(f, f.loc(nd), "a rejected announcement has fields of arbitrary type and content, and an exception on "
                        "the rejection path leaves got_announcements, so the rest of the batch is dropped; " + msg)
        if tot.undecided and not tot.violations:
            raise AnalysisError("C34.8 cannot decide that the rejection path is total: " + "; ".join(
                "%s at %s: %s" % (short(f), f.loc(nd), msg) for (f, nd, msg) in tot.undecided))

    # -- 4. replay rule (introducer server) --------------------------------
    with ctx.rule("C34.4", "R3", "IntroducerService._publish: _announcements[(service, key)] is replaced only by an "
                  "announcement with an int seqnum strictly greater than the stored one", expected=1) as r:
        fn = idx.func(SERVER + "._publish")
        fnorm = FlowNorm(fn)

        def unsigned(n, e, k):
            if not isinstance(e, ast.Name):
                return False
            rv = fnorm.resolve(n, e)
            return isinstance(rv, ast.Subscript) and isinstance(rv.slice, ast.Constant) and rv.slice.value == k \
                and isinstance(rv.value, ast.Call) and call_tail(rv.value) == "unsign_from_foolscap"
        roles = Roles(fn, "self._announcements", lambda n, e: unsigned(n, e, 0), lambda n, e: unsigned(n, e, 1))
        sts = _entry_stores(fn, roles)
        for (st, val) in sts:
            r.site(fn, st.ast, "store")
            r.require(roles.role(st, st.ast.targets[0].slice) == "IDX", fn, fn.loc(st.ast),
                      "the announcement is stored under %s, not under (service, verified key)" % src(fn, st.ast.targets[0].slice))
            _seqnum_monitor(r, fn, roles, st, "introducer server")
        store_ids = {st.id for (st, _v) in sts}
        scls = idx.cls(SERVER)
        for m in scls.methods.values():
            for n in m.cfg().stmt_nodes():
                if "self._announcements[]" in node_stores(n) and not (m is fn and n.id in store_ids):
                    r.violation(m, m.loc(n.ast), "%s writes _announcements outside the replay check" % short(m))

    # -- 7. one key, one name ------------------------------------------------
    with ctx.rule("C34.7", "R1", "the verifying key is decoded from the claimed key string ann_t[2] by one-to-one steps only "
                  "(no stripping, case folding outside a validated single-case alphabet, truncation, lenient decoding): "
                  "the string under which an announcement is filed names exactly one key", expected=6) as r:
        un = idx.func(UNSIGN)
        ucfg = un.cfg()
        P = first_positional_params(un)[0]
        lin = KeyLineage(idx, un)
        vps = idx.func(VERIFY).params
        starts = []
        for n in ucfg.stmt_nodes():
            for c in calls_at(n, "verify_signature"):
                if any(t.qual == VERIFY for t in cg.resolve(un, c)):
                    a = kwarg(c, vps[0])
                    starts.append((n, c, a if a is not None else arg(c, 0)))
        if not starts:
            raise AnchorVanished("unsign_from_foolscap no longer calls crypto.ed25519.verify_signature (see C34.1)")
        reached = True
        for (n, c, a) in starts:
            r.site(un, c, "key argument")
            origins = lin.back(un, n, a)
            if ("elem", P, 2) not in origins:
                reached = False
        for (f, nd, note) in lin.checkpoints:
            r.site(f, nd, note)
        r.count(lin.states)
        for s in lin.steps:
            r.sample(s)
        ctx.note("C34.7 accepted one-to-one steps from %s[2] to the verifying key: %s" % (P, "; ".join(lin.steps)))
        for (f, nd, msg) in lin.lossy:
            r.violation(f, f.loc(nd), "the claimed key string is both the name an announcement is filed under and the "
                        "source of the verifying key, so its decoding must be one-to-one; " + msg)
        if lin.undecided and not lin.lossy:
            raise AnalysisError("C34.7 cannot decide that the key decoding is one-to-one: " + "; ".join(
                "%s at %s: %s" % (short(f), f.loc(nd), msg) for (f, nd, msg) in lin.undecided))
        if not reached and not lin.lossy:
            raise AnalysisError("C34.7: the key handed to verify_signature is not derived from %s[2]" % P)


def _enclosing_loop_heads(fn, node):
    """iter nodes of the for loops lexically enclosing the statement of `node` (outermost first)."""
    cfg = fn.cfg()
    out = []
    for x in cfg.nodes:
        if x.kind == "iter":
            for sub in x.ast.body:
                if any(y is node.ast for y in ast.walk(sub)):
                    out.append(x)
                    break
    out.sort(key=lambda x: x.lineno)
    return out
